#!/bin/bash
# Runs every property's check at the given tier and prints a one-line summary each.
tier=${1:-quick}
cd ${VERIF_ROOT:-/verif}
for p in C01 C02 C03 C04 C05 C06 C07 C08 C09 C10 C11 C12 C13 C14 C15 C16 C17 C18 C19 C20; do
  s=$(date +%s)
  out=$(bin/vcheck -prop $p -tier $tier 2>&1); rc=$?
  e=$(date +%s)
  echo "$p rc=$rc $((e-s))s $(echo "$out" | grep -E '^(PASS|VIOLATION|INCONCLUSIVE)' | head -3 | cut -c1-220 | tr '\n' ' ')"
done
