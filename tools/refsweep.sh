#!/bin/bash
# refsweep.sh [name-prefix] : applies every stored behaviour-preserving refactoring to the tree $REPO (default:
# $VP_RUN_REPO or /repo), runs the quick checks of the properties that depend on the packages it touches, undoes it.
# One line per refactoring: GREEN / NOAPPLY (written against code a later fix replaced) / ALARM <property> ...
VR=${VERIF_ROOT:-/verif}
REPO=${REPO:-${VP_RUN_REPO:-/repo}}
export GOFLAGS=-mod=mod GOPROXY=off GOSUMDB=off GOTOOLCHAIN=local
cd $VR
props_for() {
  local ps=""
  grep -q "cmd/rdpgw/protocol/" $1 && ps="$ps C01 C03 C06 C07 C08 C09 C10 C11 C16 C17 C02 C04 C05"
  grep -q "cmd/rdpgw/transport/" $1 && ps="$ps C06 C08 C09 C11"
  grep -q "cmd/rdpgw/web/" $1 && ps="$ps C04 C05 C07 C12 C13 C15 C19 C03"
  grep -q "cmd/rdpgw/security/" $1 && ps="$ps C02 C03 C04 C07 C12 C15"
  grep -q "cmd/rdpgw/kdcproxy/" $1 && ps="$ps C20 C09 C10"
  grep -q "cmd/rdpgw/config/" $1 && ps="$ps C18 C13 C17 C16"
  grep -q "cmd/rdpgw/rdp/" $1 && ps="$ps C19 C12"
  grep -q "cmd/rdpgw/identity/" $1 && ps="$ps C13 C12"
  grep -q "cmd/auth/" $1 && ps="$ps C14 C10"
  grep -q "cmd/rdpgw/main.go\|cmd/rdpgw/common" $1 && ps="$ps C05 C13 C18 C16 C01"
  echo $ps | tr ' ' '\n' | sort -u | tr '\n' ' '
}
for d in refactorings/${1}*/; do
  name=$(basename $d)
  if ! (cd $REPO && git apply $VR/$d/patch.diff 2>/dev/null); then echo "NOAPPLY  $name"; continue; fi
  if ! (cd $REPO && go build ./cmd/rdpgw/... ./cmd/auth/ntlm/... ./cmd/auth/database/... >/dev/null 2>&1); then echo "NOBUILD  $name"; (cd $REPO && git checkout -- . && git clean -fdq cmd); continue; fi
  alarms=""
  for p in $(props_for $d/patch.diff); do
    out=$(VERIF_ROOT=$VR bin/vcheck -repo $REPO -prop $p -tier quick 2>&1); rc=$?
    if [ $rc -ne 0 ]; then alarms="$alarms $p(rc=$rc: $(echo "$out" | grep -E '^  harness=|^INCONCLUSIVE' | head -1 | cut -c1-160))"; fi
  done
  (cd $REPO && git checkout -- . && git clean -fdq cmd)
  if [ -z "$alarms" ]; then echo "GREEN    $name"; else echo "ALARM    $name $alarms"; fi
done
