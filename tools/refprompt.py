#!/usr/bin/env python3
"""refprompt.py <worktree> <area description> : brief for a sub-agent that writes behaviour-preserving refactorings."""
import sys
wt, area = sys.argv[1], sys.argv[2]
print(f"""You are helping to evaluate a verification effort for the open-source project bolkedebruin/rdpgw (a Go implementation of the MS-TSGU Remote Desktop Gateway). Your job is to play the role of a careful developer who cleans code up WITHOUT changing its behaviour.

You have your own scratch git worktree of the repository at {wt} (a detached checkout of the current HEAD). Work ONLY inside {wt}. Do not read, list or touch /verif, /repo or /root/.vp, and do not look at other directories under /tmp. Do not commit anything.

Environment for every shell call (there is no network): export GOFLAGS=-mod=mod GOPROXY=off GOSUMDB=off GOTOOLCHAIN=local
Existing test suite: cd {wt} && go test -vet=off -count=1 ./cmd/rdpgw/... ./cmd/auth/ntlm/ ./cmd/auth/database/   (cmd/auth itself needs PAM headers and does not build here; ignore it)

Area to refactor: {area}

Task: produce THREE different, independent, strictly behaviour-preserving refactorings (r1, r2, r3) of non-test source in that area. Each should be the kind of change that lands in real code review: extract or inline a helper, replace one standard-library idiom by an equivalent one (e.g. bytes.Buffer+binary.Write <-> binary.LittleEndian.Put*/Append*, strings.Replace <-> Index+slicing, fmt <-> strconv, if-chains <-> switch, early returns/guard clauses, defer placement that does not change the order of observable effects), rename LOCAL variables or unexported helper FUNCTIONS, move code between files of the same package, split a long function, hoist a loop-invariant, change a lock's scope without changing what it protects. Each refactoring should touch 10-80 lines and may touch several functions. Do NOT rename struct fields, exported identifiers or package-level variables, do NOT change function signatures of exported functions, do not change log texts' meaning, error values returned, HTTP statuses, bytes written, order of writes/reads on connections, what is locked when shared state is touched, or any timing-relevant behaviour. "Behaviour" includes concurrency behaviour and behaviour on malformed input and on errors. If you are not sure a transformation is exactly equivalent for every input and schedule, do not use it.

For each refactoring X in (r1, r2, r3):
 1. apply it in the worktree, run gofmt, go build ./cmd/rdpgw/... ./cmd/auth/ntlm/... ./cmd/auth/database/... and the existing test suite (must pass),
 2. convince yourself of equivalence (write a throw-away differential or table test if useful; do not leave it in the tree),
 3. save `git diff` (run at the worktree root) to {wt}/_ref/X/patch.diff and a short {wt}/_ref/X/README.md (first line: `X: <files> — <one-line summary>`, then bullet points: what was transformed and why it is equivalent),
 4. `git checkout -- .` before starting the next one (the untracked _ref directory stays).
Leave the worktree clean (only the untracked _ref directory). Reply with a three-line summary.""")
