#!/bin/bash
# seedsweep.sh [name-prefix] : runs the property check (quick) with every stored seeded change applied, one after
# the other, on the tree $REPO (default: $VP_RUN_REPO or /repo) using the machinery under $VERIF_ROOT (default /verif).
# Read-only with respect to /verif/seeded: prints one line per change (CAUGHT / MISSED / INCONCLUSIVE / NOAPPLY / SUPERSEDED).
VR=${VERIF_ROOT:-/verif}
REPO=${REPO:-${VP_RUN_REPO:-/repo}}
export GOFLAGS=-mod=mod GOPROXY=off GOSUMDB=off GOTOOLCHAIN=local
cd $VR
for d in seeded/${1}*/; do
  name=$(basename $d)
  prop=$(python3 -c "import json;print(json.load(open('$d/meta.json'))['property'])")
  sup=$(python3 -c "import json;print('1' if json.load(open('$d/meta.json')).get('superseded') else '')")
  if [ -n "$sup" ]; then echo "SUPERSEDED   $name"; continue; fi
  if ! (cd $REPO && git apply $VR/$d/patch.diff 2>/dev/null); then echo "NOAPPLY      $name"; continue; fi
  out=$(VERIF_ROOT=$VR bin/vcheck -repo $REPO -prop $prop -tier quick 2>&1); rc=$?
  (cd $REPO && git apply -R $VR/$d/patch.diff)
  labels=$(echo "$out" | grep -E '^  harness=' | sed 's/  harness=\([^ ]*\) label=\([^ ]*\).*/\1\/\2/' | head -2 | tr '\n' ' ')
  case $rc in
    1) echo "CAUGHT       $name $labels";;
    0) echo "MISSED       $name";;
    *) echo "INCONCLUSIVE $name $(echo "$out" | grep -E '^INCONCLUSIVE' | head -1 | cut -c1-200)";;
  esac
done
