#!/usr/bin/env python3
"""seedprompt.py <property id> <worktree> : prints the brief for a seeding sub-agent (property text + its scratch worktree;
nothing about how /verif checks anything; the titles of earlier seeded changes are listed so that a new one differs)."""
import json, sys, glob, os
pid, wt = sys.argv[1], sys.argv[2]
prop = None
for l in open('/verif/properties.jsonl'):
    p = json.loads(l)
    if p['id'] == pid:
        prop = p
tried = []
for d in sorted(glob.glob(f'/verif/seeded/{pid}-*/README.md')):
    t = open(d).readline().strip().lstrip('# ').strip()
    tried.append(t)
print(f"""You are helping to evaluate a verification effort for the open-source project bolkedebruin/rdpgw (a Go implementation of the MS-TSGU Remote Desktop Gateway). Your job is to play the role of a developer who introduces a realistic, subtle regression.

You have your own scratch git worktree of the repository at {wt} (a detached checkout of the current HEAD). Work ONLY inside {wt}. Do not read, list or touch /verif, /repo or /root/.vp, and do not look at other directories under /tmp. Do not commit anything.

Environment for every shell call (there is no network): export GOFLAGS=-mod=mod GOPROXY=off GOSUMDB=off GOTOOLCHAIN=local
Existing test suite: cd {wt} && go test -vet=off -count=1 ./cmd/rdpgw/... ./cmd/auth/ntlm/ ./cmd/auth/database/   (cmd/auth itself needs PAM headers and does not build here; ignore it)

The property that should hold for this code base ({pid}: {prop['title']}):

\"\"\"{prop['statement']}\"\"\"

Task: produce TWO different, independent changes (call them a and b) to the NON-test source of the repository, each of which
 1. BREAKS this property (a user relying on the property would be harmed),
 2. still compiles (go build ./cmd/rdpgw/... ./cmd/auth/ntlm/... ./cmd/auth/database/...) and passes the existing test suite unchanged (do not edit or delete existing tests),
 3. looks like something a developer could plausibly write (an optimisation, a refactoring gone slightly wrong, a "robustness" tweak, a feature flag, a changed default, a reordered step, a helper moved elsewhere) — not sabotage with an obvious marker, and no comments that announce the bug,
 4. needs something SPECIFIC to manifest — a particular interleaving, a crash or fault at a particular point, a multi-step sequence of operations, an unusual input or size or configuration combination, or two cooperating sites that each look fine alone. Do NOT produce a change that ordinary use would expose at once.
Each change should be small (typically 3-40 changed lines), may touch one or several files, and must differ in kind from the other one and from what was already tried before (listed below). Read the code carefully first; prefer breaking the property through a path, input class, configuration, library behaviour or piece of state that a reviewer would not think of first. Changes in any package that the property depends on are fine (protocol, transport, security, web, config, kdcproxy, rdp, identity, cmd/auth/ntlm, main.go ...).

Already tried in earlier rounds for this property (do something different in mechanism, not a re-spelling):
""" + ('\n'.join(' - ' + t for t in tried) if tried else ' (nothing yet)') + f"""

For each change X in (a, b) deliver, under {wt}/_seed/X/ :
 - patch.diff : the change as produced by `git diff` run at the worktree root (paths relative to the root, applies with `git apply` to a clean checkout). It must not contain the _seed directory or any test file.
 - demo_test.go : a demonstration — an ordinary Go test file (package of the directory it is to be copied into; only `Test...` functions; no external modules beyond what go.mod already has; it may use loopback sockets, httptest, goroutines, timeouts) that FAILS with the change applied and PASSES without it. Its first line must be a comment naming the package directory it belongs in, e.g. `// demo for cmd/rdpgw/protocol` . It must finish within 60 seconds either way, and be deterministic (if the failure needs an interleaving, force it with synchronisation, not with luck).
 - README.md : first line `# {pid} seed X — <short title>`, then: what was changed and where, why it breaks the property, what exactly is needed for it to manifest, and the commands you ran with their outcome (build, existing suite with the change, demo with and without the change).

Procedure: make change a in the worktree, verify build + suite + demo (fails), save `git diff` to _seed/a/patch.diff, then `git checkout -- .` (keep _seed, which is untracked), verify the demo passes on the clean tree, remove your copy of the demo test from the source tree; repeat for b. Leave the worktree clean (only the untracked _seed directory). When done, reply with a short summary (title of each change, files touched, what it needs to manifest). If, while reading, you find that the UNCHANGED code already violates the property in some way, mention it separately in your reply with a concrete reproduction — that is valuable too — but still deliver the two changes.""")
