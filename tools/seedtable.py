#!/usr/bin/env python3
"""Prints the Section-12 table of DESIGN.md from /verif/seeded/*/meta.json."""
import json, glob, os
rows=[]
for d in sorted(glob.glob('/verif/seeded/*/meta.json')):
    m=json.load(open(d))
    first=m.get('history',[{}])[0] if m.get('history') else m['check']
    now=m['check']
    def st(c):
        return 'caught' if c.get('caught') else ('inconclusive' if c.get('inconclusive') else 'MISSED')
    labels=', '.join(l.split('/')[0]+'/'+l.split('/')[1][:48] for l in now.get('labels',[])[:2])
    what=' '.join(m.get('breaks',[])[:2])[:170].replace('|','/').replace('\n',' ')
    sup=m.get('superseded')
    import re as _re
    fx=_re.findall(r'fix(?:es)? \(?([0-9a-f]{7})', sup) if isinstance(sup,str) else []
    if sup and m['name'].startswith('C20-j'):
        nowst='not evaluated (superseded by fix b3dfe7e)'
    elif sup:
        nowst=st(now)+' (before fix '+(fx[0] if fx else '1717b2e')+'; superseded)'
    else:
        nowst=st(now)
    rows.append(f"| {m['name']} | {m['property']} | {st(first)} | {nowst} | {labels} |")
print("| seeded change | property | first run | now | assertion(s) that fire |")
print("|---|---|---|---|---|")
print('\n'.join(rows))
