#!/bin/bash
# seedauto.sh <round dir prefix, e.g. /tmp/wt9_> : evaluates every <prefix>Cxx/_seed/{a,b} with seedcheck.sh,
# naming each change Cxx-<next letter>-<slug of its README title>
prefix=$1
cd /verif
for d in ${prefix}C*/; do
  prop=$(basename $d | sed 's/.*_//')
  for x in a b; do
    src=$d/_seed/$x
    [ -f $src/patch.diff ] || continue
    n=$(ls /verif/seeded | grep -c "^$prop-")
    letter=$(python3 -c "print('abcdefghijklmnopqrstuvwxyz'[$n])")
    slug=$(head -1 $src/README.md | sed 's/^#* *//; s/[Ss]eed [ab]//; s/C[0-9][0-9]//g' | tr 'A-Z' 'a-z' | sed 's/[^a-z0-9]\+/-/g; s/^-*//; s/-*$//' | cut -c1-48 | sed 's/-*$//')
    tools/seedcheck.sh $prop $src $prop-$letter-$slug 2>&1 | grep -v "^VIOLATION\|^PASS" | cut -c1-400
  done
done
