#!/bin/bash
REPO=${REPO:-/repo}  # the tree the change is applied to (default /repo; a scratch worktree of the same commit while /repo is busy)
# seedcheck.sh <property> <seed source dir> <seed name>
#   1. confirms the seeded change in a scratch worktree (build, existing tests pass, demo fails with / passes without)
#   2. applies it to /repo, runs the property's check (quick tier), undoes it
#   3. stores patch, demonstration and meta.json under /verif/seeded/<name>/
prop=$1; src=$2; name=$3; tier=${4:-quick}
export GOFLAGS=-mod=mod GOPROXY=off GOSUMDB=off GOTOOLCHAIN=local
dst=/verif/seeded/$name
mkdir -p $dst
cp $src/patch.diff $dst/patch.diff
demo=$(ls $src | grep -E 'demo.*\.go$' | head -1)
cp $src/$demo $dst/$demo
[ -f $src/README.md ] && cp $src/README.md $dst/README.md
pkgdir=$(head -5 $src/$demo | grep -oE '(cmd|shared)/[A-Za-z0-9_/]+' | head -1 | sed 's|/$||')
wt=/tmp/sc_$name
git -C /repo worktree remove --force $wt 2>/dev/null
git -C /repo worktree add -q --detach $wt HEAD
cp $src/$demo $wt/$pkgdir/zz_seed_demo_test.go
run="^($(grep -oE 'func (Test[A-Za-z0-9_]+)' $src/$demo | sed 's/func //' | tr '\n' '|' | sed 's/|$//'))\$"
cd $wt
without=$(go test -vet=off -count=1 -run "$run" ./$pkgdir/ 2>&1 | tail -3); rc_without=$?
go test -vet=off -count=1 -run "$run" ./$pkgdir/ >/dev/null 2>&1; rc_without=$?
git apply $src/patch.diff; rc_apply=$?
go build ./cmd/rdpgw/... ./cmd/auth/ntlm/... ./cmd/auth/database/... >/dev/null 2>&1; rc_build=$?
mv $wt/$pkgdir/zz_seed_demo_test.go /tmp/zz_seed_demo_$name.go
go test -vet=off -count=1 ./cmd/rdpgw/... ./cmd/auth/ntlm/ ./cmd/auth/database/ >/tmp/sc_suite_$name.log 2>&1; rc_suite=$?
mv /tmp/zz_seed_demo_$name.go $wt/$pkgdir/zz_seed_demo_test.go
go test -vet=off -count=1 -run "$run" ./$pkgdir/ >/tmp/sc_demo_$name.log 2>&1; rc_with=$?
VR=${VERIF_ROOT:-/verif}
# run the check on the scratch worktree with the change applied (/repo itself is never touched)
rm -f $wt/$pkgdir/zz_seed_demo_test.go
cd $VR
t0=$(date +%s)
out=$(bin/vcheck -repo $wt -prop $prop -tier $tier 2>&1); rc_check=$?
t1=$(date +%s)
git -C /repo worktree remove --force $wt
git -C /verif checkout -- evidence 2>/dev/null  # evidence files describe the unchanged tree only
verdict=$(echo "$out" | grep -E '^(VIOLATION|INCONCLUSIVE|PASS)' | head -4)
labels=$(echo "$out" | grep -E '^  harness=' | sed 's/  harness=\([^ ]*\) label=\([^ ]*\).*/\1\/\2/' | head -6 | tr '\n' ' ')
python3 - "$prop" "$name" "$pkgdir" "$rc_apply" "$rc_build" "$rc_suite" "$rc_without" "$rc_with" "$rc_check" "$((t1-t0))" "$labels" "$tier" <<'PY'
import sys, json, os
prop,name,pkgdir,rc_apply,rc_build,rc_suite,rc_without,rc_with,rc_check,secs,labels,tier=sys.argv[1:13]
dst=f'/verif/seeded/{name}'
readme=open(dst+'/README.md').read() if os.path.exists(dst+'/README.md') else ''
meta={"property":prop,"name":name,"breaks":readme.strip().split('\n')[0:12],
 "confirmed":{"patch_applies":rc_apply=="0","builds":rc_build=="0","existing_suite_passes_with_change":rc_suite=="0",
              "demo_passes_without_change":rc_without=="0","demo_fails_with_change":rc_with!="0"},
 "what_i_ran":[f"scratch worktree of /repo HEAD: demo in {pkgdir} without the change; git apply patch.diff; go build; go test ./cmd/rdpgw/... ./cmd/auth/ntlm/ ./cmd/auth/database/; demo again",
               f"scratch worktree with patch.diff applied: bin/vcheck -repo <worktree> -prop {prop} -tier {tier}; worktree removed"],
 "check":{"exit_code":int(rc_check),"seconds":int(secs),"caught":rc_check=="1","inconclusive":rc_check=="3","labels":labels.split()}}
json.dump(meta,open(dst+'/meta.json','w'),indent=1)
print(name,"confirmed=",all(meta["confirmed"].values()),meta["confirmed"] if not all(meta["confirmed"].values()) else "","check_exit=",rc_check,"labels=",labels)
PY
echo "$verdict" | cut -c1-300
