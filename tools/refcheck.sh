#!/bin/bash
# refcheck.sh <patch.diff> <prop> [<prop>...] : applies a behaviour-preserving change to /repo, runs the
# listed checks (quick), undoes the change; prints one line per property; any rc != 0 is a false alarm to triage
patch=$1; shift
cd /verif
git -C /repo apply $patch || { echo "NOAPPLY $patch"; exit 2; }
for p in "$@"; do
  out=$(bin/vcheck -prop $p -tier quick 2>&1); rc=$?
  echo "  $p rc=$rc $(echo "$out" | grep -E '^(VIOLATION|INCONCLUSIVE)' | head -2 | cut -c1-260 | tr '\n' ' ')"
done
git -C /repo checkout -- .
git -C /verif checkout -- evidence 2>/dev/null  # evidence files describe the unchanged tree only
