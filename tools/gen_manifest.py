#!/usr/bin/env python3
"""Regenerates /verif/MANIFEST.json from the table below (kept in one place so that the
manifest, the harness inventory and DESIGN.md stay consistent)."""
import json, os
ROOT = os.path.dirname(os.path.dirname(os.path.abspath(__file__)))
props = [json.loads(l)['id'] for l in open(os.path.join(ROOT, 'properties.jsonl'))]

TECH = "bounded symbolic execution of the real go/ssa (own SSA->SMT-LIB2 executor), z3 decides every branch/panic/assert query; counterexamples replayed natively"
TRUST = ("Trusted base: go/ssa v0.29.0 lowering, the executor in /verif/engine (validated on every run by replaying solver-produced path witnesses "
         "through the natively compiled harness and comparing observations), z3 4.8.12 (thorough: obligations re-discharged on z3 5.1.0 and cvc5 1.0.3). ")

CLAIMS = {
 "C01": ("One inductive step of Processor.Process from an arbitrary protocol phase (symbolic state, packet type, body, callbacks, dial outcome) plus K-packet histories from the initial state; "
         "asserts success-only-in-order, dial only in phase 3 after the host check and at most once, relay only on DATA with an open channel, nothing read after an error/close response, loop invariant re-established. "
         "Bounded model checking is the right level: the quantifier is over all packet histories, which the step covers by induction (paper argument) and the K-bounded run cross-checks.",
         "6.C01", "Transport, net.Conn, net.DialTimeout and the three policy callbacks are stubs with the contracts of DESIGN Appendix C; body <= 10 (quick) / 24 (thorough) bytes; inner declared lengths <= carried+4; client-name units after the first are ASCII; induction over steps is a paper argument; websocket/legacy transports themselves are outside."),
 "C03": ("channelRequest/DecodeUTF16 decoded against an independent per-code-unit oracle for all names up to 3 (quick) / 5 (thorough) UTF-16 units and all declared sizes; the step harness proves the string given to CheckHost is byte-equal to the string dialed and that a refusal dials nothing; security.CheckHost/CheckSession policy over bounded host lists and names.",
         "6.C03", "Names <= 5 units, host strings <= the stated byte bounds, <= 2 host entries; DNS/IPv6 semantics of the dialed string are outside (the property is byte equality)."),
 "C06": ("forward() and receive() executed symbolically: per read / per DATA packet exactness, header and payload length fields, order, single write, no invented bytes; sizes around 0,1,2,255,4085,4086 (thorough 256,4087,8200).",
         "6.C06", "net.Conn and Transport stubs deliver what they are given; whole-stream exactness follows from per-packet exactness plus C08 framing (paper argument); multi-MiB streams and interleaving of the two directions are outside."),
 "C08": ("readMessage/readHeader run on every segmentation shape of k<=2 (3) packets: whole, two-fragment at every cut, three-fragment, coalesced, oversize first fragment, and a single arbitrary read with all 2^32 length-field values.",
         "6.C08", "Transport stub per Appendix C; bodies <= 2 (6) bytes; three known findings (split3, coalesce, bigfrag) are reported as KNOWN-FINDING, each by its own harness/label; gorilla/httputil chunking itself is outside."),
 "C16": ("All five response builders for every status/version/caps value, tunnel-auth policy word for all 2^7 switch combinations and all int32 idle timeouts, and per-step response layout/status in the C01 step harness, against literal MS-TSGU offsets.",
         "6.C16", "Configuration->Gateway field mapping in main() is not encoded (reflection/third-party constructors); close-response carries 8 extra bytes (noted, not alarmed)."),
 "C17": ("matchAuth for all 2^16 client words x 4 server settings and the whole handshake step (body length 0..8, all version bytes, follow-up packet) in single symbolic runs.",
         "6.C17", "Transport stub; handshake body <= 8 bytes."),
}

checks = []
for p in props:
    if p not in CLAIMS:
        continue
    text, ref, note = CLAIMS[p]
    checks.append({
        "property_id": p,
        "quick_cmd": f"bin/vcheck -prop {p} -tier quick",
        "thorough_cmd": f"bin/vcheck -prop {p} -tier thorough",
        "evidence_file": f"evidence/{p}.json",
        "replay_cmd_template": f"bin/vcheck -prop {p} -replay {{path}}",
        "engine": "gosmt",
        "level_claimed": {"category": "model_checking", "text": text, "design_ref": ref},
        "level_note": TRUST + note,
        "technique": TECH,
    })

NA_REASON = {}
m = {
 "version": 1,
 "setup_cmd": "cd /verif/engine && GOFLAGS=-mod=mod GOPROXY=off GOSUMDB=off GOTOOLCHAIN=local go build -o ../bin/vcheck ./cmd/vcheck",
 "hooks": {"guard": "verif", "enable": "none needed: harnesses are injected by go/packages Overlay (symbolic side) and go test -overlay (native replay); /repo is never written by a check",
           "baseline_off_cmd": "cd /repo && GOFLAGS=-mod=mod GOPROXY=off GOSUMDB=off go test -json -vet=off -count=1 -timeout 25m ./...",
           "source_commits": [], "add_only": True},
 "engines": [{"name": "gosmt", "path": "engine", "serves_properties": sorted(CLAIMS), "kind_free_text": "path-forking symbolic executor over go/ssa emitting SMT-LIB2 (QF_BV terms) to z3 4.8.12 / z3 5.1.0 / cvc5 1.0.3; native replay through go test -overlay"}],
 "checks": checks,
 "not_applicable": [{"property_id": p, "reason": NA_REASON.get(p, "check not built yet (work in progress; see DESIGN.md section 6 for the plan)")} for p in props if p not in CLAIMS],
 "notes": "exit 0 = every obligation unsat within the stated bounds (known findings printed as KNOWN-FINDING); exit 1 = natively reproduced counterexample (VIOLATION line); exit 3 = INCONCLUSIVE (unsupported construct, solver unknown, bound exceeded, vacuous harness, encoder mismatch).",
}
json.dump(m, open(os.path.join(ROOT, 'MANIFEST.json'), 'w'), indent=1)
print("claimed:", sorted(CLAIMS), "n/a:", len(m["not_applicable"]))
