#!/usr/bin/env python3
"""Regenerates /verif/MANIFEST.json from the table below (kept in one place so that the
manifest, the harness inventory and DESIGN.md stay consistent)."""
import json, os
ROOT = os.path.dirname(os.path.dirname(os.path.abspath(__file__)))
props = [json.loads(l)['id'] for l in open(os.path.join(ROOT, 'properties.jsonl'))]

TECH = "bounded symbolic execution of the real go/ssa (own SSA->SMT-LIB2 executor), z3 decides every branch/panic/assert query; counterexamples replayed natively"
TRUST = ("Trusted base: go/ssa v0.29.0 lowering, the executor in /verif/engine (validated on every run by replaying solver-produced path witnesses "
         "through the natively compiled harness and comparing observations), z3 4.8.12 (thorough: obligations re-discharged on z3 5.1.0 and cvc5 1.0.3). ")

CLAIMS = {
 "C01": ("One inductive step of Processor.Process from an arbitrary protocol phase (symbolic state, packet type, body, callbacks, dial outcome) plus K-packet histories from the initial state; "
         "asserts success-only-in-order, dial only in phase 3 after the host check and at most once, relay only on DATA with an open channel, nothing read after an error/close response, loop invariant re-established. "
         "Bounded model checking is the right level: the quantifier is over all packet histories, which the step covers by induction (paper argument) and the K-bounded run cross-checks.",
         "6.C01", "Transport, net.Conn, net.DialTimeout and the three policy callbacks are stubs with the contracts of DESIGN Appendix C; body <= 10 (quick) / 14 (thorough) bytes; inner declared lengths <= carried+4; client-name units after the first are ASCII; induction over steps is a paper argument; the websocket/legacy transports have their own harnesses (C06/C11); a late IN connection for an ended legacy tunnel is covered by VP_C01_legacy_dead_tunnel; 'token authentication implies a wired cookie check' is checked on the real main() (VP_C05_routes)."),
 "C02": ("security.CheckPAACookie and GeneratePAAToken executed symbolically around contract stubs of go-jose/go-oidc: acceptance implies HS256 allow-list, MAC under the PAA signing key (not any other gateway key), issuer, expiry with the real go-jose Validate arithmetic over symbolic times, IdP verdict on the embedded access token, tunnel bound to the verified claims; minting: HS256 + signing key, expiry - now <= 300 s, refusal under 32 bytes.",
         "6.C02", "Cryptography is replaced by contracts (DESIGN Appendix C): unforgeability, base64/JSON parsing and bit-mutation resistance are NOT decided; mint-then-verify is composed at the level of the captured claims (VP_C02_mint_then_verify); the tunnel's connect time is symbolic; claim strings are 2 (4) symbolic bytes."),
 "C03": ("channelRequest/DecodeUTF16 decoded against an independent per-code-unit oracle for all names up to 3 (quick) / 5 (thorough) UTF-16 units and all declared sizes; the step harness proves the string given to CheckHost is byte-equal to the string dialed and that a refusal dials nothing; security.CheckHost/CheckSession policy over bounded host lists and names against an oracle written from the property text.",
         "6.C03", "Names <= 5 units, host strings <= the stated byte bounds, <= 2 (3) host entries with affixes <= 1 byte; DNS/IPv6 semantics of the dialed string are outside (the property is byte equality)."),
 "C04": ("CheckSession for all token/presenting address pairs (<= 3/5 bytes, attribute present/absent/non-string) and both switch settings; EnrichContext's client-address derivation from X-Forwarded-For / peer address against an independent oracle; the cookie check binds the tunnel to the verified address claim and the mint writes the clientIp attribute (shared C02 harnesses).",
         "6.C04", "X-Forwarded-For <= 4 (6) ASCII bytes; four representative peer addresses; textual variants of one IP are different strings by design of the property."),
 "C05": ("BasicAuth / NTLMAuth middlewares and NoAuthz/SetAuthenticate executed symbolically against a stubbed authentication service (next handler reached iff the backend confirmed, identity = confirmed name, 401/500 and challenge headers otherwise, no panic for any header value the route matcher can deliver), and the route table that main() builds for every startable subset of mechanisms: the tunnel handler is reachable bare iff OpenID is the only mechanism, otherwise only through the wrapper of an enabled scheme whose keyword the header carries; no header -> 401 with one challenge per enabled scheme.",
         "6.C05", "main() is executed up to ListenAndServe with gorilla/mux's builder methods recording a ghost route table (VP_C05_routes): requests with an arbitrary Authorization value (<= 9/12 bytes) are dispatched by mux's documented rules (registration order, unanchored HeadersRegexp, MatcherFunc), for every startable mechanism subset. gorilla/mux's own matching, regexp beyond literal words, SPNEGO validation and net/http header parsing are contracts, not decided."),
 "C06": ("forward() and receive() executed symbolically: per read / per DATA packet exactness, header and payload length fields, order, single write, no invented bytes; the relay reached through the packet loop with read sizes around 0,1,2,255,4085..4087,65535,65536 (thorough 256,70000,131072) and socket-buffer settings up to 262144; K-packet DATA/KEEPALIVE streams through the packet loop; the real LegacyPKT/WSPKT transports over a modelled peer (stalls, resets, write deadlines, message types).",
         "6.C06", "net.Conn / gorilla Conn are contract models (DESIGN 6.C06); whole-stream exactness follows from per-packet exactness plus C08 framing (paper argument); multi-MiB streams and interleaving of the two directions are outside."),
 "C07": ("One arbitrary packet on tunnel A from an arbitrary phase while a fully symbolic tunnel B is registed: B's phase, identity, token host, address, transports, backend and registry entry and the shared Gateway are asserted unchanged; HandleGatewayProtocol run for two requests with symbolic connection ids and kinds shows connections share a tunnel only under equal ids.",
         "6.C07", "2 tunnels, 1 step; 3..64 tunnels and real scheduling are not explored (commutation of disjoint steps is a paper argument); go-cache is a contract stub; two different PAA tokens presented in a row bind each tunnel to its own token only (VP_C07_cookie_isolation)."),
 "C08": ("Tunnel.Read/readMessage/readHeader run on every segmentation shape of k<=2 (3) packets: whole, two-fragment at every cut, three-fragment, coalesced, oversize first fragment, every combination of 2 (3) cuts of the whole stream independent of packet boundaries, and a single arbitrary read with all 2^32 length-field values; the legacy chunked body through the real NewLegacy/ReadPacket.",
         "6.C08", "Transport stub per Appendix C; bodies <= 2 (6) bytes; the three segmentation defects found here (split3, coalesce, bigfrag) were repaired in 1717b2e and are now plain assertions; net/http's chunked reader is interpreted for the legacy IN body (VP_C08_legacy_chunks); gorilla's websocket framing is outside."),
 "C09": ("Lockset analysis over the executor's heap-access logs: handler threads of two tunnels and their relay goroutines (cooperative scheduler: goroutines switch where the running one blocks) - any pair of accesses to Tunnel/Gateway/registry/client-writer state from different threads with a write, no common sync.Mutex and no spawn order is a violation, replayed natively under the Go race detector.",
         "6.C09", "No schedule exploration: lockset is conservative for mutex discipline but blind to channel-based ordering; races inside gorilla/net/http/go-cache are outside; 2 websocket tunnels, one scenario shape."),
 "C10": ("Every implicit runtime panic on every explored path is an SMT obligation: protocol parsers and readHeader on arbitrary bytes, the Process step, legacy request orderings, the NTLM verifier on arbitrary messages and on adversarial security-buffer descriptors (real go-ntlm parser code interpreted), Authorization header slicing, KDC-proxy list merge and channel accounting, and the reflection walk of the socket-buffer tuning over *tls.Conn / *net.TCPConn / other connections (engine model of package reflect answered from the static types).",
         "6.C10", "net/http parsing, gorilla, gRPC, PAM (cmd/auth does not build here) and asn1 are outside; message lengths <= 24/28 bytes (NTLM), bodies <= 12/20 bytes (protocol)."),
 "C11": ("handleWebsocketProtocol / the legacy handler pair run for 0..6 (8) set-up/data packets followed by each way the client side can end; ghost state at return: backend closed, both client transports closed, registry entry gone, gauges restored, and the relay goroutine terminates (cooperative scheduler; a goroutine left parked is a violation).",
         "6.C11", "Dial and backend are stubs; the handlers run over scripted transports, the real WSPKT/LegacyPKT Close over a modelled peer (VP_C11_transport_close); 'bounded time' is reduced to 'no goroutine left parked forever'; OS sockets and real scheduling are not observed."),
 "C12": ("HandleDownload, the Authenticated middleware, security.QueryInfo and the composition mint->tunnel checks executed symbolically: no token/file for unauthenticated sessions, host chosen per selection policy, token claims = host with user substituted / user without domain / address / access token, forced gateway settings, and acceptance of the issued host+token by CheckSession(CheckHost).",
         "6.C12", "RDP text rendering (reflection) is stubbed (see C19); strings <= 2 bytes, <= 2 (3) host entries; assumes the IdP userinfo subject equals the session user name (DESIGN 7.14)."),
 "C13": ("HandleCallback executed over every failure point (state, code exchange, id_token, verification, claims, user-name claims) with contract stubs for go-cache/oauth2/go-oidc/json: an authenticated identity reaches the session store only if every step succeeded and a non-empty user-name claim exists; identity field mapping of Marshal/Unmarshal restored for all ten fields.",
         "6.C13", "securecookie integrity, the file store, ID-token cryptography and go-cache's expiry behaviour are contracts, not decided."),
 "C14": ("K<=3 (4) NTLM requests over three session ids (two differing by a trailing blank) (negotiate / authenticate with symbolic user / undecodable / non-NTLM / empty), real NTLMAuth + ntlmContext + database code and real go-ntlm parsers, the cryptographic verdict a symbolic predicate per (message, session): authenticated implies negotiate earlier in the same live context, configured non-empty password, proof against that session's challenge, exact user name; contexts dropped on error/success; completeness.",
         "6.C14", "NTLMv2 cryptography is the 'proves' contract; randomness of the challenge and gRPC are outside; user names are 2 ASCII characters."),
 "C15": ("security.UserInfo / GenerateUserToken around go-jose contract stubs in both key modes and the no-encryption-key corner, and web.TokenInfo statuses (405/400/403/200, nothing disclosed on refusal).",
         "6.C15", "Confidentiality, per-segment mutation and cross-mode rejection inside go-jose are contracts."),
 "C16": ("All five response builders for every status/version/caps value, tunnel-auth policy word for all 2^7 switch combinations and all int32 idle timeouts, and per-step response layout/status in the C01 step harness, against literal MS-TSGU offsets.",
         "6.C16", "The configuration->Gateway field mapping is checked on the real main() (VP_C05_routes: redirect switches, idle timeout, capability switches copied field by field); close-response carries 8 extra bytes (noted, not alarmed)."),
 "C17": ("matchAuth for all 2^16 client words x 4 server settings and the whole handshake step (body length 0..8, all version bytes, follow-up packet) in single symbolic runs.",
         "6.C17", "Transport stub; handshake body <= 8 bytes."),
 "C18": ("config.Load's post-unmarshal logic with koanf stubbed: fatal iff one of the five inconsistent combinations; each key of length 0/1/31/32/33 kept or replaced by a 32-character string from the 63-letter alphabet with one CSPRNG draw per character; NewHandler without hosts and InitStore with short keys are fatal; GenerateRandomString against its specification.",
         "6.C18", "YAML/env parsing and precedence (koanf, reflection) are not encoded; that two instances draw different keys is a property of the CSPRNG."),
 "C19": ("RDP.Marshal/Unmarshal on settings maps of <= 2 entries (keys/values <= 2 (3) bytes) with symbolic ASCII keys/values (round trip, one CRLF line per setting) and an independent classifier for every ASCII line of <= 5 (7) bytes (malformed lines rejected, not skipped); real bufio.Scanner/strings/sort code interpreted.",
         "6.C19", "Builder.String is executed with an engine model of the fatih/structs reflection API (tags, kinds, values from the static types): eight settings set arbitrarily are read back through the line parser with 'absent = built-in default' (VP_C19_builder). NewBuilderFromFile and template precedence (koanf, mapstructure) are NOT encoded; integers are boundary representatives (a symbolic 64-bit Itoa/Atoi round trip does not bit-blast); ASCII only."),
 "C20": ("KerberosProxy.Handler/forward/awaitReply executed with stubbed KDC list, dial, connections and asn1: rejection statuses contact no KDC, list merge for every (udp,tcp) count, exactly the embedded message per protocol, every request answered (channel sends/receives balanced under the cooperative scheduler), reply = a KDC's reply with the 4-byte prefix for UDP.",
         "6.C20", "DER validity, 128 KiB bodies beyond the size checks, real UDP/TCP timing are outside; <= 2 (3) KDCs per protocol."),
}

checks = []
for p in props:
    if p not in CLAIMS:
        continue
    text, ref, note = CLAIMS[p]
    checks.append({
        "property_id": p,
        "quick_cmd": f"bin/vcheck -prop {p} -tier quick",
        "thorough_cmd": f"bin/vcheck -prop {p} -tier thorough",
        "evidence_file": f"evidence/{p}.json",
        "replay_cmd_template": f"bin/vcheck -prop {p} -replay {{path}}",
        "engine": "gosmt",
        "level_claimed": {"category": "model_checking", "text": text, "design_ref": ref},
        "level_note": TRUST + note,
        "technique": TECH,
    })

NA_REASON = {}
m = {
 "version": 1,
 "setup_cmd": "cd /verif/engine && GOFLAGS=-mod=mod GOPROXY=off GOSUMDB=off GOTOOLCHAIN=local go build -o ../bin/vcheck ./cmd/vcheck",
 "hooks": {"guard": "verif", "enable": "none needed: harnesses are injected by go/packages Overlay (symbolic side) and go test -overlay (native replay); /repo is never written by a check",
           "baseline_off_cmd": "cd /repo && GOFLAGS=-mod=mod GOPROXY=off GOSUMDB=off go test -json -vet=off -count=1 -timeout 25m ./...",
           "source_commits": [], "add_only": True},
 "engines": [{"name": "gosmt", "path": "engine", "serves_properties": sorted(CLAIMS), "kind_free_text": "path-forking symbolic executor over go/ssa emitting SMT-LIB2 (QF_BV terms) to z3 4.8.12 / z3 5.1.0 / cvc5 1.0.3; native replay through go test -overlay"}],
 "checks": checks,
 "not_applicable": [{"property_id": p, "reason": NA_REASON.get(p, "check not built yet (work in progress; see DESIGN.md section 6 for the plan)")} for p in props if p not in CLAIMS],
 "notes": "exit 0 = every obligation unsat within the stated bounds (known findings printed as KNOWN-FINDING); exit 1 = natively reproduced counterexample (VIOLATION line); exit 3 = INCONCLUSIVE (unsupported construct, solver unknown, bound exceeded, vacuous harness, encoder mismatch).",
}
json.dump(m, open(os.path.join(ROOT, 'MANIFEST.json'), 'w'), indent=1)
print("claimed:", sorted(CLAIMS), "n/a:", len(m["not_applicable"]))
