#!/bin/bash
REPO=${REPO:-/repo}  # the tree the change is applied to (default /repo; a scratch worktree of the same commit while /repo is busy)
# seedrecheck.sh <name> [tier] : re-runs the property's check with a stored seeded change applied to /repo and updates meta.json
name=$1; tier=${2:-quick}
dst=/verif/seeded/$name
prop=$(python3 -c "import json;print(json.load(open('$dst/meta.json'))['property'])")
cd /verif
git -C $REPO apply $dst/patch.diff || { echo "patch does not apply"; exit 2; }
t0=$(date +%s)
out=$(bin/vcheck -repo $REPO -prop $prop -tier $tier 2>&1); rc=$?
t1=$(date +%s)
git -C $REPO checkout -- .
git -C /verif checkout -- evidence 2>/dev/null  # evidence files describe the unchanged tree only
labels=$(echo "$out" | grep -E '^  harness=' | sed 's/  harness=\([^ ]*\) label=\([^ ]*\).*/\1\/\2/' | head -6 | tr '\n' ' ')
python3 - "$dst" "$rc" "$((t1-t0))" "$labels" "$tier" <<'PY'
import sys,json
dst,rc,secs,labels,tier=sys.argv[1:6]
m=json.load(open(dst+'/meta.json'))
m.setdefault('history',[]).append(m['check'])
m['check']={"exit_code":int(rc),"seconds":int(secs),"caught":rc=="1","inconclusive":rc=="3","labels":labels.split(),"tier":tier}
json.dump(m,open(dst+'/meta.json','w'),indent=1)
print(m['name'],"exit=",rc,labels)
PY
echo "$out" | grep -E '^(INCONCLUSIVE)' | head -2 | cut -c1-300
