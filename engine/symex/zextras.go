package symex

// Further library support met in seeded changes or to be expected there: the remaining sync/atomic
// primitives, sync.WaitGroup, unique.Make (net/netip's address kinds), and small primitives on which
// Go-source models of errors.As and sort.Slice are built (prelude).

import (
	"go/types"
	"strings"
	"unicode"

	"golang.org/x/tools/go/ssa"
	"vcheck/smt"
)

type uniqEnt struct {
	val Value
	obj int
}

// concreteEqual: structural equality of two values all of whose scalars are constants.
func (e *Engine) concreteEqual(a, b Value) bool {
	t := e.valueEqDeep(a, b)
	if t == nil {
		return false
	}
	if t.IsTrue() {
		return true
	}
	if t.IsFalse() {
		return false
	}
	e.unsupported("unique.Make of a value that is not concrete")
	return false
}

func (e *Engine) valueEqDeep(a, b Value) *smt.Term {
	switch x := a.(type) {
	case *StructV:
		y, ok := b.(*StructV)
		if !ok || len(x.F) != len(y.F) {
			return smt.False
		}
		r := smt.True
		for i := range x.F {
			r = smt.BAnd(r, e.valueEqDeep(x.F[i], y.F[i]))
		}
		return r
	case *ArrayV:
		y, ok := b.(*ArrayV)
		if !ok || len(x.E) != len(y.E) {
			return smt.False
		}
		r := smt.True
		for i := range x.E {
			r = smt.BAnd(r, e.valueEqDeep(x.E[i], y.E[i]))
		}
		return r
	}
	return e.valueEq(a, b)
}

// uniqueMake implements unique.Make[T](v): a handle that is equal for equal values.
func (e *Engine) uniqueMake(fn *ssa.Function, args []Value) Value {
	t := fn.Signature.Params().At(0).Type()
	key := t.String()
	st := e.st
	for _, ent := range st.uniques[key] {
		if e.concreteEqual(ent.val, args[0]) {
			return &StructV{F: []Value{Ptr{Obj: ent.obj}}}
		}
	}
	obj := st.alloc(deepCopy(args[0]), t, "unique")
	nu := make(map[string][]uniqEnt, len(st.uniques)+1)
	for k, v := range st.uniques {
		nu[k] = v
	}
	nu[key] = append(append([]uniqEnt(nil), st.uniques[key]...), uniqEnt{val: deepCopy(args[0]), obj: obj})
	st.uniques = nu
	return &StructV{F: []Value{Ptr{Obj: obj}}}
}

// genericIntrinsic handles functions whose SSA name carries type arguments.
func (e *Engine) genericIntrinsic(fn *ssa.Function, args []Value) (Value, bool) {
	name := fn.String()
	switch {
	case strings.HasPrefix(name, "unique.Make["):
		return e.uniqueMake(fn, args), true
	case strings.HasPrefix(name, "(unique.Handle[") && strings.Contains(name, ").Value"):
		h, ok := args[0].(*StructV)
		if !ok || len(h.F) != 1 {
			e.unsupported("unique.Handle.Value on %T", args[0])
		}
		p := h.F[0].(Ptr)
		if p.IsNil() {
			return zeroValue(fn.Signature.Results().At(0).Type()), true
		}
		return e.st.load(p), true
	}
	return nil, false
}

func init() {
	swap := func(e *Engine, fr *Frame, args []Value) (Value, bool) {
		p := args[0].(Ptr)
		old := e.st.load(p)
		e.st.store(p, args[1])
		return old, true
	}
	casAny := func(e *Engine, fr *Frame, args []Value) (Value, bool) {
		p := args[0].(Ptr)
		cur := e.st.load(p)
		if e.choose(e.valueEq(cur, args[1])) {
			e.st.store(p, args[2])
			return smt.True, true
		}
		return smt.False, true
	}
	for _, t := range []string{"Int32", "Int64", "Uint32", "Uint64", "Uintptr", "Pointer"} {
		if _, ok := intrinsics["sync/atomic.Load"+t]; !ok {
			intrinsics["sync/atomic.Load"+t] = atomicLoad
		}
		if _, ok := intrinsics["sync/atomic.Store"+t]; !ok {
			intrinsics["sync/atomic.Store"+t] = atomicStore
		}
		if _, ok := intrinsics["sync/atomic.Swap"+t]; !ok {
			intrinsics["sync/atomic.Swap"+t] = swap
		}
		if _, ok := intrinsics["sync/atomic.CompareAndSwap"+t]; !ok {
			intrinsics["sync/atomic.CompareAndSwap"+t] = casAny
		}
	}
	intrinsics["sync/atomic.AddUintptr"] = atomicAdd(64)

	// sync.WaitGroup: a counter in the ghost state of the object; Wait blocks while it is positive
	wgKey := func(e *Engine, v Value) string {
		p, ok := v.(Ptr)
		if !ok || p.IsNil() {
			e.goPanic("nil", "nil pointer dereference", nil)
			panic(instrAbort{})
		}
		k := "wg!"
		for _, i := range append([]int{p.Obj}, p.Path...) {
			k += string(rune('a'+i%26)) + string(rune('0'+(i/26)%10))
		}
		return k
	}
	intrinsics["(*sync.WaitGroup).Add"] = func(e *Engine, fr *Frame, args []Value) (Value, bool) {
		d, ok := args[1].(*smt.Term)
		if !ok || !d.IsConst() {
			e.unsupported("sync.WaitGroup.Add with a symbolic delta")
		}
		k := wgKey(e, args[0])
		e.st.ghost[k] += d.SConst()
		if e.st.ghost[k] < 0 {
			e.goPanic("explicit", "sync: negative WaitGroup counter", nil)
			panic(instrAbort{})
		}
		e.st.progress++
		return nil, true
	}
	intrinsics["(*sync.WaitGroup).Done"] = func(e *Engine, fr *Frame, args []Value) (Value, bool) {
		k := wgKey(e, args[0])
		e.st.ghost[k]--
		if e.st.ghost[k] < 0 {
			e.goPanic("explicit", "sync: negative WaitGroup counter", nil)
			panic(instrAbort{})
		}
		e.st.progress++
		return nil, true
	}
	intrinsics["(*sync.WaitGroup).Wait"] = func(e *Engine, fr *Frame, args []Value) (Value, bool) {
		if e.st.ghost[wgKey(e, args[0])] <= 0 {
			return nil, true
		}
		e.blockCurrent("sync.WaitGroup.Wait with a positive counter and nobody to call Done")
		return nil, false
	}

	// primitives for the Go-source models of sort.Slice and errors.As (prelude)
	vpPrims["vpSliceLen"] = func(e *Engine, fr *Frame, args []Value) (Value, bool) {
		i, ok := args[0].(Iface)
		if !ok || i.T == nil {
			return smt.BV(0, 64), true
		}
		s, ok := i.V.(Slice)
		if !ok {
			e.unsupported("vpSliceLen of %T", i.V)
		}
		return smt.BV(uint64(s.Len), 64), true
	}
	vpPrims["vpSwapElems"] = func(e *Engine, fr *Frame, args []Value) (Value, bool) {
		i := args[0].(Iface)
		s, ok := i.V.(Slice)
		if !ok {
			e.unsupported("vpSwapElems of %T", i.V)
		}
		a := int(e.concInt(args[1].(*smt.Term), "vpSwapElems i"))
		b := int(e.concInt(args[2].(*smt.Term), "vpSwapElems j"))
		if a < 0 || b < 0 || a >= s.Len || b >= s.Len {
			e.goPanic("index", "reflect: slice index out of range", nil)
			panic(instrAbort{})
		}
		arr := e.st.arrayForWrite(s.Arr)
		arr.E[s.Off+a], arr.E[s.Off+b] = arr.E[s.Off+b], arr.E[s.Off+a]
		return nil, true
	}
	// vpAssignIfType(err error, target any) bool: target points to a variable of type T; if err's dynamic
	// type is T (concrete T) or implements T (interface T) the error is stored there
	vpPrims["vpAssignIfType"] = func(e *Engine, fr *Frame, args []Value) (Value, bool) {
		err, ok := args[0].(Iface)
		if !ok || err.T == nil {
			return smt.False, true
		}
		tgt, ok := args[1].(Iface)
		if !ok || tgt.T == nil {
			e.goPanic("explicit", "errors: target cannot be nil", nil)
			panic(instrAbort{})
		}
		pt, ok := tgt.T.Underlying().(*types.Pointer)
		if !ok {
			e.goPanic("explicit", "errors: target must be a non-nil pointer", nil)
			panic(instrAbort{})
		}
		p := tgt.V.(Ptr)
		want := pt.Elem()
		if it, ok := want.Underlying().(*types.Interface); ok {
			if types.Implements(err.T, it) {
				e.st.store(p, err)
				return smt.True, true
			}
			return smt.False, true
		}
		if types.Identical(err.T, want) {
			e.st.store(p, err.V)
			return smt.True, true
		}
		return smt.False, true
	}
}

// unicode predicates: exact for constant runes (Go's own tables); unicode.IsSpace also for symbolic runes
// (its set is small). The package's tables are not initialised symbolically, so without these a rune above
// Latin-1 would dereference a nil table.
func init() {
	pred := func(f func(rune) bool) handler {
		return func(e *Engine, fr *Frame, args []Value) (Value, bool) {
			r, ok := args[0].(*smt.Term)
			if !ok || !r.IsConst() {
				return nil, false
			}
			return smt.Bool(f(rune(int32(r.Const())))), true
		}
	}
	_ = pred
	intrinsics["unicode.IsSpace"] = func(e *Engine, fr *Frame, args []Value) (Value, bool) {
		r := args[0].(*smt.Term)
		if r.IsConst() {
			return smt.Bool(unicode.IsSpace(rune(int32(r.Const())))), true
		}
		eq := func(c uint64) *smt.Term { return smt.Eq(r, smt.BV(c, 32)) }
		rng := func(lo, hi uint64) *smt.Term {
			return smt.BAnd(smt.Cmp(smt.OpUle, smt.BV(lo, 32), r), smt.Cmp(smt.OpUle, r, smt.BV(hi, 32)))
		}
		t := smt.BOr(rng(0x09, 0x0d), eq(0x20))
		for _, c := range []uint64{0x85, 0xA0, 0x1680, 0x2028, 0x2029, 0x202f, 0x205f, 0x3000} {
			t = smt.BOr(t, eq(c))
		}
		t = smt.BOr(t, rng(0x2000, 0x200a))
		return t, true
	}
}
