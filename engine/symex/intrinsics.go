package symex

import (
	"strconv"
	"fmt"
	"go/types"
	"strings"

	"golang.org/x/tools/go/ssa"
	"vcheck/smt"
)

type handler func(e *Engine, fr *Frame, args []Value) (Value, bool)

var vpPrims map[string]handler
var intrinsics map[string]handler
var intrinsicsExtra map[string]handler

func sanitize(s string) string {
	var sb strings.Builder
	for _, c := range s {
		if (c >= 'a' && c <= 'z') || (c >= 'A' && c <= 'Z') || (c >= '0' && c <= '9') || c == '_' || c == '.' {
			sb.WriteRune(c)
		} else {
			sb.WriteByte('_')
		}
	}
	return sb.String()
}

func (e *Engine) strArg(v Value, what string) string {
	s, ok := v.(Str)
	if !ok {
		e.unsupported("%s: expected string", what)
	}
	c, ok := s.Concrete()
	if !ok {
		e.unsupported("%s: name/label must be concrete", what)
	}
	return c
}

func (e *Engine) inputScalar(name string, w uint8, kind string) *smt.Term {
	st := e.st
	for _, in := range st.inputs {
		if in.Name == name {
			if in.T != nil && in.T.W == w {
				return in.T // re-read of the same input (or re-execution after a fork)
			}
			e.unsupported("input name %q used with two different types on one path", name)
		}
	}
	v := smt.Var("in!"+sanitize(name), w)
	st.inputs = append(st.inputs, Input{Name: name, Kind: kind, T: v})
	return v
}

func (e *Engine) inputBytes(name string, n int) []*smt.Term {
	out := make([]*smt.Term, n)
	for i := 0; i < n; i++ {
		out[i] = smt.Var(fmt.Sprintf("in!%s!%d", sanitize(name), i), 8)
	}
	return out
}

func init() {
	scalar := func(w uint8, kind string) handler {
		return func(e *Engine, fr *Frame, args []Value) (Value, bool) {
			return e.inputScalar(e.strArg(args[0], "vp input"), w, kind), true
		}
	}
	vpPrims = map[string]handler{
		"vpU8":   scalar(8, "u8"),
		"vpU16":  scalar(16, "u16"),
		"vpU32":  scalar(32, "u32"),
		"vpU64":  scalar(64, "u64"),
		"vpInt":  scalar(64, "int"),
		"vpBool": scalar(0, "bool"),
		"vpIntRange": func(e *Engine, fr *Frame, args []Value) (Value, bool) {
			name := e.strArg(args[0], "vpIntRange")
			lo := args[1].(*smt.Term).SConst()
			hi := args[2].(*smt.Term).SConst()
			v := e.inputScalar(name, 64, "range")
			st := e.st
			st.addPC(smt.Cmp(smt.OpSle, smt.BV(uint64(lo), 64), v))
			st.addPC(smt.Cmp(smt.OpSle, v, smt.BV(uint64(hi), 64)))
			n := e.chooseInt(v, "vpIntRange "+name)
			return smt.BV(uint64(n), 64), true
		},
		"vpBytes": func(e *Engine, fr *Frame, args []Value) (Value, bool) {
			name := e.strArg(args[0], "vpBytes")
			max := args[1].(*smt.Term).SConst()
			lv := e.inputScalar(name+"!len", 64, "len")
			st := e.st
			st.addPC(smt.Cmp(smt.OpSle, smt.BV(0, 64), lv))
			st.addPC(smt.Cmp(smt.OpSle, lv, smt.BV(uint64(max), 64)))
			n := int(e.chooseInt(lv, "vpBytes "+name))
			st.inputs = append(st.inputs, Input{Name: name, Kind: "bytes", Conc: int64(n), IsConc: true})
			return e.newByteSlice(e.inputBytes(name, n), n), true
		},
		"vpBytesN": func(e *Engine, fr *Frame, args []Value) (Value, bool) {
			name := e.strArg(args[0], "vpBytesN")
			n := int(args[1].(*smt.Term).SConst())
			e.st.inputs = append(e.st.inputs, Input{Name: name, Kind: "bytes", Conc: int64(n), IsConc: true})
			return e.newByteSlice(e.inputBytes(name, n), n), true
		},
		"vpString": func(e *Engine, fr *Frame, args []Value) (Value, bool) {
			name := e.strArg(args[0], "vpString")
			max := args[1].(*smt.Term).SConst()
			lv := e.inputScalar(name+"!len", 64, "len")
			st := e.st
			st.addPC(smt.Cmp(smt.OpSle, smt.BV(0, 64), lv))
			st.addPC(smt.Cmp(smt.OpSle, lv, smt.BV(uint64(max), 64)))
			n := int(e.chooseInt(lv, "vpString "+name))
			st.inputs = append(st.inputs, Input{Name: name, Kind: "bytes", Conc: int64(n), IsConc: true})
			return Str{e.inputBytes(name, n)}, true
		},
		"vpStringN": func(e *Engine, fr *Frame, args []Value) (Value, bool) {
			name := e.strArg(args[0], "vpStringN")
			n := int(args[1].(*smt.Term).SConst())
			e.st.inputs = append(e.st.inputs, Input{Name: name, Kind: "bytes", Conc: int64(n), IsConc: true})
			return Str{e.inputBytes(name, n)}, true
		},
		"vpAssume": func(e *Engine, fr *Frame, args []Value) (Value, bool) {
			c := args[0].(*smt.Term)
			if c.IsTrue() {
				return nil, true
			}
			ok, _ := e.sat(false, c)
			if !ok {
				panic(pathEnd{"assume-false"})
			}
			e.st.addPC(c)
			return nil, true
		},
		"vpAssert": func(e *Engine, fr *Frame, args []Value) (Value, bool) {
			c := args[0].(*smt.Term)
			label := e.strArg(args[1], "vpAssert label")
			e.Res.AssertSeen[label]++
			e.st.asserts = append(e.st.asserts, label)
			if len(e.Res.SampleObl) < 12 && !c.IsConst() {
				e.Res.SampleObl = append(e.Res.SampleObl, fmt.Sprintf("%s: pc(%d conjuncts) ∧ ¬%s", label, len(e.st.pc), c.String()))
			}
			bad, m := e.mayFail(c)
			if bad {
				e.violation("assert", label, "assertion "+label+" can fail", m)
				ok, _ := e.sat(false, c)
				if !ok {
					panic(pathEnd{"assert-fail"})
				}
				e.st.addPC(c)
			}
			return nil, true
		},
		"vpReach": func(e *Engine, fr *Frame, args []Value) (Value, bool) {
			e.st.reached[e.strArg(args[0], "vpReach")] = true
			return nil, true
		},
		"vpObserve": func(e *Engine, fr *Frame, args []Value) (Value, bool) {
			e.st.obs = append(e.st.obs, Obs{Label: e.strArg(args[0], "vpObserve"), Terms: []*smt.Term{args[1].(*smt.Term)}})
			return nil, true
		},
		"vpObserveBool": func(e *Engine, fr *Frame, args []Value) (Value, bool) {
			e.st.obs = append(e.st.obs, Obs{Label: e.strArg(args[0], "vpObserveBool"), Terms: []*smt.Term{args[1].(*smt.Term)}})
			return nil, true
		},
		"vpObserveBytes": func(e *Engine, fr *Frame, args []Value) (Value, bool) {
			e.st.obs = append(e.st.obs, Obs{Label: e.strArg(args[0], "vpObserveBytes"), Terms: e.sliceTerms(args[1].(Slice)), IsBytes: true})
			return nil, true
		},
		"vpObserveStr": func(e *Engine, fr *Frame, args []Value) (Value, bool) {
			e.st.obs = append(e.st.obs, Obs{Label: e.strArg(args[0], "vpObserveStr"), Terms: args[1].(Str).B, IsBytes: true})
			return nil, true
		},
		"vpRunTasks": func(e *Engine, fr *Frame, args []Value) (Value, bool) {
			e.st.progress-- // polling for the others is not progress
			if !e.st.curGor.isMain {
				if !e.yieldOnce() {
					return nil, false
				}
				return nil, true
			}
			if !e.yieldMain() {
				return nil, false // re-executed when main is scheduled again
			}
			return nil, true
		},
		"vpPendingTasks": func(e *Engine, fr *Frame, args []Value) (Value, bool) {
			return smt.BV(uint64(e.unfinishedOthers()), 64), true
		},
		"vpDropTasks": func(e *Engine, fr *Frame, args []Value) (Value, bool) {
			var keep []*Gor
			for _, g := range e.st.others {
				if g.isMain {
					keep = append(keep, g)
				}
			}
			e.st.others = keep
			return nil, true
		},
		"vpThread": func(e *Engine, fr *Frame, args []Value) (Value, bool) {
			e.st.thread = e.strArg(args[0], "vpThread")
			return nil, true
		},
		"vpAnd": func(e *Engine, fr *Frame, args []Value) (Value, bool) {
			return smt.BAnd(args[0].(*smt.Term), args[1].(*smt.Term)), true
		},
		"vpOr": func(e *Engine, fr *Frame, args []Value) (Value, bool) {
			return smt.BOr(args[0].(*smt.Term), args[1].(*smt.Term)), true
		},
		"vpImplies": func(e *Engine, fr *Frame, args []Value) (Value, bool) {
			return smt.BOr(smt.Not(args[0].(*smt.Term)), args[1].(*smt.Term)), true
		},
		"vpIte": func(e *Engine, fr *Frame, args []Value) (Value, bool) {
			return smt.Ite(args[0].(*smt.Term), args[1].(*smt.Term), args[2].(*smt.Term)), true
		},
		"vpEqBytes": func(e *Engine, fr *Frame, args []Value) (Value, bool) {
			return strEq(Str{e.sliceTerms(args[0].(Slice))}, Str{e.sliceTerms(args[1].(Slice))}), true
		},
		"vpScalarBits": func(e *Engine, fr *Frame, args []Value) (Value, bool) {
			i, ok := args[0].(Iface)
			if !ok || i.T == nil {
				return smt.BV(0, 64), true
			}
			w := bvWidth(i.T)
			if w == 0 {
				w = 8
			}
			if w < 0 {
				w = 0
			}
			return smt.BV(uint64(w), 64), true
		},
		"vpScalarU64": func(e *Engine, fr *Frame, args []Value) (Value, bool) {
			i, ok := args[0].(Iface)
			if !ok || i.T == nil {
				return smt.BV(0, 64), true
			}
			t, ok := i.V.(*smt.Term)
			if !ok {
				return smt.BV(0, 64), true
			}
			if t.W == 0 {
				return smt.Ite(t, smt.BV(1, 64), smt.BV(0, 64)), true
			}
			if isSigned(i.T) {
				return smt.SExt(t, 64), true
			}
			return smt.ZExt(t, 64), true
		},
		"vpBlockForever": func(e *Engine, fr *Frame, args []Value) (Value, bool) {
			e.parkCurrent("goroutine parks forever (waits on something nobody will ever deliver)")
			return nil, false
		},
		// vpSleepLong: the caller (a peer model) stays silent "for a long time": until a pending timer has
		// fired; returns at once when no timer is pending (nobody is timing anything out)
		"vpSleepLong": func(e *Engine, fr *Frame, args []Value) (Value, bool) {
			st := e.st
			pending := false
			for _, r := range st.timers {
				if !r.Fired && !r.Stopped {
					pending = true
				}
			}
			if st.curGor.sleeping {
				if st.ghost["timers-fired"] > st.curGor.sleepBase || !pending {
					st.curGor.sleeping = false
					return nil, true
				}
			} else {
				if !pending {
					return nil, true
				}
				st.curGor.sleeping = true
				st.curGor.sleepBase = st.ghost["timers-fired"]
			}
			e.blockCurrent("sleeping until a timeout expires")
			return nil, false
		},
		// vpWaitProgress: block until some other goroutine has made progress, then return (the caller
		// re-checks its condition in a loop); parks forever if nobody else can run.
		"vpWaitProgress": func(e *Engine, fr *Frame, args []Value) (Value, bool) {
			st := e.st
			if st.curGor.blockedOnce && st.progress > st.curGor.blockedAt {
				st.curGor.blockedOnce = false
				return nil, true
			}
			any := false
			for _, g := range st.others {
				if e.runnable(g) || (g.isMain && g.yielding) {
					any = true
				}
			}
			if !any {
				e.parkCurrent("waits for an event that no goroutine can produce")
				return nil, false
			}
			st.curGor.blockedOnce = true
			e.blockCurrent("waiting for progress")
			return nil, false
		},
		"vpParam": func(e *Engine, fr *Frame, args []Value) (Value, bool) {
			name := e.strArg(args[0], "vpParam")
			v, ok := e.Cfg.Params[name]
			if !ok {
				e.unsupported("vpParam(%q): no //vp:set directive", name)
			}
			return smt.BV(uint64(int64(v)), 64), true
		},
		"vpUnsupported": func(e *Engine, fr *Frame, args []Value) (Value, bool) {
			e.unsupported("model limitation: %s", e.strArg(args[0], "vpUnsupported"))
			return nil, true
		},
		"vpStructFields": func(e *Engine, fr *Frame, args []Value) (Value, bool) { return e.structFields(args), true },
		"vpJSONFill": func(e *Engine, fr *Frame, args []Value) (Value, bool) {
			return e.jsonFill(args), true
		},
		"vpSymbolic": func(e *Engine, fr *Frame, args []Value) (Value, bool) {
			return smt.True, true
		},
	}

	noop := func(e *Engine, fr *Frame, args []Value) (Value, bool) { return nil, true }
	intrinsics = map[string]handler{
		"internal/bytealg.IndexByte": func(e *Engine, fr *Frame, args []Value) (Value, bool) {
			return e.indexByte(e.sliceTerms(args[0].(Slice)), args[1].(*smt.Term)), true
		},
		"internal/bytealg.IndexByteString": func(e *Engine, fr *Frame, args []Value) (Value, bool) {
			return e.indexByte(args[0].(Str).B, args[1].(*smt.Term)), true
		},
		"internal/bytealg.CountString": func(e *Engine, fr *Frame, args []Value) (Value, bool) {
			return countByte(args[0].(Str).B, args[1].(*smt.Term)), true
		},
		"internal/bytealg.Count": func(e *Engine, fr *Frame, args []Value) (Value, bool) {
			return countByte(e.sliceTerms(args[0].(Slice)), args[1].(*smt.Term)), true
		},
		"internal/bytealg.Equal": func(e *Engine, fr *Frame, args []Value) (Value, bool) {
			return strEq(Str{e.sliceTerms(args[0].(Slice))}, Str{e.sliceTerms(args[1].(Slice))}), true
		},
		"bytes.Equal": func(e *Engine, fr *Frame, args []Value) (Value, bool) {
			return strEq(Str{e.sliceTerms(args[0].(Slice))}, Str{e.sliceTerms(args[1].(Slice))}), true
		},
		"internal/bytealg.IndexString": func(e *Engine, fr *Frame, args []Value) (Value, bool) {
			return e.indexStr(args[0].(Str).B, args[1].(Str).B), true
		},
		"internal/bytealg.Index": func(e *Engine, fr *Frame, args []Value) (Value, bool) {
			return e.indexStr(e.sliceTerms(args[0].(Slice)), e.sliceTerms(args[1].(Slice))), true
		},
		"strings.Index": func(e *Engine, fr *Frame, args []Value) (Value, bool) {
			return e.indexStr(args[0].(Str).B, args[1].(Str).B), true
		},
		"internal/stringslite.Index": func(e *Engine, fr *Frame, args []Value) (Value, bool) {
			return e.indexStr(args[0].(Str).B, args[1].(Str).B), true
		},
		"bytes.Index": func(e *Engine, fr *Frame, args []Value) (Value, bool) {
			return e.indexStr(e.sliceTerms(args[0].(Slice)), e.sliceTerms(args[1].(Slice))), true
		},
		"internal/bytealg.MakeNoZero": func(e *Engine, fr *Frame, args []Value) (Value, bool) {
			n := int(e.concInt(args[0].(*smt.Term), "MakeNoZero"))
			return e.newByteSlice(make([]*smt.Term, 0), 0).withLen(e, n), true
		},
		"internal/abi.NoEscape": func(e *Engine, fr *Frame, args []Value) (Value, bool) { return args[0], true },
		"internal/abi.Escape":   func(e *Engine, fr *Frame, args []Value) (Value, bool) { return args[0], true },
		"(*sync.Mutex).Lock":    lockOp(true),
		"(*sync.Mutex).Unlock":  lockOp(false),
		"(*sync.RWMutex).Lock":  lockOp(true),
		"(*sync.RWMutex).Unlock": lockOp(false),
		"(*sync.RWMutex).RLock":   rlockOp(true),
		"(*sync.RWMutex).RUnlock": rlockOp(false),
		"(*sync.Mutex).TryLock": func(e *Engine, fr *Frame, args []Value) (Value, bool) { return smt.True, true },
		"(*sync.Once).Do": func(e *Engine, fr *Frame, args []Value) (Value, bool) {
			p := args[0].(Ptr)
			key := fmt.Sprintf("once:%d%v", p.Obj, p.Path)
			if e.st.ghost[key] == 1 {
				return nil, true
			}
			e.st.ghost[key] = 1
			cl := args[1].(Closure)
			e.invoke(fr, nil, cl.Fn, cl.Binds, nil, false)
			return nil, false
		},
		"time.Now": func(e *Engine, fr *Frame, args []Value) (Value, bool) {
			// Time{wall: 0 (no monotonic reading), ext: seconds since year 1, loc: nil (UTC)}
			st := e.st
			st.timeCtr++
			name := fmt.Sprintf("time.now.%d", st.timeCtr)
			v := e.inputScalar(name, 64, "time")
			// 2001-01-01 .. 2100-01-01 in "seconds since year 1" (unix + 62135596800)
			lo := uint64(978307200 + 62135596800)
			hi := uint64(4102444800 + 62135596800)
			st.addPC(smt.Cmp(smt.OpSle, smt.BV(lo, 64), v))
			st.addPC(smt.Cmp(smt.OpSle, v, smt.BV(hi, 64)))
			if prev, ok := st.ghostTerm["time.last"]; ok {
				st.addPC(smt.Cmp(smt.OpSle, prev, v))
			}
			st.setGhostTerm("time.last", v)
			return &StructV{F: []Value{smt.BV(0, 64), v, Ptr{}}}, true
		},
		// big.NewInt of a symbolic value: one-word magnitude without forking on zero/sign (the result is
		// not normalised when the value is zero; only Int64/Uint64 are meaningful on it)
		"math/big.NewInt": func(e *Engine, fr *Frame, args []Value) (Value, bool) {
			x := args[0].(*smt.Term)
			if x.IsConst() && x.Const() == 0 {
				id := e.st.alloc(&StructV{F: []Value{smt.False, Slice{}}}, nil, "big.Int")
				return Ptr{Obj: id}, true
			}
			neg := smt.Cmp(smt.OpSlt, x, smt.BV(0, 64))
			abs := smt.Ite(neg, smt.Neg(x), x)
			arr := &ArrayV{E: []Value{abs}}
			aid := e.st.alloc(arr, nil, "big.nat")
			id := e.st.alloc(&StructV{F: []Value{neg, Slice{Arr: Ptr{Obj: aid}, Len: 1, Cap: 1}}}, nil, "big.Int")
			return Ptr{Obj: id}, true
		},
		"time.Sleep":        noop,
		"time.AfterFunc": func(e *Engine, fr *Frame, args []Value) (Value, bool) { return e.afterFunc(args[0], args[1]), true },
		"time.NewTimer": func(e *Engine, fr *Frame, args []Value) (Value, bool) { return e.newTimer(args[0], false), true },
		"time.After":    func(e *Engine, fr *Frame, args []Value) (Value, bool) { return e.newTimer(args[0], true), true },
		"(*time.Timer).Stop": func(e *Engine, fr *Frame, args []Value) (Value, bool) {
			return smt.Bool(e.stopTimer(args[0])), true
		},
		"(*time.Timer).Reset": func(e *Engine, fr *Frame, args []Value) (Value, bool) {
			active := e.stopTimer(args[0])
			e.rearmTimer(args[0], args[1])
			return smt.Bool(active), true
		},
		"runtime.Gosched":   noop,
		"runtime.KeepAlive": noop,
		"os.Exit": func(e *Engine, fr *Frame, args []Value) (Value, bool) {
			e.goPanic("fatal", "os.Exit", nil)
			panic(instrAbort{})
		},
		"sync/atomic.AddInt64":  atomicAdd(64),
		"sync/atomic.AddInt32":  atomicAdd(32),
		"sync/atomic.AddUint64": atomicAdd(64),
		"sync/atomic.AddUint32": atomicAdd(32),
		"sync/atomic.LoadInt64": atomicLoad, "sync/atomic.LoadInt32": atomicLoad, "sync/atomic.LoadUint32": atomicLoad, "sync/atomic.LoadUint64": atomicLoad,
		"sync/atomic.StoreInt64": atomicStore, "sync/atomic.StoreInt32": atomicStore, "sync/atomic.StoreUint32": atomicStore, "sync/atomic.StoreUint64": atomicStore,
		"sync/atomic.CompareAndSwapInt32": atomicCAS, "sync/atomic.CompareAndSwapUint32": atomicCAS, "sync/atomic.CompareAndSwapInt64": atomicCAS,
	}
}

func (s Slice) withLen(e *Engine, n int) Slice {
	arr := &ArrayV{E: make([]Value, n)}
	z := smt.BV(0, 8)
	for i := range arr.E {
		arr.E[i] = z
	}
	id := e.st.alloc(arr, nil, "bytes")
	return Slice{Arr: Ptr{Obj: id}, Len: n, Cap: n}
}

func lockOp(acquire bool) handler  { return lockOpMode(acquire, false) }
func rlockOp(acquire bool) handler { return lockOpMode(acquire, true) }

// lockOpMode: a lock held in shared (read) mode is recorded with a negative key; two accesses are
// protected by a common lock only if at least one of them holds it exclusively (see commonLock).
func lockOpMode(acquire, shared bool) handler {
	return func(e *Engine, fr *Frame, args []Value) (Value, bool) {
		p := args[0].(Ptr)
		if p.IsNil() {
			e.goPanic("nil", "nil mutex", nil)
			panic(instrAbort{})
		}
		st := e.st
		key := p.Obj*1000 + pathHash(p.Path)
		// mutual exclusion between goroutines: a mutex held exclusively by ANOTHER goroutine blocks the
		// caller until that goroutine releases it (nobody runnable = blocks for ever)
		okey := "mutex-owner:" + strconv.Itoa(key)
		if acquire {
			if owner, held := st.ghost[okey]; held && owner != int64(st.curGor.ID)+1 {
				e.blockCurrent("waiting for a mutex that another goroutine holds")
				return nil, false
			}
			if !shared {
				st.ghost[okey] = int64(st.curGor.ID) + 1
			}
		} else if !shared {
			delete(st.ghost, okey)
		}
		if shared {
			key = -key
		}
		if acquire {
			st.heldLocks = append(append([]int(nil), st.heldLocks...), key)
		} else {
			n := make([]int, 0, len(st.heldLocks))
			removed := false
			for i := len(st.heldLocks) - 1; i >= 0; i-- {
				if !removed && st.heldLocks[i] == key {
					removed = true
					continue
				}
				n = append([]int{st.heldLocks[i]}, n...)
			}
			st.heldLocks = n
		}
		return nil, true
	}
}

func pathHash(p []int) int {
	h := 0
	for _, x := range p {
		h = h*31 + x + 1
	}
	if h < 0 {
		h = -h
	}
	return h % 1000
}

func atomicAdd(w uint8) handler {
	return func(e *Engine, fr *Frame, args []Value) (Value, bool) {
		p := args[0].(Ptr)
		v := smt.Add(e.st.load(p).(*smt.Term), args[1].(*smt.Term))
		e.st.store(p, v)
		return v, true
	}
}

func atomicLoad(e *Engine, fr *Frame, args []Value) (Value, bool) {
	return e.st.load(args[0].(Ptr)), true
}

func atomicStore(e *Engine, fr *Frame, args []Value) (Value, bool) {
	e.st.store(args[0].(Ptr), args[1])
	return nil, true
}

func atomicCAS(e *Engine, fr *Frame, args []Value) (Value, bool) {
	p := args[0].(Ptr)
	cur := e.st.load(p).(*smt.Term)
	if e.choose(smt.Eq(cur, args[1].(*smt.Term))) {
		e.st.store(p, args[2])
		return smt.True, true
	}
	return smt.False, true
}

// indexByte returns the first index of c in b or -1, as a term (ite chain).
func (e *Engine) indexByte(b []*smt.Term, c *smt.Term) *smt.Term {
	r := smt.BV(^uint64(0), 64)
	for i := len(b) - 1; i >= 0; i-- {
		r = smt.Ite(smt.Eq(b[i], c), smt.BV(uint64(i), 64), r)
	}
	return r
}

func countByte(b []*smt.Term, c *smt.Term) *smt.Term {
	r := smt.BV(0, 64)
	for i := range b {
		r = smt.Add(r, smt.Ite(smt.Eq(b[i], c), smt.BV(1, 64), smt.BV(0, 64)))
	}
	return r
}

func (e *Engine) indexStr(s, sub []*smt.Term) *smt.Term {
	r := smt.BV(^uint64(0), 64)
	if len(sub) == 0 {
		return smt.BV(0, 64)
	}
	for i := len(s) - len(sub); i >= 0; i-- {
		m := smt.True
		for k := range sub {
			m = smt.BAnd(m, smt.Eq(s[i+k], sub[k]))
		}
		r = smt.Ite(m, smt.BV(uint64(i), 64), r)
	}
	return r
}

// ---- package initialisation ----

func (e *Engine) initPackages(h *ssa.Package) {
	// order: dependencies first (DFS over imports)
	seen := map[*types.Package]bool{}
	var order []*ssa.Package
	var visit func(p *types.Package)
	visit = func(p *types.Package) {
		if seen[p] {
			return
		}
		seen[p] = true
		for _, imp := range p.Imports() {
			visit(imp)
		}
		if sp := e.Prog.Package(p); sp != nil {
			order = append(order, sp)
		}
	}
	visit(h.Pkg)
	for _, sp := range order {
		path := sp.Pkg.Path()
		if !(initPkgs[path] || e.Cfg.InitPkgs[path] || strings.HasPrefix(path, modulePrefix)) {
			continue
		}
		e.runInit(sp)
	}
}

func (e *Engine) runInit(sp *ssa.Package) {
	st := e.st
	if st.inited[sp] {
		return
	}
	st.inited[sp] = true
	sp.Build()
	init := sp.Func("init")
	if init == nil || init.Blocks == nil {
		return
	}
	// pre-allocate all globals of the package so that later lookups find them initialised
	depth := len(st.frames)
	fr := &Frame{fn: init, block: init.Blocks[0], regs: map[ssa.Value]Value{}, isInit: true}
	st.frames = append(st.frames, fr)
	e.inInit++
	defer func() {
		e.inInit--
		if r := recover(); r != nil {
			if _, ok := r.(engineErr); ok {
				st.frames = st.frames[:depth]
				st.panicking = nil
				e.Res.Uninit["unsupported-in-init:"+sp.Pkg.Path()+": "+fmt.Sprint(r)]++
				return
			}
			panic(r)
		}
	}()
	for len(st.frames) > depth {
		if st.panicking != nil {
			// a panic during init: drop the init frames and carry on with what was initialised
			st.frames = st.frames[:depth]
			st.panicking = nil
			e.Res.Uninit["panic-in-init:"+sp.Pkg.Path()]++
			return
		}
		e.step()
	}
}
