package symex

// Intrinsic model of the read-only slice of package reflect that rdpgw's
// Gateway.setSendReceiveBuffers walks a connection with: ValueOf, Indirect and the Value methods
// Kind, IsValid, FieldByName, Elem, Int. The library is reflection over runtime type descriptors;
// the executor has the static types (go/types) and the heap, so every question is answered from
// those, with reflect's documented panics ("call of reflect.Value.Elem on struct Value", …) raised
// as Go panics at the calling instruction.

import (
	"go/types"
	"reflect"

	"vcheck/smt"
)

// ReflV is a reflect.Value: the zero ReflV is the invalid Value.
type ReflV struct {
	T types.Type
	V Value
}

func (r ReflV) valid() bool { return r.T != nil }

func (e *Engine) reflArg(v Value) ReflV {
	switch x := v.(type) {
	case ReflV:
		return x
	case *StructV: // the zero reflect.Value of a declared-but-unassigned variable
		return ReflV{}
	}
	e.unsupported("reflect model: not a reflect.Value (%T)", v)
	return ReflV{}
}

func (e *Engine) reflPanic(method, kind string) {
	e.goPanic("reflect", "reflect: call of reflect.Value."+method+" on "+kind+" Value", nil)
	panic(instrAbort{})
}

func reflKindName(r ReflV) string {
	if !r.valid() {
		return "zero"
	}
	return reflect.Kind(reflectKindFull(r.T)).String()
}

func reflectKindFull(t types.Type) uint64 {
	if k := reflectKind(t); k != uint64(reflect.Invalid) {
		return k
	}
	switch u := t.Underlying().(type) {
	case *types.Basic:
		switch u.Kind() {
		case types.Int8:
			return uint64(reflect.Int8)
		case types.Int16:
			return uint64(reflect.Int16)
		case types.Int32:
			return uint64(reflect.Int32)
		case types.Int64:
			return uint64(reflect.Int64)
		case types.Uint:
			return uint64(reflect.Uint)
		case types.Uint8:
			return uint64(reflect.Uint8)
		case types.Uint16:
			return uint64(reflect.Uint16)
		case types.Uint32:
			return uint64(reflect.Uint32)
		case types.Uint64:
			return uint64(reflect.Uint64)
		case types.Uintptr:
			return uint64(reflect.Uintptr)
		case types.Float32:
			return uint64(reflect.Float32)
		case types.Float64:
			return uint64(reflect.Float64)
		case types.UnsafePointer:
			return uint64(reflect.UnsafePointer)
		}
	case *types.Array:
		return uint64(reflect.Array)
	case *types.Chan:
		return uint64(reflect.Chan)
	case *types.Signature:
		return uint64(reflect.Func)
	}
	return uint64(reflect.Invalid)
}

// reflDeref: the Value a pointer Value points to (invalid for nil).
func (e *Engine) reflDeref(r ReflV) ReflV {
	p, ok := r.V.(Ptr)
	if !ok {
		e.unsupported("reflect model: pointer Value holds %T", r.V)
	}
	if p.IsNil() {
		return ReflV{}
	}
	pt := r.T.Underlying().(*types.Pointer)
	return ReflV{T: pt.Elem(), V: e.st.load(p)}
}

// reflFieldPath finds name the way reflect.Type.FieldByName does: breadth first through embedded
// structs, a name that occurs more than once at the shallowest depth is not found.
func reflFieldPath(t types.Type, name string) ([]int, bool) {
	type cand struct {
		t    types.Type
		path []int
	}
	cur := []cand{{t, nil}}
	seen := map[types.Type]bool{}
	for len(cur) > 0 {
		var next []cand
		var found [][]int
		for _, c := range cur {
			tt := c.t
			if p, ok := tt.Underlying().(*types.Pointer); ok {
				tt = p.Elem()
			}
			st, ok := tt.Underlying().(*types.Struct)
			if !ok || seen[tt] {
				continue
			}
			seen[tt] = true
			for i := 0; i < st.NumFields(); i++ {
				f := st.Field(i)
				np := append(append([]int(nil), c.path...), i)
				if f.Name() == name {
					found = append(found, np)
					continue
				}
				if f.Embedded() {
					next = append(next, cand{f.Type(), np})
				}
			}
		}
		if len(found) == 1 {
			return found[0], true
		}
		if len(found) > 1 {
			return nil, false
		}
		cur = next
	}
	return nil, false
}

func init() {
	add := func(name string, h handler) { intrinsicsExtra[name] = h }
	add("reflect.ValueOf", func(e *Engine, fr *Frame, args []Value) (Value, bool) {
		i, ok := args[0].(Iface)
		if !ok || i.T == nil {
			return ReflV{}, true
		}
		return ReflV{T: i.T, V: i.V}, true
	})
	add("reflect.Indirect", func(e *Engine, fr *Frame, args []Value) (Value, bool) {
		r := e.reflArg(args[0])
		if !r.valid() {
			return r, true
		}
		if _, ok := r.T.Underlying().(*types.Pointer); !ok {
			return r, true
		}
		return e.reflDeref(r), true
	})
	add("(reflect.Value).IsValid", func(e *Engine, fr *Frame, args []Value) (Value, bool) {
		if e.reflArg(args[0]).valid() {
			return smt.True, true
		}
		return smt.False, true
	})
	add("(reflect.Value).Kind", func(e *Engine, fr *Frame, args []Value) (Value, bool) {
		r := e.reflArg(args[0])
		if !r.valid() {
			return smt.BV(uint64(reflect.Invalid), 64), true
		}
		return smt.BV(reflectKindFull(r.T), 64), true
	})
	add("(reflect.Value).FieldByName", func(e *Engine, fr *Frame, args []Value) (Value, bool) {
		r := e.reflArg(args[0])
		name := e.strArg(args[1], "reflect.Value.FieldByName")
		if !r.valid() {
			e.reflPanic("FieldByName", "zero")
		}
		if _, ok := r.T.Underlying().(*types.Struct); !ok {
			e.reflPanic("FieldByName", reflKindName(r))
		}
		path, ok := reflFieldPath(r.T, name)
		if !ok {
			return ReflV{}, true
		}
		cur := r
		for _, idx := range path {
			if _, isPtr := cur.T.Underlying().(*types.Pointer); isPtr {
				cur = e.reflDeref(cur)
				if !cur.valid() {
					e.goPanic("reflect", "reflect: indirection through nil pointer to embedded struct", nil)
					panic(instrAbort{})
				}
			}
			st := cur.T.Underlying().(*types.Struct)
			sv, ok := cur.V.(*StructV)
			if !ok {
				e.unsupported("reflect model: struct Value holds %T", cur.V)
			}
			cur = ReflV{T: st.Field(idx).Type(), V: sv.F[idx]}
		}
		return cur, true
	})
	add("(reflect.Value).Elem", func(e *Engine, fr *Frame, args []Value) (Value, bool) {
		r := e.reflArg(args[0])
		if !r.valid() {
			e.reflPanic("Elem", "zero")
		}
		switch r.T.Underlying().(type) {
		case *types.Interface:
			i, ok := r.V.(Iface)
			if !ok {
				e.unsupported("reflect model: interface Value holds %T", r.V)
			}
			if i.T == nil {
				return ReflV{}, true
			}
			return ReflV{T: i.T, V: i.V}, true
		case *types.Pointer:
			return e.reflDeref(r), true
		}
		e.reflPanic("Elem", reflKindName(r))
		return nil, true
	})
	add("(reflect.Value).Int", func(e *Engine, fr *Frame, args []Value) (Value, bool) {
		r := e.reflArg(args[0])
		if !r.valid() {
			e.reflPanic("Int", "zero")
		}
		switch reflect.Kind(reflectKindFull(r.T)) {
		case reflect.Int, reflect.Int8, reflect.Int16, reflect.Int32, reflect.Int64:
			t, ok := r.V.(*smt.Term)
			if !ok {
				e.unsupported("reflect model: int Value holds %T", r.V)
			}
			if t.W < 64 {
				t = smt.SExt(t, 64)
			}
			return t, true
		}
		e.reflPanic("Int", reflKindName(r))
		return nil, true
	})
}

// ---- real connection objects (net.TCPConn, tls.Conn) for code that inspects them by reflection ----

func (e *Engine) namedType(pkg, name string) types.Type {
	p := e.Prog.ImportedPackage(pkg)
	if p == nil {
		e.unsupported("package %s is not part of the program", pkg)
	}
	t := p.Type(name)
	if t == nil {
		e.unsupported("type %s.%s not found", pkg, name)
	}
	return t.Type()
}

func setFieldByName(t types.Type, v *StructV, name string, val Value) bool {
	st := t.Underlying().(*types.Struct)
	for i := 0; i < st.NumFields(); i++ {
		if st.Field(i).Name() == name {
			v.F[i] = val
			return true
		}
	}
	return false
}

func init() {
	// vpNewTCPConn(fd int) *net.TCPConn : a connected TCP connection whose descriptor is fd
	vpPrims["vpNewTCPConn"] = func(e *Engine, fr *Frame, args []Value) (Value, bool) {
		tcpT := e.namedType("net", "TCPConn")
		connT := e.namedType("net", "conn")
		fdT := e.namedType("net", "netFD")
		pfdT := e.namedType("internal/poll", "FD")
		pfd := zeroValue(pfdT).(*StructV)
		if !setFieldByName(pfdT, pfd, "Sysfd", args[0]) {
			e.unsupported("poll.FD has no Sysfd field")
		}
		nfd := zeroValue(fdT).(*StructV)
		if !setFieldByName(fdT, nfd, "pfd", pfd) {
			e.unsupported("net.netFD has no pfd field")
		}
		fdPtr := Ptr{Obj: e.st.alloc(nfd, fdT, "net.netFD")}
		cv := zeroValue(connT).(*StructV)
		if !setFieldByName(connT, cv, "fd", fdPtr) {
			e.unsupported("net.conn has no fd field")
		}
		tv := zeroValue(tcpT).(*StructV)
		if !setFieldByName(tcpT, tv, "conn", cv) {
			e.unsupported("net.TCPConn does not embed conn")
		}
		return Ptr{Obj: e.st.alloc(tv, tcpT, "net.TCPConn")}, true
	}
	// vpNewTLSConn(inner net.Conn) *tls.Conn : a TLS connection over inner (no handshake performed)
	vpPrims["vpNewTLSConn"] = func(e *Engine, fr *Frame, args []Value) (Value, bool) {
		tlsT := e.namedType("crypto/tls", "Conn")
		tv := zeroValue(tlsT).(*StructV)
		if !setFieldByName(tlsT, tv, "conn", args[0]) {
			e.unsupported("tls.Conn has no conn field")
		}
		return Ptr{Obj: e.st.alloc(tv, tlsT, "tls.Conn")}, true
	}
}

func init() {
	// (*tls.Conn).NetConn: the connection below (the field the reflection walk looks for)
	intrinsicsExtra["(*crypto/tls.Conn).NetConn"] = func(e *Engine, fr *Frame, args []Value) (Value, bool) {
		p, ok := args[0].(Ptr)
		if !ok || p.IsNil() {
			e.goPanic("nil", "nil pointer dereference", nil)
			panic(instrAbort{})
		}
		tlsT := e.namedType("crypto/tls", "Conn")
		st := tlsT.Underlying().(*types.Struct)
		for i := 0; i < st.NumFields(); i++ {
			if st.Field(i).Name() == "conn" {
				return e.st.load(p.Sub(i)), true
			}
		}
		e.unsupported("tls.Conn has no conn field")
		return nil, true
	}
}
