package symex

// Intrinsic model of the slice of github.com/fatih/structs that rdpgw uses (New, Fields and the
// Field accessors). The library is reflection; the executor has the static types (go/types) and
// the values, so struct tags, kinds and field values are answered directly.

import (
	"go/types"
	"reflect"

	"vcheck/smt"
)

type structHandle struct {
	ptr  Ptr      // addressable target (New(&s)) or zero
	val  *StructV // value copy (New(s))
	st   *types.Struct
	name string
}

type fieldHandle struct {
	h   *structHandle
	idx int
}

func (e *Engine) structsNew(args []Value) Value {
	i, ok := args[0].(Iface)
	if !ok || i.T == nil {
		e.unsupported("structs.New on nil")
	}
	h := &structHandle{}
	t := i.T
	if p, ok := t.Underlying().(*types.Pointer); ok {
		h.ptr = i.V.(Ptr)
		t = p.Elem()
	} else {
		h.val = deepCopy(i.V).(*StructV)
	}
	st, ok := t.Underlying().(*types.Struct)
	if !ok {
		e.unsupported("structs.New on non-struct %s", t)
	}
	h.st = st
	id := e.st.alloc(h, nil, "structs.Struct")
	return Ptr{Obj: id}
}

func (e *Engine) handleOf(v Value) *structHandle {
	p := v.(Ptr)
	h, ok := e.st.obj(p.Obj).Val.(*structHandle)
	if !ok {
		e.unsupported("not a structs.Struct handle")
	}
	return h
}

func (e *Engine) fieldOf(v Value) *fieldHandle {
	p := v.(Ptr)
	f, ok := e.st.obj(p.Obj).Val.(*fieldHandle)
	if !ok {
		e.unsupported("not a structs.Field handle")
	}
	return f
}

func (e *Engine) fieldValue(f *fieldHandle) Value {
	if f.h.val != nil {
		return deepCopy(f.h.val.F[f.idx])
	}
	return e.st.load(f.h.ptr.Sub(f.idx))
}

func reflectKind(t types.Type) uint64 {
	switch u := t.Underlying().(type) {
	case *types.Basic:
		switch u.Kind() {
		case types.Bool:
			return uint64(reflect.Bool)
		case types.Int:
			return uint64(reflect.Int)
		case types.Int8:
			return uint64(reflect.Int8)
		case types.Int16:
			return uint64(reflect.Int16)
		case types.Int32:
			return uint64(reflect.Int32)
		case types.Int64:
			return uint64(reflect.Int64)
		case types.Uint:
			return uint64(reflect.Uint)
		case types.Uint8:
			return uint64(reflect.Uint8)
		case types.Uint16:
			return uint64(reflect.Uint16)
		case types.Uint32:
			return uint64(reflect.Uint32)
		case types.Uint64:
			return uint64(reflect.Uint64)
		case types.String:
			return uint64(reflect.String)
		}
	case *types.Struct:
		return uint64(reflect.Struct)
	case *types.Slice:
		return uint64(reflect.Slice)
	case *types.Map:
		return uint64(reflect.Map)
	case *types.Pointer:
		return uint64(reflect.Ptr)
	case *types.Interface:
		return uint64(reflect.Interface)
	}
	return uint64(reflect.Invalid)
}

func init() {
	const pkg = "github.com/fatih/structs"
	intrinsicsExtra = map[string]handler{
		pkg + ".New": func(e *Engine, fr *Frame, args []Value) (Value, bool) { return e.structsNew(args), true },
		"(*" + pkg + ".Struct).Fields": func(e *Engine, fr *Frame, args []Value) (Value, bool) {
			h := e.handleOf(args[0])
			var out []Value
			for i := 0; i < h.st.NumFields(); i++ {
				if !h.st.Field(i).Exported() {
					continue
				}
				id := e.st.alloc(&fieldHandle{h: h, idx: i}, nil, "structs.Field")
				out = append(out, Ptr{Obj: id})
			}
			return e.newSliceVals(out), true
		},
		"(*" + pkg + ".Field).Tag": func(e *Engine, fr *Frame, args []Value) (Value, bool) {
			f := e.fieldOf(args[0])
			key := e.strArg(args[1], "structs.Field.Tag key")
			return ConstStr(reflect.StructTag(f.h.st.Tag(f.idx)).Get(key)), true
		},
		"(*" + pkg + ".Field).Name": func(e *Engine, fr *Frame, args []Value) (Value, bool) {
			f := e.fieldOf(args[0])
			return ConstStr(f.h.st.Field(f.idx).Name()), true
		},
		"(*" + pkg + ".Field).Kind": func(e *Engine, fr *Frame, args []Value) (Value, bool) {
			f := e.fieldOf(args[0])
			return smt.BV(reflectKind(f.h.st.Field(f.idx).Type()), 64), true
		},
		"(*" + pkg + ".Field).Value": func(e *Engine, fr *Frame, args []Value) (Value, bool) {
			f := e.fieldOf(args[0])
			return Iface{T: f.h.st.Field(f.idx).Type(), V: e.fieldValue(f)}, true
		},
		"(*" + pkg + ".Field).IsZero": func(e *Engine, fr *Frame, args []Value) (Value, bool) {
			f := e.fieldOf(args[0])
			v := e.fieldValue(f)
			return e.valueEq(v, zeroValue(f.h.st.Field(f.idx).Type())), true
		},
		"(*" + pkg + ".Field).Set": func(e *Engine, fr *Frame, args []Value) (Value, bool) {
			f := e.fieldOf(args[0])
			i, ok := args[1].(Iface)
			if !ok || i.T == nil || f.h.val != nil {
				return e.newError("structs: field is not settable"), true
			}
			if !types.Identical(i.T, f.h.st.Field(f.idx).Type()) {
				return e.newError("structs: wrong kind"), true
			}
			e.st.store(f.h.ptr.Sub(f.idx), i.V)
			return Iface{}, true
		},
	}
}

// structFields implements vpStructFields(dst interface{}, tag string) []vpFieldRef: the exported
// fields of the struct dst points to, each with its key under the given struct tag (the tag's name
// part, else the Go field name), its Go name, the whole tag value, its kind (0 string, 1 int, 2 bool, 4 []byte, 3 other)
// and a typed pointer to it. Reflection-driven decoders (mapstructure) are modelled in ordinary Go on
// top of this list.
func (e *Engine) structFields(args []Value) Value {
	dst, ok := args[0].(Iface)
	if !ok || dst.T == nil {
		e.unsupported("vpStructFields: nil destination")
	}
	pt, ok := dst.T.Underlying().(*types.Pointer)
	if !ok {
		e.unsupported("vpStructFields: destination %s is not a pointer", dst.T)
	}
	base, ok := dst.V.(Ptr)
	if !ok || base.IsNil() {
		e.unsupported("vpStructFields: nil pointer")
	}
	st, ok := pt.Elem().Underlying().(*types.Struct)
	if !ok {
		e.unsupported("vpStructFields: destination %s is not a pointer to a struct", dst.T)
	}
	tag := e.strArg(args[1], "vpStructFields tag")
	var out []Value
	for i := 0; i < st.NumFields(); i++ {
		f := st.Field(i)
		if !f.Exported() {
			continue
		}
		key := f.Name()
		tv := reflect.StructTag(st.Tag(i)).Get(tag)
		for k := 0; k < len(tv); k++ {
			if tv[k] == ',' {
				tv = tv[:k]
				break
			}
		}
		if tv != "" {
			key = tv
		}
		kind := 3
		var ps, pi, pb, py, pi32, pi64 Value = Ptr{}, Ptr{}, Ptr{}, Ptr{}, Ptr{}, Ptr{}
		p := base.Sub(i)
		if b, ok := f.Type().Underlying().(*types.Basic); ok {
			switch {
			case b.Kind() == types.String:
				kind, ps = 0, p
			case b.Kind() == types.Int:
				kind, pi = 1, p
			case b.Kind() == types.Bool:
				kind, pb = 2, p
			case b.Kind() == types.Int32:
				kind, pi32 = 5, p
			case b.Kind() == types.Int64:
				kind, pi64 = 6, p
			}
		}
		if sl, ok := f.Type().Underlying().(*types.Slice); ok {
			if eb, ok := sl.Elem().Underlying().(*types.Basic); ok && eb.Kind() == types.Uint8 {
				kind, py = 4, p
			}
		}
		full := reflect.StructTag(st.Tag(i)).Get(tag)
		out = append(out, &StructV{F: []Value{ConstStr(key), ConstStr(f.Name()), ConstStr(full), smt.BV(uint64(kind), 64), ps, pi, pb, py, pi32, pi64}})
	}
	return e.newSliceVals(out)
}
