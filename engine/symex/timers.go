package symex

// Timers (time.NewTimer, time.After, Stop, Reset) under the cooperative scheduler: virtual time
// passes only while every goroutine waits. When the running goroutine blocks and nobody else can
// run, the pending timer with the shortest duration fires (ties: the one created first); a timer
// never fires while some goroutine can still make progress. This explores "the peer stayed silent
// for longer than the timeout" — the schedule a timeout exists for — and nothing finer.

import (
	"go/types"

	"vcheck/smt"
)

func (e *Engine) timerType() types.Type { return e.namedType("time", "Timer") }

func timerChanField(t types.Type) int {
	st := t.Underlying().(*types.Struct)
	for i := 0; i < st.NumFields(); i++ {
		if st.Field(i).Name() == "C" {
			return i
		}
	}
	return -1
}

func durConst(v Value) int64 {
	if t, ok := v.(*smt.Term); ok && t.IsConst() {
		return int64(t.Const())
	}
	return -1
}

// newTimer implements time.NewTimer (returns *Timer) and time.After (returns the channel).
func (e *Engine) newTimer(d Value, chanOnly bool) Value {
	st := e.st
	ch := st.alloc(&ChanV{Cap: 1}, nil, "chan")
	st.timers = append(st.timers, TimerRec{Chan: ch, Dur: durConst(d)})
	if chanOnly {
		return ChanRef{Obj: ch}
	}
	tt := e.timerType()
	tv := zeroValue(tt).(*StructV)
	idx := timerChanField(tt)
	if idx < 0 {
		e.unsupported("time.Timer has no field C")
	}
	tv.F[idx] = ChanRef{Obj: ch}
	return Ptr{Obj: st.alloc(tv, tt, "time.Timer")}
}

func (e *Engine) timerChanOf(t Value) int {
	p, ok := t.(Ptr)
	if !ok || p.IsNil() {
		e.goPanic("nil", "nil pointer dereference", nil)
		panic(instrAbort{})
	}
	tt := e.timerType()
	c, ok := e.st.load(p.Sub(timerChanField(tt))).(ChanRef)
	if !ok {
		e.unsupported("time.Timer.C is not a channel")
	}
	return c.Obj
}

// stopTimer reports whether the call stopped a timer that had not fired yet.
func (e *Engine) stopTimer(t Value) bool {
	ch := e.timerChanOf(t)
	for i := range e.st.timers {
		r := &e.st.timers[i]
		if r.Chan == ch && !r.Fired && !r.Stopped {
			r.Stopped = true
			return true
		}
	}
	return false
}

func (e *Engine) rearmTimer(t Value, d Value) {
	ch := e.timerChanOf(t)
	e.st.timers = append(e.st.timers, TimerRec{Chan: ch, Dur: durConst(d)})
}

// fireTimer delivers the next pending timer; false if there is none.
func (e *Engine) fireTimer() bool {
	st := e.st
	best := -1
	for i, r := range st.timers {
		if r.Fired || r.Stopped {
			continue
		}
		if best < 0 || (r.Dur >= 0 && (st.timers[best].Dur < 0 || r.Dur < st.timers[best].Dur)) {
			best = i
		}
	}
	if best < 0 {
		return false
	}
	st.timers[best].Fired = true
	o := st.writable(st.timers[best].Chan)
	ch := o.Val.(*ChanV)
	if len(ch.Buf) < 1 {
		ch.Buf = append(append([]Value(nil), ch.Buf...), zeroValue(e.namedType("time", "Time")))
	}
	st.progress++
	st.events = append(st.events, "timer-fired")
	st.ghost["timers-fired"]++
	return true
}
