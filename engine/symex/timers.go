package symex

// Timers (time.NewTimer, time.After, Stop, Reset) under the cooperative scheduler: virtual time
// passes only while every goroutine waits. When the running goroutine blocks and nobody else can
// run, the pending timer with the shortest duration fires (ties: the one created first); a timer
// never fires while some goroutine can still make progress. This explores "the peer stayed silent
// for longer than the timeout" — the schedule a timeout exists for — and nothing finer.

import (
	"fmt"
	"go/types"

	"vcheck/smt"
)

func (e *Engine) timerType() types.Type { return e.namedType("time", "Timer") }

func timerChanField(t types.Type) int {
	st := t.Underlying().(*types.Struct)
	for i := 0; i < st.NumFields(); i++ {
		if st.Field(i).Name() == "C" {
			return i
		}
	}
	return -1
}

func durConst(v Value) int64 {
	if t, ok := v.(*smt.Term); ok && t.IsConst() {
		return int64(t.Const())
	}
	return -1
}

// newTimer implements time.NewTimer (returns *Timer) and time.After (returns the channel).
func (e *Engine) newTimer(d Value, chanOnly bool) Value {
	st := e.st
	ch := st.alloc(&ChanV{Cap: 1}, nil, "chan")
	st.timers = append(st.timers, TimerRec{Chan: ch, Dur: durConst(d)})
	if chanOnly {
		return ChanRef{Obj: ch}
	}
	tt := e.timerType()
	tv := zeroValue(tt).(*StructV)
	idx := timerChanField(tt)
	if idx < 0 {
		e.unsupported("time.Timer has no field C")
	}
	tv.F[idx] = ChanRef{Obj: ch}
	return Ptr{Obj: st.alloc(tv, tt, "time.Timer")}
}

// afterFunc implements time.AfterFunc: the callback runs on a new goroutine when the timer fires.
func (e *Engine) afterFunc(d Value, f Value) Value {
	cl, ok := f.(Closure)
	if !ok {
		e.unsupported("time.AfterFunc with a callback that is not a function value")
	}
	st := e.st
	ch := st.alloc(&ChanV{Cap: 1}, nil, "chan")
	st.timers = append(st.timers, TimerRec{Chan: ch, Dur: durConst(d), Fn: &cl, Parent: st.thread, Seq: st.accSeq})
	tt := e.timerType()
	tv := zeroValue(tt).(*StructV)
	idx := timerChanField(tt)
	if idx < 0 {
		e.unsupported("time.Timer has no field C")
	}
	tv.F[idx] = ChanRef{Obj: ch} // (the real C is nil for AfterFunc timers; here it identifies the timer)
	return Ptr{Obj: st.alloc(tv, tt, "time.Timer")}
}

func (e *Engine) timerChanOf(t Value) int {
	p, ok := t.(Ptr)
	if !ok || p.IsNil() {
		e.goPanic("nil", "nil pointer dereference", nil)
		panic(instrAbort{})
	}
	tt := e.timerType()
	c, ok := e.st.load(p.Sub(timerChanField(tt))).(ChanRef)
	if !ok {
		e.unsupported("time.Timer.C is not a channel")
	}
	return c.Obj
}

// stopTimer reports whether the call stopped a timer that had not fired yet.
func (e *Engine) stopTimer(t Value) bool {
	ch := e.timerChanOf(t)
	for i := range e.st.timers {
		r := &e.st.timers[i]
		if r.Chan == ch && !r.Fired && !r.Stopped {
			r.Stopped = true
			return true
		}
	}
	return false
}

func (e *Engine) rearmTimer(t Value, d Value) {
	ch := e.timerChanOf(t)
	rec := TimerRec{Chan: ch, Dur: durConst(d)}
	for _, r := range e.st.timers {
		if r.Chan == ch && r.Fn != nil {
			rec.Fn, rec.Parent, rec.Seq = r.Fn, e.st.thread, e.st.accSeq // Reset of an AfterFunc timer: the callback runs again
		}
	}
	e.st.timers = append(e.st.timers, rec)
}

// fireTimer delivers the next pending timer; false if there is none.
func (e *Engine) fireTimer() bool {
	st := e.st
	best := -1
	for i, r := range st.timers {
		if r.Fired || r.Stopped {
			continue
		}
		if best < 0 || (r.Dur >= 0 && (st.timers[best].Dur < 0 || r.Dur < st.timers[best].Dur)) {
			best = i
		}
	}
	if best < 0 {
		return false
	}
	st.timers[best].Fired = true
	if fn := st.timers[best].Fn; fn != nil {
		// the callback runs on a goroutine of its own (a logical thread of its own for the lockset)
		st.nextGor++
		name := st.timers[best].Parent + "/timer#" + fmt.Sprint(st.nextGor)
		if st.spawns == nil {
			st.spawns = map[string]SpawnInfo{}
		}
		st.spawns[name] = SpawnInfo{Parent: st.timers[best].Parent, Seq: st.timers[best].Seq} // ordered after what Parent did before it armed the timer
		task := &Task{fn: *fn, site: "time.AfterFunc", spawnSeq: st.accSeq, parent: st.timers[best].Parent}
		st.others = append(st.others, &Gor{ID: st.nextGor, task: task, thread: name})
		st.progress++
		st.events = append(st.events, "timer-fired")
		st.ghost["timers-fired"]++
		return true
	}
	o := st.writable(st.timers[best].Chan)
	ch := o.Val.(*ChanV)
	if len(ch.Buf) < 1 {
		ch.Buf = append(append([]Value(nil), ch.Buf...), zeroValue(e.namedType("time", "Time")))
	}
	st.progress++
	st.events = append(st.events, "timer-fired")
	st.ghost["timers-fired"]++
	return true
}
