// Package symex: a path-forking symbolic interpreter over go/ssa.
//
// Design (see /verif/DESIGN.md section 3): scalars are SMT terms; heap shape, slice
// offsets/lengths/capacities, map shapes, interface dynamic types and function values are
// concrete per path. A symbolic integer that is used as a length, capacity, slice bound or
// index is concretised by enumerating its feasible values with the solver (one fork per
// value, bounded by the harness's maxalloc).
package symex

import (
	"fmt"
	"go/types"
	"strings"

	"golang.org/x/tools/go/ssa"
	"vcheck/smt"
)

type Value interface{}

// Ptr is a reference to a location inside a heap object. Obj == 0 is nil.
type Ptr struct {
	Obj  int
	Path []int
	// Sym, when non-nil, is a symbolic element index below Path (which then names an array of
	// scalars of length SymN): loads become ite chains, stores update every cell conditionally.
	Sym  *smt.Term
	SymN int
}

func (p Ptr) IsNil() bool { return p.Obj == 0 }

func (p Ptr) Sub(i int) Ptr {
	np := make([]int, len(p.Path)+1)
	copy(np, p.Path)
	np[len(p.Path)] = i
	return Ptr{Obj: p.Obj, Path: np}
}

func samePtr(a, b Ptr) bool {
	if a.Obj != b.Obj || len(a.Path) != len(b.Path) || (a.Sym != nil) != (b.Sym != nil) {
		return false
	}
	for i := range a.Path {
		if a.Path[i] != b.Path[i] {
			return false
		}
	}
	return true
}

// Slice: Arr points at an *ArrayV location; nil slice has Arr.Obj == 0.
type Slice struct {
	Arr           Ptr
	Off, Len, Cap int
}

// Str is an immutable byte string with concrete length and possibly symbolic bytes.
type Str struct{ B []*smt.Term }

func ConstStr(s string) Str {
	b := make([]*smt.Term, len(s))
	for i := 0; i < len(s); i++ {
		b[i] = smt.BV(uint64(s[i]), 8)
	}
	return Str{b}
}

// Concrete returns the Go string if all bytes are constants.
func (s Str) Concrete() (string, bool) {
	var sb strings.Builder
	for _, t := range s.B {
		if !t.IsConst() {
			return "", false
		}
		sb.WriteByte(byte(t.Const()))
	}
	return sb.String(), true
}

func (s Str) Show() string {
	var sb strings.Builder
	for _, t := range s.B {
		if t.IsConst() {
			c := byte(t.Const())
			if c >= 32 && c < 127 {
				sb.WriteByte(c)
			} else {
				fmt.Fprintf(&sb, "\\x%02x", c)
			}
		} else {
			sb.WriteString("?")
		}
	}
	return sb.String()
}

type StructV struct{ F []Value }
type ArrayV struct{ E []Value }

// Iface: T == nil is the nil interface.
type Iface struct {
	T types.Type
	V Value
}

// Closure: Fn == nil is a nil func.
type Closure struct {
	Fn    *ssa.Function
	Binds []Value
	// Bound receiver for builtin-implemented method values (unused normally)
}

type MapRef struct{ Obj int }  // Obj == 0 nil map
type ChanRef struct{ Obj int } // Obj == 0 nil chan

type MapEntry struct {
	K, V Value
}
type MapV struct{ E []MapEntry }
type ChanV struct {
	Buf    []Value
	Cap    int
	Closed bool
}

type Tuple []Value

// Opaque stands for a value the engine does not model (floats, complex, unsafe).
type Opaque struct{ What string }

// IterV is an immutable iterator state for Range/Next.
type IterV struct {
	Keys []Value // map keys snapshot
	Vals []Value
	S    Str
	IsS  bool
	Idx  int
}

// Object is a heap cell holding a container or a single value.
type Object struct {
	ID    int
	Val   Value // StructV/ArrayV/*MapV/*ChanV stored by pointer for in-place mutation
	Epoch int
	Typ   types.Type
	Tag   string
}

// deepCopy copies aggregates so that register values never alias heap storage.
func deepCopy(v Value) Value {
	switch x := v.(type) {
	case *StructV:
		n := &StructV{F: make([]Value, len(x.F))}
		for i, f := range x.F {
			n.F[i] = deepCopy(f)
		}
		return n
	case *ArrayV:
		n := &ArrayV{E: make([]Value, len(x.E))}
		for i, f := range x.E {
			n.E[i] = deepCopy(f)
		}
		return n
	case *MapV:
		n := &MapV{E: make([]MapEntry, len(x.E))}
		copy(n.E, x.E)
		return n
	case *ChanV:
		n := &ChanV{Buf: append([]Value(nil), x.Buf...), Cap: x.Cap, Closed: x.Closed}
		return n
	}
	return v
}

// ---- type helpers ----

func under(t types.Type) types.Type { return t.Underlying() }

// bvWidth returns the bit width for integer-like basic types, 0 for bool, -1 otherwise.
func bvWidth(t types.Type) int {
	b, ok := under(t).(*types.Basic)
	if !ok {
		return -1
	}
	switch b.Kind() {
	case types.Bool, types.UntypedBool:
		return 0
	case types.Int8, types.Uint8:
		return 8
	case types.Int16, types.Uint16:
		return 16
	case types.Int32, types.Uint32, types.UntypedRune:
		return 32
	case types.Int, types.Uint, types.Int64, types.Uint64, types.Uintptr, types.UntypedInt:
		return 64
	}
	return -1
}

func isSigned(t types.Type) bool {
	b, ok := under(t).(*types.Basic)
	if !ok {
		return false
	}
	return b.Info()&types.IsInteger != 0 && b.Info()&types.IsUnsigned == 0
}

func isString(t types.Type) bool {
	b, ok := under(t).(*types.Basic)
	return ok && b.Info()&types.IsString != 0
}

func isFloat(t types.Type) bool {
	b, ok := under(t).(*types.Basic)
	return ok && (b.Info()&types.IsFloat != 0 || b.Info()&types.IsComplex != 0)
}

func zeroValue(t types.Type) Value {
	switch u := under(t).(type) {
	case *types.Basic:
		if w := bvWidth(t); w == 0 {
			return smt.False
		} else if w > 0 {
			return smt.BV(0, uint8(w))
		}
		if isString(t) {
			return Str{}
		}
		if u.Kind() == types.UnsafePointer {
			return Ptr{}
		}
		if isFloat(t) {
			return Opaque{"float0"}
		}
		if u.Kind() == types.UntypedNil {
			return nil
		}
		return Opaque{"basic:" + u.Name()}
	case *types.Pointer:
		return Ptr{}
	case *types.Slice:
		return Slice{}
	case *types.Map:
		return MapRef{}
	case *types.Chan:
		return ChanRef{}
	case *types.Interface:
		return Iface{}
	case *types.Signature:
		return Closure{}
	case *types.Struct:
		s := &StructV{F: make([]Value, u.NumFields())}
		for i := 0; i < u.NumFields(); i++ {
			s.F[i] = zeroValue(u.Field(i).Type())
		}
		return s
	case *types.Array:
		a := &ArrayV{E: make([]Value, u.Len())}
		et := u.Elem()
		if w := bvWidth(et); w > 0 {
			z := smt.BV(0, uint8(w))
			for i := range a.E {
				a.E[i] = z
			}
		} else {
			for i := range a.E {
				a.E[i] = zeroValue(et)
			}
		}
		return a
	case *types.Tuple:
		tu := make(Tuple, u.Len())
		for i := range tu {
			tu[i] = zeroValue(u.At(i).Type())
		}
		return tu
	case *types.TypeParam:
		return Opaque{"typeparam"}
	}
	return Opaque{"type:" + t.String()}
}

func showValue(v Value) string {
	switch x := v.(type) {
	case nil:
		return "nil"
	case *smt.Term:
		return x.String()
	case Str:
		return "\"" + x.Show() + "\""
	case Ptr:
		if x.IsNil() {
			return "nilptr"
		}
		return fmt.Sprintf("&obj%d%v", x.Obj, x.Path)
	case Slice:
		return fmt.Sprintf("slice(obj%d%v,%d,%d,%d)", x.Arr.Obj, x.Arr.Path, x.Off, x.Len, x.Cap)
	case Iface:
		if x.T == nil {
			return "nil-iface"
		}
		return fmt.Sprintf("iface(%s,%s)", x.T, showValue(x.V))
	case Closure:
		if x.Fn == nil {
			return "nil-func"
		}
		return "func:" + x.Fn.String()
	case *StructV:
		var sb strings.Builder
		sb.WriteString("{")
		for i, f := range x.F {
			if i > 0 {
				sb.WriteString(",")
			}
			sb.WriteString(showValue(f))
		}
		sb.WriteString("}")
		return sb.String()
	case *ArrayV:
		return fmt.Sprintf("array[%d]", len(x.E))
	case Tuple:
		var sb strings.Builder
		sb.WriteString("(")
		for i, f := range x {
			if i > 0 {
				sb.WriteString(",")
			}
			sb.WriteString(showValue(f))
		}
		sb.WriteString(")")
		return sb.String()
	}
	return fmt.Sprintf("%T", v)
}
