package symex

import (
	"unicode/utf8"
	"fmt"
	"go/constant"
	"go/token"
	"go/types"

	"golang.org/x/tools/go/ssa"
	"vcheck/smt"
)

func (e *Engine) constVal(c *ssa.Const) Value {
	t := c.Type()
	if c.Value == nil {
		return zeroValue(t)
	}
	if tp, ok := t.(*types.TypeParam); ok {
		_ = tp
		e.unsupported("constant of type parameter")
	}
	switch {
	case isString(t):
		return ConstStr(constant.StringVal(c.Value))
	case bvWidth(t) == 0:
		return smt.Bool(constant.BoolVal(c.Value))
	case bvWidth(t) > 0:
		w := uint8(bvWidth(t))
		if isSigned(t) || under(t).(*types.Basic).Info()&types.IsUntyped != 0 {
			if v, ok := constant.Int64Val(constant.ToInt(c.Value)); ok {
				return smt.BV(uint64(v), w)
			}
		}
		v, _ := constant.Uint64Val(constant.ToInt(c.Value))
		return smt.BV(v, w)
	case isFloat(t):
		f, _ := constant.Float64Val(c.Value)
		return Opaque{fmt.Sprintf("float:%g", f)}
	}
	return zeroValue(t)
}

func (e *Engine) val(fr *Frame, v ssa.Value) Value {
	switch x := v.(type) {
	case *ssa.Const:
		return e.constVal(x)
	case *ssa.Function:
		return Closure{Fn: x}
	case *ssa.Global:
		return Ptr{Obj: e.globalObj(x)}
	case *ssa.FreeVar:
		for i, fv := range fr.fn.FreeVars {
			if fv == x {
				return fr.binds[i]
			}
		}
		e.unsupported("free var not found")
	case *ssa.Builtin:
		e.unsupported("builtin %s used as value", x.Name())
	}
	r, ok := fr.regs[v]
	if !ok {
		panic(engineErr{"internal", fmt.Sprintf("no value for %s (%T) in %s", v.Name(), v, fr.fn)})
	}
	return r
}

func (e *Engine) term(fr *Frame, v ssa.Value) *smt.Term {
	x := e.val(fr, v)
	t, ok := x.(*smt.Term)
	if !ok {
		e.unsupported("expected scalar, got %s for %s : %s", showValue(x), v.Name(), v.Type())
	}
	return t
}

func (e *Engine) globalObj(g *ssa.Global) int {
	st := e.st
	if id, ok := st.globals[g]; ok {
		return id
	}
	if g.Pkg != nil && !st.inited[g.Pkg] {
		e.Res.Uninit[g.Pkg.Pkg.Path()+"."+g.Name()]++
	}
	elem := g.Type().(*types.Pointer).Elem()
	id := st.alloc(zeroValue(elem), elem, "global:"+g.String())
	st.globals[g] = id
	return id
}

func (e *Engine) set(fr *Frame, v ssa.Value, x Value) { fr.regs[v] = x }

// exec executes instr in fr. It must call e.advance(fr) or transfer control.
func (e *Engine) exec(fr *Frame, instr ssa.Instruction) {
	defer func() {
		if r := recover(); r != nil {
			if _, ok := r.(instrAbort); ok {
				return // a Go panic was raised; unwinding starts on the next step
			}
			panic(r)
		}
	}()
	switch in := instr.(type) {
	case *ssa.DebugRef:
	case *ssa.Alloc:
		elem := in.Type().(*types.Pointer).Elem()
		id := e.st.alloc(zeroValue(elem), elem, in.Comment)
		e.set(fr, in, Ptr{Obj: id})
	case *ssa.BinOp:
		e.set(fr, in, e.binop(in.Op, in.X.Type(), e.val(fr, in.X), e.val(fr, in.Y), in.Y.Type()))
	case *ssa.UnOp:
		e.unop(fr, in)
		if in.Op == token.ARROW {
			return // unop handles advance (may block)
		}
	case *ssa.Call:
		e.call(fr, in, &in.Call)
		return
	case *ssa.ChangeInterface:
		e.set(fr, in, e.val(fr, in.X))
	case *ssa.ChangeType:
		e.set(fr, in, e.val(fr, in.X))
	case *ssa.Convert:
		e.set(fr, in, e.convert(e.val(fr, in.X), in.X.Type(), in.Type()))
	case *ssa.MultiConvert:
		e.unsupported("MultiConvert")
	case *ssa.Extract:
		e.set(fr, in, e.val(fr, in.Tuple).(Tuple)[in.Index])
	case *ssa.Field:
		s := e.val(fr, in.X).(*StructV)
		e.set(fr, in, deepCopy(s.F[in.Field]))
	case *ssa.FieldAddr:
		p := e.concPtr(e.val(fr, in.X).(Ptr))
		if p.IsNil() {
			e.goPanic("nil", "invalid memory address or nil pointer dereference", nil)
			return
		}
		e.set(fr, in, p.Sub(in.Field))
	case *ssa.Index:
		e.index(fr, in)
	case *ssa.IndexAddr:
		e.indexAddr(fr, in)
	case *ssa.Lookup:
		e.lookup(fr, in)
	case *ssa.MakeChan:
		n := e.concInt(e.term(fr, in.Size), "chan size")
		id := e.st.alloc(&ChanV{Cap: int(n)}, in.Type(), "chan")
		e.set(fr, in, ChanRef{id})
	case *ssa.MakeClosure:
		b := make([]Value, len(in.Bindings))
		for i, x := range in.Bindings {
			b[i] = e.val(fr, x)
		}
		e.set(fr, in, Closure{Fn: in.Fn.(*ssa.Function), Binds: b})
	case *ssa.MakeInterface:
		e.set(fr, in, Iface{T: in.X.Type(), V: e.val(fr, in.X)})
	case *ssa.MakeMap:
		id := e.st.alloc(&MapV{}, in.Type(), "map")
		e.set(fr, in, MapRef{id})
	case *ssa.MakeSlice:
		e.makeSlice(fr, in)
	case *ssa.MapUpdate:
		m := e.val(fr, in.Map).(MapRef)
		if m.Obj == 0 {
			e.goPanic("nilmap", "assignment to entry in nil map", nil)
			return
		}
		e.mapUpdate(m, e.val(fr, in.Key), e.val(fr, in.Value))
	case *ssa.Next:
		e.next(fr, in)
	case *ssa.Range:
		e.rangeInit(fr, in)
	case *ssa.Phi:
		// all phis of a block are evaluated in parallel on entry
		e.phis(fr)
		return
	case *ssa.Select:
		e.selectInstr(fr, in)
		return
	case *ssa.Send:
		c := e.val(fr, in.Chan).(ChanRef)
		if c.Obj == 0 {
			e.blocked("send on nil channel")
		}
		o := e.st.writable(c.Obj)
		ch := o.Val.(*ChanV)
		if ch.Closed {
			e.goPanic("closedchan", "send on closed channel", nil)
			return
		}
		ch.Buf = append(ch.Buf, e.val(fr, in.X))
		e.st.ghost["chan-sends"]++
	case *ssa.Slice:
		e.slice(fr, in)
	case *ssa.SliceToArrayPointer:
		s := e.val(fr, in.X).(Slice)
		n := int(in.Type().(*types.Pointer).Elem().Underlying().(*types.Array).Len())
		if s.Len < n {
			e.goPanic("slice", "cannot convert slice to array pointer: length too short", nil)
			return
		}
		if s.Arr.Obj == 0 {
			e.set(fr, in, Ptr{})
		} else if s.Off == 0 && len(e.st.arrayForRead(s.Arr).E) == n {
			e.set(fr, in, s.Arr)
		} else {
			// a window into a larger array: the pointer is given a copy of the window. Exact for the
			// conversion [N]T(s) (the pointer is dereferenced at once); a WRITE through such a pointer
			// would not reach the original array — none of the interpreted code does that
			src := e.st.arrayForRead(s.Arr)
			cp := &ArrayV{E: make([]Value, n)}
			for i := 0; i < n; i++ {
				cp.E[i] = deepCopy(src.E[s.Off+i])
			}
			e.Res.Funcs["note:slice-to-array-pointer-window-copied"]++
			e.set(fr, in, Ptr{Obj: e.st.alloc(cp, in.Type().(*types.Pointer).Elem(), "array-window")})
		}
	case *ssa.Store:
		p := e.val(fr, in.Addr).(Ptr)
		if p.IsNil() {
			e.goPanic("nil", "invalid memory address or nil pointer dereference", nil)
			return
		}
		e.recordAccess(p, true)
		if p.Sym != nil {
			v, ok := e.val(fr, in.Val).(*smt.Term)
			if !ok {
				e.unsupported("store of non-scalar through symbolic index")
			}
			a := e.st.arrayForWrite(Ptr{Obj: p.Obj, Path: p.Path})
			for k := range a.E {
				a.E[k] = smt.Ite(smt.Eq(p.Sym, smt.BV(uint64(k), p.Sym.W)), v, a.E[k].(*smt.Term))
			}
			break
		}
		e.st.store(p, e.val(fr, in.Val))
	case *ssa.TypeAssert:
		e.typeAssert(fr, in)
	case *ssa.If:
		c := e.term(fr, in.Cond)
		if e.choose(c) {
			e.jump(fr, fr.block.Succs[0])
		} else {
			e.jump(fr, fr.block.Succs[1])
		}
		return
	case *ssa.Jump:
		e.jump(fr, fr.block.Succs[0])
		return
	case *ssa.Return:
		var res Value
		switch len(in.Results) {
		case 0:
		case 1:
			res = e.val(fr, in.Results[0])
		default:
			t := make(Tuple, len(in.Results))
			for i, r := range in.Results {
				t[i] = e.val(fr, r)
			}
			res = t
		}
		e.doReturn(fr, res)
		return
	case *ssa.Panic:
		v := e.val(fr, in.X)
		msg := "panic"
		if i, ok := v.(Iface); ok {
			if s, ok := i.V.(Str); ok {
				msg = "panic: " + s.Show()
			} else if i.T != nil {
				msg = "panic(" + i.T.String() + ")"
				if i.T.String() == "vpFatalT" || hasSuffix(i.T.String(), ".vpFatalT") {
					e.goPanic("fatal", "log.Fatal", v)
					return
				}
			}
		}
		e.goPanic("explicit", msg, v)
		return
	case *ssa.RunDefers:
		if len(fr.defers) > 0 {
			d := fr.defers[len(fr.defers)-1]
			fr.defers = fr.defers[:len(fr.defers)-1]
			e.invokeDeferred(fr, d, nil)
			return // ip unchanged: RunDefers re-executes until no defers are left
		}
	case *ssa.Defer:
		e.deferInstr(fr, in)
	case *ssa.Go:
		e.goInstr(fr, in)
	default:
		e.unsupported("instruction %T", instr)
	}
	fr.ip++
}

func hasSuffix(s, suf string) bool { return len(s) >= len(suf) && s[len(s)-len(suf):] == suf }

func (e *Engine) phis(fr *Frame) {
	// find predecessor index
	idx := -1
	for i, p := range fr.block.Preds {
		if p == fr.prev {
			idx = i
			break
		}
	}
	if idx < 0 {
		panic(engineErr{"internal", "phi: predecessor not found"})
	}
	var vals []Value
	var phis []*ssa.Phi
	i := fr.ip
	for ; i < len(fr.block.Instrs); i++ {
		p, ok := fr.block.Instrs[i].(*ssa.Phi)
		if !ok {
			break
		}
		phis = append(phis, p)
		vals = append(vals, e.val(fr, p.Edges[idx]))
	}
	for k, p := range phis {
		fr.regs[p] = vals[k]
	}
	fr.ip = i
}

func (e *Engine) doReturn(fr *Frame, res Value) {
	st := e.st
	st.frames = st.frames[:len(st.frames)-1]
	if len(st.frames) == 0 {
		if !st.curGor.isMain {
			// a goroutine finished: run someone else
			e.goroutineDone()
		}
		return
	}
	parent := st.top()
	if fr.isDeferCall {
		if fr.pendingPanic != nil {
			st.panicking = fr.pendingPanic
		}
		// parent re-executes RunDefers / continues recovery drain
		return
	}
	if fr.isTaskRoot {
		panic(engineErr{"internal", "task root returned into a parent frame"})
	}
	if fr.isInit {
		return
	}
	if fr.retInstr != nil {
		parent.regs[fr.retInstr] = res
	}
	parent.ip++
}

func (e *Engine) concInt(t *smt.Term, what string) int64 {
	if t.IsConst() {
		return t.SConst()
	}
	return e.chooseInt(t, what)
}

// ---- binary / unary operators ----

func (e *Engine) cmpTerm(op token.Token, a, b *smt.Term, signed bool) *smt.Term {
	switch op {
	case token.EQL:
		return smt.Eq(a, b)
	case token.NEQ:
		return smt.Not(smt.Eq(a, b))
	case token.LSS:
		if signed {
			return smt.Cmp(smt.OpSlt, a, b)
		}
		return smt.Cmp(smt.OpUlt, a, b)
	case token.LEQ:
		if signed {
			return smt.Cmp(smt.OpSle, a, b)
		}
		return smt.Cmp(smt.OpUle, a, b)
	case token.GTR:
		if signed {
			return smt.Cmp(smt.OpSlt, b, a)
		}
		return smt.Cmp(smt.OpUlt, b, a)
	case token.GEQ:
		if signed {
			return smt.Cmp(smt.OpSle, b, a)
		}
		return smt.Cmp(smt.OpUle, b, a)
	}
	panic("cmpTerm")
}

func (e *Engine) binop(op token.Token, xt types.Type, x, y Value, yt types.Type) Value {
	switch a := x.(type) {
	case *smt.Term:
		b, ok := y.(*smt.Term)
		if !ok {
			e.unsupported("binop %s on %T,%T", op, x, y)
		}
		if a.W == 0 { // bool
			switch op {
			case token.EQL:
				return smt.Eq(a, b)
			case token.NEQ:
				return smt.Not(smt.Eq(a, b))
			case token.AND, token.LAND:
				return smt.BAnd(a, b)
			case token.OR, token.LOR:
				return smt.BOr(a, b)
			}
			e.unsupported("bool binop %s", op)
		}
		signed := isSigned(xt)
		switch op {
		case token.ADD:
			return smt.Bin(smt.OpAdd, a, b)
		case token.SUB:
			return smt.Bin(smt.OpSub, a, b)
		case token.MUL:
			return smt.Bin(smt.OpMul, a, b)
		case token.QUO, token.REM:
			e.panicIf(smt.Eq(b, smt.BV(0, b.W)), "divide", "integer divide by zero")
			if op == token.QUO {
				if signed {
					return smt.Bin(smt.OpSDiv, a, b)
				}
				return smt.Bin(smt.OpUDiv, a, b)
			}
			if signed {
				return smt.Bin(smt.OpSRem, a, b)
			}
			return smt.Bin(smt.OpURem, a, b)
		case token.AND:
			return smt.Bin(smt.OpAnd, a, b)
		case token.OR:
			return smt.Bin(smt.OpOr, a, b)
		case token.XOR:
			return smt.Bin(smt.OpXor, a, b)
		case token.AND_NOT:
			return smt.Bin(smt.OpAnd, a, smt.BVNot(b))
		case token.SHL, token.SHR:
			// shift count: negative signed count panics; count >= width saturates
			if isSigned(yt) {
				e.panicIf(smt.Cmp(smt.OpSlt, b, smt.BV(0, b.W)), "shift", "negative shift amount")
			}
			var cnt *smt.Term
			if b.W > a.W {
				big := smt.Cmp(smt.OpUle, smt.BV(uint64(a.W), b.W), b)
				cnt = smt.Ite(big, smt.BV(uint64(a.W), a.W), smt.Extract(b, 0, a.W))
			} else {
				cnt = smt.ZExt(b, a.W)
			}
			if op == token.SHL {
				return smt.Bin(smt.OpShl, a, cnt)
			}
			if signed {
				return smt.Bin(smt.OpAShr, a, cnt)
			}
			return smt.Bin(smt.OpLShr, a, cnt)
		default:
			return e.cmpTerm(op, a, b, signed)
		}
	case Str:
		b := y.(Str)
		switch op {
		case token.ADD:
			n := make([]*smt.Term, 0, len(a.B)+len(b.B))
			n = append(n, a.B...)
			n = append(n, b.B...)
			return Str{n}
		case token.EQL:
			return strEq(a, b)
		case token.NEQ:
			return smt.Not(strEq(a, b))
		case token.LSS:
			return strLess(a, b, false)
		case token.LEQ:
			return strLess(a, b, true)
		case token.GTR:
			return strLess(b, a, false)
		case token.GEQ:
			return strLess(b, a, true)
		}
	case Opaque:
		e.unsupported("arithmetic on unmodelled value (%s) op %s", a.What, op)
	}
	switch op {
	case token.EQL:
		return e.valueEq(x, y)
	case token.NEQ:
		return smt.Not(e.valueEq(x, y))
	}
	e.unsupported("binop %s on %T", op, x)
	return nil
}

func strEq(a, b Str) *smt.Term {
	if len(a.B) != len(b.B) {
		return smt.False
	}
	r := smt.True
	for i := range a.B {
		r = smt.BAnd(r, smt.Eq(a.B[i], b.B[i]))
		if r.IsFalse() {
			return r
		}
	}
	return r
}

// strLess: lexicographic a < b (or <= when orEq).
func strLess(a, b Str, orEq bool) *smt.Term {
	n := len(a.B)
	if len(b.B) < n {
		n = len(b.B)
	}
	// result when common prefix equal:
	var tail *smt.Term
	if orEq {
		tail = smt.Bool(len(a.B) <= len(b.B))
	} else {
		tail = smt.Bool(len(a.B) < len(b.B))
	}
	r := tail
	for i := n - 1; i >= 0; i-- {
		lt := smt.Cmp(smt.OpUlt, a.B[i], b.B[i])
		eq := smt.Eq(a.B[i], b.B[i])
		r = smt.BOr(lt, smt.BAnd(eq, r))
	}
	return r
}

// valueEq builds the equality term of two values of the same static type.
func (e *Engine) valueEq(x, y Value) *smt.Term {
	switch a := x.(type) {
	case nil:
		return smt.Bool(y == nil)
	case *smt.Term:
		b, ok := y.(*smt.Term)
		if !ok || a.W != b.W {
			return smt.False
		}
		return smt.Eq(a, b)
	case Str:
		b, ok := y.(Str)
		if !ok {
			return smt.False
		}
		return strEq(a, b)
	case Ptr:
		b, ok := y.(Ptr)
		if !ok {
			return smt.False
		}
		return smt.Bool(samePtr(a, b))
	case Slice:
		b := y.(Slice)
		// only comparison with nil is legal
		if a.Arr.Obj == 0 && b.Arr.Obj == 0 {
			return smt.True
		}
		if a.Arr.Obj == 0 || b.Arr.Obj == 0 {
			return smt.False
		}
		return smt.Bool(samePtr(a.Arr, b.Arr) && a.Off == b.Off)
	case MapRef:
		return smt.Bool(a.Obj == y.(MapRef).Obj)
	case ChanRef:
		return smt.Bool(a.Obj == y.(ChanRef).Obj)
	case Closure:
		b := y.(Closure)
		return smt.Bool(a.Fn == b.Fn && a.Fn == nil)
	case Iface:
		b, ok := y.(Iface)
		if !ok {
			return smt.False
		}
		if a.T == nil || b.T == nil {
			return smt.Bool(a.T == nil && b.T == nil)
		}
		if !types.Identical(a.T, b.T) {
			return smt.False
		}
		if !types.Comparable(a.T) {
			e.goPanic("explicit", "comparing uncomparable type "+a.T.String(), nil)
			panic(instrAbort{})
		}
		return e.valueEq(a.V, b.V)
	case *StructV:
		b := y.(*StructV)
		r := smt.True
		for i := range a.F {
			r = smt.BAnd(r, e.valueEq(a.F[i], b.F[i]))
		}
		return r
	case *ArrayV:
		b := y.(*ArrayV)
		r := smt.True
		for i := range a.E {
			r = smt.BAnd(r, e.valueEq(a.E[i], b.E[i]))
		}
		return r
	case Opaque:
		if b, ok := y.(Opaque); ok && a.What == b.What {
			return smt.True
		}
		e.unsupported("equality on unmodelled values")
	}
	e.unsupported("equality on %T", x)
	return nil
}

func (e *Engine) unop(fr *Frame, in *ssa.UnOp) {
	x := e.val(fr, in.X)
	switch in.Op {
	case token.MUL: // load
		p := x.(Ptr)
		if p.IsNil() {
			e.goPanic("nil", "invalid memory address or nil pointer dereference", nil)
			panic(instrAbort{})
		}
		e.recordAccess(p, false)
		if p.Sym != nil {
			a := e.st.arrayForRead(Ptr{Obj: p.Obj, Path: p.Path})
			ts, ok := termsOf(a.E)
			if !ok {
				e.unsupported("load of non-scalar through symbolic index")
			}
			e.set(fr, in, iteChain(p.Sym, ts))
			break
		}
		e.set(fr, in, e.st.load(p))
	case token.SUB:
		e.set(fr, in, smt.Neg(x.(*smt.Term)))
	case token.NOT:
		e.set(fr, in, smt.Not(x.(*smt.Term)))
	case token.XOR:
		e.set(fr, in, smt.BVNot(x.(*smt.Term)))
	case token.ARROW:
		e.recv(fr, in, x.(ChanRef))
	default:
		e.unsupported("unop %s", in.Op)
	}
}

// ---- conversions ----

func (e *Engine) convert(x Value, from, to types.Type) Value {
	fu, tu := under(from), under(to)
	// numeric
	if fw, tw := bvWidth(from), bvWidth(to); fw > 0 && tw > 0 {
		t := x.(*smt.Term)
		if tw <= fw {
			return smt.Extract(t, 0, uint8(tw))
		}
		if isSigned(from) {
			return smt.SExt(t, uint8(tw))
		}
		return smt.ZExt(t, uint8(tw))
	}
	if isFloat(to) || isFloat(from) {
		return Opaque{"float"}
	}
	// string conversions
	if isString(to) {
		switch f := fu.(type) {
		case *types.Basic:
			if isString(from) {
				return x
			}
			if bvWidth(from) > 0 { // rune -> string
				t := x.(*smt.Term)
				if !t.IsConst() {
					e.unsupported("string(rune) of symbolic value")
				}
				return ConstStr(string(rune(t.SConst())))
			}
		case *types.Slice:
			s := x.(Slice)
			if bvWidth(f.Elem()) == 8 {
				return Str{e.sliceTerms(s)}
			}
			if bvWidth(f.Elem()) == 32 { // []rune
				var out []*smt.Term
				for _, t := range e.sliceTerms(s) {
					out = append(out, e.encodeRune(t)...)
				}
				return Str{out}
			}
		}
	}
	if isString(from) {
		if ts, ok := tu.(*types.Slice); ok {
			s := x.(Str)
			if bvWidth(ts.Elem()) == 8 {
				return e.newByteSlice(s.B, len(s.B))
			}
			if bvWidth(ts.Elem()) == 32 {
				cs, ok := s.Concrete()
				if !ok {
					// ASCII fast path under a fork per byte
					out := make([]*smt.Term, 0, len(s.B))
					for _, b := range s.B {
						if !e.choose(smt.Cmp(smt.OpUlt, b, smt.BV(0x80, 8))) {
							e.unsupported("[]rune(string) with symbolic non-ASCII bytes")
						}
						out = append(out, smt.ZExt(b, 32))
					}
					return e.newSliceOf(out, types.Typ[types.Int32])
				}
				rs := []rune(cs)
				out := make([]*smt.Term, len(rs))
				for i, r := range rs {
					out[i] = smt.BV(uint64(r), 32)
				}
				return e.newSliceOf(out, types.Typ[types.Int32])
			}
		}
	}
	// pointer <-> unsafe.Pointer, and other representation-preserving conversions
	switch tu.(type) {
	case *types.Pointer, *types.Slice, *types.Map, *types.Chan, *types.Signature, *types.Struct, *types.Array:
		return x
	case *types.Basic:
		if tu.(*types.Basic).Kind() == types.UnsafePointer {
			return x
		}
		if tu.(*types.Basic).Kind() == types.Uintptr {
			if p, ok := x.(Ptr); ok {
				return Opaque{fmt.Sprintf("uintptr:%d", p.Obj)}
			}
		}
	}
	if fb, ok := fu.(*types.Basic); ok && fb.Kind() == types.UnsafePointer {
		return x
	}
	e.unsupported("convert %s -> %s", from, to)
	return nil
}

// encodeRune produces the UTF-8 encoding of a (possibly symbolic) rune, forking on its size class.
func (e *Engine) encodeRune(r *smt.Term) []*smt.Term {
	if r.IsConst() {
		return ConstStr(string(rune(int32(r.SConst())))).B
	}
	c := func(v uint64) *smt.Term { return smt.BV(v, 32) }
	b := func(t *smt.Term) *smt.Term { return smt.Extract(t, 0, 8) }
	or := func(k uint64, t *smt.Term) *smt.Term { return smt.Or(smt.BV(k, 8), b(t)) }
	sh := func(t *smt.Term, n uint64) *smt.Term { return smt.Bin(smt.OpLShr, t, c(n)) }
	m6 := func(t *smt.Term) *smt.Term { return smt.And(t, c(0x3F)) }
	if e.choose(smt.Cmp(smt.OpUlt, r, c(0x80))) {
		return []*smt.Term{b(r)}
	}
	if e.choose(smt.Cmp(smt.OpUlt, r, c(0x800))) {
		return []*smt.Term{or(0xC0, sh(r, 6)), or(0x80, m6(r))}
	}
	bad := smt.BOr(smt.BAnd(smt.Cmp(smt.OpUle, c(0xD800), r), smt.Cmp(smt.OpUle, r, c(0xDFFF))), smt.Cmp(smt.OpUlt, c(0x10FFFF), r))
	if e.choose(bad) {
		return ConstStr("\uFFFD").B
	}
	if e.choose(smt.Cmp(smt.OpUlt, r, c(0x10000))) {
		return []*smt.Term{or(0xE0, sh(r, 12)), or(0x80, m6(sh(r, 6))), or(0x80, m6(r))}
	}
	return []*smt.Term{or(0xF0, sh(r, 18)), or(0x80, m6(sh(r, 12))), or(0x80, m6(sh(r, 6))), or(0x80, m6(r))}
}

func (e *Engine) sliceTerms(s Slice) []*smt.Term {
	out := make([]*smt.Term, s.Len)
	if s.Len == 0 {
		return out
	}
	a := e.st.arrayForRead(s.Arr)
	for i := 0; i < s.Len; i++ {
		t, ok := a.E[s.Off+i].(*smt.Term)
		if !ok {
			e.unsupported("sliceTerms: non-scalar element")
		}
		out[i] = t
	}
	return out
}

func (e *Engine) newByteSlice(b []*smt.Term, cap_ int) Slice {
	if cap_ < len(b) {
		cap_ = len(b)
	}
	arr := &ArrayV{E: make([]Value, cap_)}
	z := smt.BV(0, 8)
	for i := range arr.E {
		if i < len(b) {
			arr.E[i] = b[i]
		} else {
			arr.E[i] = z
		}
	}
	id := e.st.alloc(arr, nil, "bytes")
	return Slice{Arr: Ptr{Obj: id}, Off: 0, Len: len(b), Cap: cap_}
}

func (e *Engine) newSliceOf(ts []*smt.Term, elem types.Type) Slice {
	arr := &ArrayV{E: make([]Value, len(ts))}
	for i := range ts {
		arr.E[i] = ts[i]
	}
	id := e.st.alloc(arr, nil, "slice")
	return Slice{Arr: Ptr{Obj: id}, Len: len(ts), Cap: len(ts)}
}

func (e *Engine) newSliceVals(vs []Value) Slice {
	arr := &ArrayV{E: append([]Value(nil), vs...)}
	id := e.st.alloc(arr, nil, "slice")
	return Slice{Arr: Ptr{Obj: id}, Len: len(vs), Cap: len(vs)}
}

// ---- indexing ----

func (e *Engine) boundsCheck(idx *smt.Term, n int, what string) int {
	nn := smt.BV(uint64(n), idx.W)
	bad := smt.Not(smt.Cmp(smt.OpUlt, idx, nn)) // unsigned compare also catches negatives
	e.panicIf(bad, "index", fmt.Sprintf("index out of range [%s] with length %d", what, n))
	return int(e.concInt(idx, "index"))
}

func (e *Engine) index(fr *Frame, in *ssa.Index) {
	x := e.val(fr, in.X)
	idx := widen64(e.term(fr, in.Index), in.Index.Type())
	switch c := x.(type) {
	case *ArrayV:
		if !idx.IsConst() && len(c.E) > 0 {
			if t0, ok := c.E[0].(*smt.Term); ok && len(c.E) <= 512 {
				e.panicIf(smt.Not(smt.Cmp(smt.OpUlt, idx, smt.BV(uint64(len(c.E)), idx.W))), "index", fmt.Sprintf("index out of range with length %d", len(c.E)))
				_ = t0
				if ts, ok := termsOf(c.E); ok {
					e.set(fr, in, iteChain(idx, ts))
					return
				}
			}
		}
		i := e.boundsCheck(idx, len(c.E), "array")
		e.set(fr, in, deepCopy(c.E[i]))
	case Str:
		e.set(fr, in, e.strIndex(c, idx))
	default:
		e.unsupported("Index on %T", x)
	}
}

func (e *Engine) strIndex(c Str, idx *smt.Term) *smt.Term {
	if !idx.IsConst() && len(c.B) > 0 && len(c.B) <= 512 {
		e.panicIf(smt.Not(smt.Cmp(smt.OpUlt, idx, smt.BV(uint64(len(c.B)), idx.W))), "index", fmt.Sprintf("index out of range with length %d", len(c.B)))
		return iteChain(idx, c.B)
	}
	i := e.boundsCheck(idx, len(c.B), "string")
	return c.B[i]
}

func (e *Engine) indexAddr(fr *Frame, in *ssa.IndexAddr) {
	x := e.val(fr, in.X)
	idx := widen64(e.term(fr, in.Index), in.Index.Type())
	switch c := x.(type) {
	case Slice:
		if !idx.IsConst() && c.Len > 0 && c.Len <= 1024 && c.Off == 0 {
			if a := e.st.arrayForRead(c.Arr); len(a.E) == c.Len {
				if _, ok := a.E[0].(*smt.Term); ok {
					e.panicIf(smt.Not(smt.Cmp(smt.OpUlt, idx, smt.BV(uint64(c.Len), idx.W))), "index", fmt.Sprintf("index out of range with length %d", c.Len))
					e.set(fr, in, Ptr{Obj: c.Arr.Obj, Path: c.Arr.Path, Sym: idx, SymN: c.Len})
					return
				}
			}
		}
		i := e.boundsCheck(idx, c.Len, "slice")
		e.set(fr, in, c.Arr.Sub(c.Off+i))
	case Ptr: // *array
		c = e.concPtr(c)
		if c.IsNil() {
			e.goPanic("nil", "invalid memory address or nil pointer dereference", nil)
			panic(instrAbort{})
		}
		n := int(in.X.Type().Underlying().(*types.Pointer).Elem().Underlying().(*types.Array).Len())
		if !idx.IsConst() && n > 0 && n <= 1024 {
			if a, ok := e.st.loadRef(c).(*ArrayV); ok {
				if _, ok := a.E[0].(*smt.Term); ok {
					e.panicIf(smt.Not(smt.Cmp(smt.OpUlt, idx, smt.BV(uint64(n), idx.W))), "index", fmt.Sprintf("index out of range with length %d", n))
					e.set(fr, in, Ptr{Obj: c.Obj, Path: c.Path, Sym: idx, SymN: n})
					return
				}
			}
		}
		i := e.boundsCheck(idx, n, "array")
		e.set(fr, in, c.Sub(i))
	default:
		e.unsupported("IndexAddr on %T", x)
	}
}

// iteChain selects elems[idx] as a term. Elements equal to the most frequent constant become
// the default, so sparse lookup tables (e.g. strings.asciiSpace) give short chains.
func iteChain(idx *smt.Term, elems []*smt.Term) *smt.Term {
	count := map[uint64]int{}
	best, bestN := uint64(0), 0
	for _, t := range elems {
		if t.IsConst() {
			count[t.Const()]++
			if count[t.Const()] > bestN {
				best, bestN = t.Const(), count[t.Const()]
			}
		}
	}
	var r *smt.Term
	if bestN > 1 {
		r = smt.BV(best, elems[0].W)
		if elems[0].W == 0 {
			r = smt.Bool(best == 1)
		}
	}
	for k := len(elems) - 1; k >= 0; k-- {
		t := elems[k]
		if r != nil && bestN > 1 && t.IsConst() && t.Const() == best {
			continue
		}
		if r == nil {
			r = t
			continue
		}
		r = smt.Ite(smt.Eq(idx, smt.BV(uint64(k), idx.W)), t, r)
	}
	return r
}

func termsOf(vs []Value) ([]*smt.Term, bool) {
	out := make([]*smt.Term, len(vs))
	for i, v := range vs {
		t, ok := v.(*smt.Term)
		if !ok {
			return nil, false
		}
		out[i] = t
	}
	return out, true
}

// concPtr turns a symbolic-index pointer into a concrete one (one fork per feasible index).
func (e *Engine) concPtr(p Ptr) Ptr {
	if p.Sym == nil {
		return p
	}
	i := int(e.concInt(p.Sym, "pointer index"))
	return Ptr{Obj: p.Obj, Path: p.Path}.Sub(i)
}

func (e *Engine) makeSlice(fr *Frame, in *ssa.MakeSlice) {
	lt := widen64(e.term(fr, in.Len), in.Len.Type())
	ct := widen64(e.term(fr, in.Cap), in.Cap.Type())
	max := smt.BV(uint64(e.Cfg.MaxAlloc), lt.W)
	if !lt.IsConst() {
		e.panicIf(smt.Cmp(smt.OpSlt, lt, smt.BV(0, lt.W)), "makeslice", "makeslice: len out of range")
		if ok, _ := e.sat(false, smt.Cmp(smt.OpSlt, max, lt)); ok {
			panic(engineErr{"bound", fmt.Sprintf("make([]T, n): n may exceed maxalloc %d at %s (add a vpAssume or raise //vp:maxalloc)", e.Cfg.MaxAlloc, e.where())})
		}
	}
	n := int(e.concInt(lt, "make len"))
	c := n
	if in.Cap != in.Len {
		c = int(e.concInt(ct, "make cap"))
	}
	if n < 0 || c < n {
		e.goPanic("makeslice", "makeslice: len out of range", nil)
		panic(instrAbort{})
	}
	if c > 1<<22 {
		panic(engineErr{"bound", fmt.Sprintf("make of %d elements", c)})
	}
	et := in.Type().Underlying().(*types.Slice).Elem()
	arrT := types.NewArray(et, int64(c))
	id := e.st.alloc(zeroValue(arrT), arrT, "makeslice")
	e.set(fr, in, Slice{Arr: Ptr{Obj: id}, Off: 0, Len: n, Cap: c})
}

func widen64(t *smt.Term, ty types.Type) *smt.Term {
	if t.W >= 64 {
		return t
	}
	if isSigned(ty) {
		return smt.SExt(t, 64)
	}
	return smt.ZExt(t, 64)
}

func (e *Engine) slice(fr *Frame, in *ssa.Slice) {
	x := e.val(fr, in.X)
	get := func(v ssa.Value, def int) *smt.Term {
		if v == nil {
			return smt.BV(uint64(def), 64)
		}
		t := e.term(fr, v)
		if t.W < 64 {
			if isSigned(v.Type()) {
				t = smt.SExt(t, 64)
			} else {
				t = smt.ZExt(t, 64)
			}
		}
		return t
	}
	c64 := func(n int) *smt.Term { return smt.BV(uint64(n), 64) }
	switch s := x.(type) {
	case Str:
		lo, hi := get(in.Low, 0), get(in.High, len(s.B))
		bad := smt.BOr(smt.Cmp(smt.OpUlt, c64(len(s.B)), hi), smt.Cmp(smt.OpUlt, hi, lo))
		e.panicIf(bad, "slice", fmt.Sprintf("slice bounds out of range with length %d", len(s.B)))
		if d := smt.Sub(hi, lo); !lo.IsConst() && d.IsConst() && d.Const() <= 16 && len(s.B) <= 512 {
			// fixed-width window at a symbolic offset: ite chains instead of one fork per offset
			w := int(d.Const())
			out := make([]*smt.Term, w)
			for k := 0; k < w; k++ {
				var r *smt.Term
				for off := len(s.B) - w; off >= 0; off-- {
					if r == nil {
						r = s.B[off+k]
					} else {
						r = smt.Ite(smt.Eq(lo, c64(off)), s.B[off+k], r)
					}
				}
				out[k] = r
			}
			e.set(fr, in, Str{out})
			return
		}
		h := int(e.concInt(hi, "slice high"))
		l := int(e.concInt(lo, "slice low"))
		e.set(fr, in, Str{s.B[l:h:h]})
	case Slice:
		lo, hi, mx := get(in.Low, 0), get(in.High, s.Len), get(in.Max, s.Cap)
		bad := smt.BOr(smt.Cmp(smt.OpUlt, c64(s.Cap), mx), smt.BOr(smt.Cmp(smt.OpUlt, mx, hi), smt.Cmp(smt.OpUlt, hi, lo)))
		if in.Max == nil {
			bad = smt.BOr(smt.Cmp(smt.OpUlt, c64(s.Cap), hi), smt.Cmp(smt.OpUlt, hi, lo))
		}
		e.panicIf(bad, "slice", fmt.Sprintf("slice bounds out of range with capacity %d", s.Cap))
		h := int(e.concInt(hi, "slice high"))
		l := int(e.concInt(lo, "slice low"))
		m := int(e.concInt(mx, "slice max"))
		if s.Arr.Obj == 0 {
			e.set(fr, in, Slice{})
			return
		}
		e.set(fr, in, Slice{Arr: s.Arr, Off: s.Off + l, Len: h - l, Cap: m - l})
	case Ptr: // *array
		if s.IsNil() {
			e.goPanic("nil", "invalid memory address or nil pointer dereference", nil)
			panic(instrAbort{})
		}
		n := int(in.X.Type().Underlying().(*types.Pointer).Elem().Underlying().(*types.Array).Len())
		lo, hi, mx := get(in.Low, 0), get(in.High, n), get(in.Max, n)
		bad := smt.BOr(smt.Cmp(smt.OpUlt, c64(n), mx), smt.BOr(smt.Cmp(smt.OpUlt, mx, hi), smt.Cmp(smt.OpUlt, hi, lo)))
		e.panicIf(bad, "slice", fmt.Sprintf("slice bounds out of range with length %d", n))
		h := int(e.concInt(hi, "slice high"))
		l := int(e.concInt(lo, "slice low"))
		m := int(e.concInt(mx, "slice max"))
		e.set(fr, in, Slice{Arr: s, Off: l, Len: h - l, Cap: m - l})
	default:
		e.unsupported("Slice on %T", x)
	}
}

// ---- maps ----

// mapFind returns the index of key in m, or -1; may fork on symbolic key equality.
func (e *Engine) mapFind(m *MapV, key Value) int {
	for i := range m.E {
		eq := e.valueEq(m.E[i].K, key)
		if e.choose(eq) {
			return i
		}
	}
	return -1
}

func (e *Engine) mapUpdate(m MapRef, k, v Value) {
	e.recordAccess(Ptr{Obj: m.Obj}, true)
	mv := e.st.obj(m.Obj).Val.(*MapV)
	i := e.mapFind(mv, k)
	o := e.st.writable(m.Obj)
	mv = o.Val.(*MapV)
	if i >= 0 {
		mv.E[i].V = deepCopy(v)
		return
	}
	mv.E = append(mv.E, MapEntry{K: deepCopy(k), V: deepCopy(v)})
}

func (e *Engine) mapDelete(m MapRef, k Value) {
	if m.Obj == 0 {
		return
	}
	e.recordAccess(Ptr{Obj: m.Obj}, true)
	mv := e.st.obj(m.Obj).Val.(*MapV)
	i := e.mapFind(mv, k)
	if i < 0 {
		return
	}
	o := e.st.writable(m.Obj)
	mv = o.Val.(*MapV)
	mv.E = append(mv.E[:i:i], mv.E[i+1:]...)
}

func (e *Engine) lookup(fr *Frame, in *ssa.Lookup) {
	x := e.val(fr, in.X)
	switch c := x.(type) {
	case Str:
		e.set(fr, in, e.strIndex(c, widen64(e.term(fr, in.Index), in.Index.Type())))
	case MapRef:
		vt := in.X.Type().Underlying().(*types.Map).Elem()
		var res Value
		found := false
		if c.Obj != 0 {
			e.recordAccess(Ptr{Obj: c.Obj}, false)
			mv := e.st.obj(c.Obj).Val.(*MapV)
			i := e.mapFind(mv, e.val(fr, in.Index))
			if i >= 0 {
				res = deepCopy(mv.E[i].V)
				found = true
			}
		}
		if !found {
			res = zeroValue(vt)
		}
		if in.CommaOk {
			e.set(fr, in, Tuple{res, smt.Bool(found)})
		} else {
			e.set(fr, in, res)
		}
	default:
		e.unsupported("Lookup on %T", x)
	}
}

func (e *Engine) rangeInit(fr *Frame, in *ssa.Range) {
	x := e.val(fr, in.X)
	switch c := x.(type) {
	case Str:
		e.set(fr, in, &IterV{S: c, IsS: true})
	case MapRef:
		it := &IterV{}
		if c.Obj != 0 {
			mv := e.st.obj(c.Obj).Val.(*MapV)
			for _, en := range mv.E {
				it.Keys = append(it.Keys, en.K)
				it.Vals = append(it.Vals, en.V)
			}
		}
		e.set(fr, in, it)
	default:
		e.unsupported("Range on %T", x)
	}
}

func (e *Engine) next(fr *Frame, in *ssa.Next) {
	it := e.val(fr, in.Iter).(*IterV)
	if in.IsString {
		if it.Idx >= len(it.S.B) {
			e.set(fr, in, Tuple{smt.False, smt.BV(0, 64), smt.BV(0, 32)})
			return
		}
		b := it.S.B[it.Idx]
		// ASCII fast path; multi-byte only when concrete
		if e.choose(smt.Cmp(smt.OpUlt, b, smt.BV(0x80, 8))) {
			e.set(fr, in, Tuple{smt.True, smt.BV(uint64(it.Idx), 64), smt.ZExt(b, 32)})
			fr.regs[in.Iter] = &IterV{S: it.S, IsS: true, Idx: it.Idx + 1}
			return
		}
		// a multi-byte sequence: only the bytes of THIS rune have to be concrete (up to four)
		end := it.Idx
		for end < len(it.S.B) && end < it.Idx+4 && it.S.B[end].IsConst() {
			end++
		}
		if end == it.Idx {
			e.unsupported("range over string with symbolic non-ASCII byte")
		}
		win, _ := Str{it.S.B[it.Idx:end]}.Concrete()
		r0, size := utf8.DecodeRuneInString(win)
		if r0 == utf8.RuneError && size <= 1 && end < len(it.S.B) && end < it.Idx+4 && !utf8.FullRuneInString(win) {
			// the sequence may continue into symbolic bytes
			e.unsupported("range over string with symbolic non-ASCII byte")
		}
		cs := win[:size]
		for _, r := range cs { // the rune
			n := size
			if n < 1 {
				n = 1
			}
			e.set(fr, in, Tuple{smt.True, smt.BV(uint64(it.Idx), 64), smt.BV(uint64(r), 32)})
			fr.regs[in.Iter] = &IterV{S: it.S, IsS: true, Idx: it.Idx + n}
			return
		}
		return
	}
	if it.Idx >= len(it.Keys) {
		mt := in.Iter.(*ssa.Range).X.Type().Underlying().(*types.Map)
		e.set(fr, in, Tuple{smt.False, zeroValue(mt.Key()), zeroValue(mt.Elem())})
		return
	}
	e.set(fr, in, Tuple{smt.True, deepCopy(it.Keys[it.Idx]), deepCopy(it.Vals[it.Idx])})
	fr.regs[in.Iter] = &IterV{Keys: it.Keys, Vals: it.Vals, Idx: it.Idx + 1}
}

// ---- type assertions ----

func (e *Engine) implements(dyn types.Type, iface *types.Interface) bool {
	return types.Implements(dyn, iface)
}

func (e *Engine) typeAssert(fr *Frame, in *ssa.TypeAssert) {
	x := e.val(fr, in.X).(Iface)
	at := in.AssertedType
	ok := false
	var res Value
	if x.T != nil {
		if it, isI := at.Underlying().(*types.Interface); isI {
			if e.implements(x.T, it) {
				ok = true
				res = x
			}
		} else if types.Identical(x.T, at) {
			ok = true
			res = x.V
		}
	}
	if in.CommaOk {
		if !ok {
			res = zeroValue(at)
		}
		e.set(fr, in, Tuple{res, smt.Bool(ok)})
		return
	}
	if !ok {
		have := "nil"
		if x.T != nil {
			have = x.T.String()
		}
		e.goPanic("typeassert", fmt.Sprintf("interface conversion: interface is %s, not %s", have, at), nil)
		panic(instrAbort{})
	}
	e.set(fr, in, res)
}

// ---- channels, goroutines ----

func (e *Engine) blocked(why string) {
	st := e.st
	_, m := e.sat(true)
	e.violation("deadlock", "blocks-forever@"+siteFunc(e.where()), why+" at "+e.where(), m)
	st.events = append(st.events, "blocks-forever")
	panic(pathEnd{"deadlock"})
}

func (e *Engine) recv(fr *Frame, in *ssa.UnOp, c ChanRef) {
	st := e.st
	if c.Obj == 0 {
		e.blocked("receive from nil channel")
	}
	ch := st.obj(c.Obj).Val.(*ChanV)
	if len(ch.Buf) == 0 && !ch.Closed {
		e.blockCurrent("receive on empty channel with no runnable sender")
		return // the receive is re-executed when this goroutine is scheduled again
	}
	et := in.X.Type().Underlying().(*types.Chan).Elem()
	var v Value
	ok := true
	if len(ch.Buf) > 0 {
		o := st.writable(c.Obj)
		ch = o.Val.(*ChanV)
		v = ch.Buf[0]
		ch.Buf = append([]Value(nil), ch.Buf[1:]...)
		st.ghost["chan-recvs"]++
	} else {
		v = zeroValue(et)
		ok = false
	}
	if in.CommaOk {
		e.set(fr, in, Tuple{v, smt.Bool(ok)})
	} else {
		e.set(fr, in, v)
	}
	fr.ip++
}

func (e *Engine) selectInstr(fr *Frame, in *ssa.Select) {
	// supported form: pick the first ready case in order; default if non-blocking
	st := e.st
	for i, s := range in.States {
		c := e.val(fr, s.Chan).(ChanRef)
		if c.Obj == 0 {
			continue
		}
		ch := st.obj(c.Obj).Val.(*ChanV)
		if s.Dir == types.RecvOnly && (len(ch.Buf) > 0 || ch.Closed) {
			o := st.writable(c.Obj)
			ch = o.Val.(*ChanV)
			var v Value
			ok := len(ch.Buf) > 0
			if ok {
				v = ch.Buf[0]
				ch.Buf = append([]Value(nil), ch.Buf[1:]...)
			} else {
				v = zeroValue(s.Chan.Type().Underlying().(*types.Chan).Elem())
			}
			res := Tuple{smt.BV(uint64(i), 64), smt.Bool(ok)}
			for j, s2 := range in.States {
				if s2.Dir == types.RecvOnly {
					if j == i {
						res = append(res, v)
					} else {
						res = append(res, zeroValue(s2.Chan.Type().Underlying().(*types.Chan).Elem()))
					}
				}
			}
			e.set(fr, in, res)
			fr.ip++
			return
		}
		if s.Dir == types.SendOnly && !ch.Closed {
			o := st.writable(c.Obj)
			ch = o.Val.(*ChanV)
			ch.Buf = append(ch.Buf, e.val(fr, s.Send))
			res := Tuple{smt.BV(uint64(i), 64), smt.False}
			for _, s2 := range in.States {
				if s2.Dir == types.RecvOnly {
					res = append(res, zeroValue(s2.Chan.Type().Underlying().(*types.Chan).Elem()))
				}
			}
			e.set(fr, in, res)
			fr.ip++
			return
		}
	}
	if !in.Blocking {
		res := Tuple{smt.BV(^uint64(0), 64), smt.False}
		for _, s2 := range in.States {
			if s2.Dir == types.RecvOnly {
				res = append(res, zeroValue(s2.Chan.Type().Underlying().(*types.Chan).Elem()))
			}
		}
		e.set(fr, in, res)
		fr.ip++
		return
	}
	e.blockCurrent("select with no ready case")
}

func (e *Engine) goInstr(fr *Frame, in *ssa.Go) {
	t := e.prepCall(fr, &in.Call)
	st := e.st
	st.nextGor++
	name := st.thread + "/go:" + siteFunc(e.where()) + "#" + fmt.Sprint(st.nextGor)
	if st.spawns == nil {
		st.spawns = map[string]SpawnInfo{}
	}
	st.spawns[name] = SpawnInfo{Parent: st.thread, Seq: st.accSeq}
	task := &Task{fn: t.fn, args: t.args, iface: t.iface, meth: t.meth, site: e.where(), spawnSeq: st.accSeq, parent: st.thread}
	st.others = append(st.others, &Gor{ID: st.nextGor, task: task, thread: name})
	st.ghost["go-stmts"]++
}

// ---- cooperative scheduler: goroutines switch only where the running one blocks, yields or ends ----

func (e *Engine) runnable(g *Gor) bool {
	if g.parked {
		return false
	}
	if g.blocked {
		return e.st.progress > g.blockedAt
	}
	return true
}

// switchTo parks the running goroutine's bookkeeping into st.others and resumes g.
func (e *Engine) switchTo(idx int, keepCurrent bool) {
	st := e.st
	g := st.others[idx]
	rest := append([]*Gor(nil), st.others[:idx]...)
	rest = append(rest, st.others[idx+1:]...)
	if keepCurrent {
		cur := st.curGor
		cur.frames = st.frames
		cur.thread = st.thread
		cur.locks = st.heldLocks // the lock set belongs to the goroutine, not to the processor
		c := cur
		rest = append(rest, &c)
	}
	st.others = rest
	st.curGor = *g
	st.heldLocks = append([]int(nil), g.locks...)
	st.curGor.blocked, st.curGor.yielding = false, false
	st.thread = g.thread
	st.frames = g.frames
	st.taken = st.taken[:0]
	if g.task != nil {
		// first activation: build the root frame
		t := g.task
		st.curGor.task = nil
		st.frames = []*Frame{{fn: nil}} // dummy base so that callValue has a current frame
		base := st.frames[0]
		base.regs = map[ssa.Value]Value{}
		before := len(st.frames)
		func() {
			defer func() {
				if r := recover(); r != nil {
					if _, ok := r.(instrAbort); ok {
						return
					}
					panic(r)
				}
			}()
			e.callValue(base, nil, t.fn, t.iface, t.meth, nil, t.args, true)
		}()
		if len(st.frames) > before {
			nf := st.frames[len(st.frames)-1]
			nf.isTaskRoot = true
			st.frames = []*Frame{nf}
		} else if st.panicking != nil {
			// panicked before any frame existed (nil func): crash of the goroutine
			pi := st.panicking
			_, m := e.sat(true)
			e.violation("panic", "panic:"+pi.Kind+"@go-statement", pi.Msg, m)
			panic(pathEnd{"panic"})
		} else {
			st.frames = nil
			e.goroutineDone()
		}
	}
}

// pickNext returns the index of the next runnable goroutine (main preferred last so that tasks run
// when main yields), or -1.
func (e *Engine) pickNext() int {
	st := e.st
	for i, g := range st.others {
		if !g.isMain && (e.runnable(g) || (g.yielding && !g.parked)) {
			return i
		}
	}
	for i, g := range st.others {
		if g.isMain && (e.runnable(g) || g.yielding) {
			return i
		}
	}
	return -1
}

// blockCurrent: the running goroutine cannot proceed now. It will retry the same instruction when
// another goroutine has made progress; if nobody can run, main is deadlocked.
func (e *Engine) blockCurrent(why string) {
	st := e.st
	st.progress-- // the blocked attempt is not progress
	st.curGor.blocked = true
	st.curGor.blockedAt = st.progress
	i := e.pickNext()
	if i < 0 && e.fireTimer() {
		// everybody waits: time passes, a timer goes off
		i = e.pickNext()
		if i < 0 {
			// it is the running goroutine that waits for it: retry the instruction
			st.curGor.blocked = false
			return
		}
	}
	if i < 0 {
		if st.curGor.isMain {
			e.blocked(why)
		}
		// a task blocked with nothing else runnable and main already gone cannot happen (main ends the path)
		e.blocked(why)
	}
	e.switchTo(i, true)
}

// parkCurrent: the running goroutine can never proceed (e.g. read on a connection nobody closes).
func (e *Engine) parkCurrent(why string) {
	st := e.st
	if st.curGor.isMain {
		e.blocked(why)
	}
	st.events = append(st.events, "parked:"+st.thread)
	st.curGor.parked = true
	i := e.pickNext()
	for i < 0 && e.fireTimer() {
		i = e.pickNext()
	}
	if i < 0 {
		e.blocked("all goroutines blocked: " + why)
	}
	e.switchTo(i, true)
}

func (e *Engine) goroutineDone() {
	st := e.st
	st.progress++
	i := e.pickNext()
	if i < 0 {
		panic(engineErr{"internal", "no goroutine to resume after a task ended"})
	}
	e.switchTo(i, false)
}

// yieldMain: run the other goroutines until all of them are finished, blocked or parked.
// Returns true when there is nothing left to run (the caller's instruction may complete).
func (e *Engine) yieldMain() bool {
	st := e.st
	if st.curGor.skipYield {
		// another goroutine has just yielded to main: main runs on to its next yield point
		st.curGor.skipYield = false
		return true
	}
	for i, g := range st.others {
		if !g.isMain && (e.runnable(g) || g.yielding) && !g.parked {
			st.curGor.yielding = true
			e.switchTo(i, true)
			return false
		}
	}
	return true
}

// yieldOnce: a non-main goroutine lets one other goroutine (main included) run, then continues.
// Returns true when the caller's instruction may complete.
func (e *Engine) yieldOnce() bool {
	st := e.st
	if st.curGor.blockedOnce {
		st.curGor.blockedOnce = false
		return true
	}
	i := e.pickNext()
	if i < 0 {
		return true
	}
	st.curGor.blockedOnce = true
	st.curGor.yielding = true
	toMain := st.others[i].isMain
	e.switchTo(i, true)
	if toMain {
		st.curGor.skipYield = true
	}
	return false
}

func (e *Engine) unfinishedOthers() int {
	n := 0
	for _, g := range e.st.others {
		if !g.isMain {
			n++
		}
	}
	return n
}

func (e *Engine) deferInstr(fr *Frame, in *ssa.Defer) {
	t := e.prepCall(fr, &in.Call)
	fr.defers = append(fr.defers, deferred{fn: t.fn, args: t.args, iface: t.iface, meth: t.meth, bi: t.bi, instr: in})
}

func (e *Engine) recordAccess(p Ptr, write bool) {
	st := e.st
	if !st.trackAccess {
		return
	}
	o := st.heap[p.Obj]
	tag, typ := "", ""
	if o != nil {
		tag = o.Tag
		if o.Typ != nil {
			typ = o.Typ.String()
		}
	}
	if o != nil && o.Typ != nil && len(p.Path) > 0 {
		if stt, ok := o.Typ.Underlying().(*types.Struct); ok && p.Path[0] < stt.NumFields() {
			typ += "." + stt.Field(p.Path[0]).Name()
		}
	}
	st.accSeq++
	st.access = append(st.access, AccessRec{Thread: st.thread, Obj: p.Obj, Path: fmt.Sprint(p.Path), Typ: typ, Tag: tag, Write: write,
		Locks: append([]int(nil), st.heldLocks...), Site: e.where(), Seq: st.accSeq})
}
