package symex

import (
	"fmt"
	"go/types"
	"os"
	"runtime/debug"
	"sort"
	"strings"
	"sync"
	"time"

	"golang.org/x/tools/go/ssa"
	"vcheck/smt"
)

type Config struct {
	MaxSteps  int // per path
	LoopMax   int // visits of one block per frame
	MaxAlloc  int // concretisation bound for symbolic lengths
	MaxPaths  int
	MaxDepth  int
	MaxEnum   int               // max feasible values enumerated for a symbolic index/length
	Stubs     map[string]string // callee (ssa full name) -> harness function name (same package as harness)
	Havoc     map[string]bool   // callee full names whose calls are replaced by fresh results
	InitPkgs  map[string]bool   // extra packages whose init is interpreted
	NoInterp  map[string]bool   // extra package path prefixes never interpreted (havoc+log)
	Deadline  time.Time
	WitnessEvery int // ask a model for every n-th completed path (0 = none)
	TrackAccess bool
	Params   map[string]int
	RecordMax int
}

type Violation struct {
	Label  string
	Kind   string // assert | panic | deadlock | fatal
	Msg    string
	Model  map[string]uint64
	Inputs []Input
	PathID int
	Site   string
}

type PathSummary struct {
	ID     int
	End    string
	Inputs []Input
	Obs    []Obs
	Model  map[string]uint64
	PCLen  int
	Steps  int
	Asserts []string
	Events []string
	Access []AccessRec
	Spawns map[string]SpawnInfo
}

type Result struct {
	Violations   []Violation
	Paths        []PathSummary
	NPaths       int
	Inconclusive []string
	States       int
	Transitions  int
	Obligations  int
	Discharged   int
	Funcs        map[string]int
	Havoced      map[string]int
	Uninit       map[string]int
	Reached      map[string]bool
	AssertSeen   map[string]int
	MaxLoop      int
	MaxStepsUsed int
	SampleObl    []string
	Recorded     []RecordedObl
	ForkSites    map[string]int
	InfeasibleDropped int
}

type RecordedObl struct {
	Label   string
	Asserts []*smt.Term
	Sat     bool
}

// Shared is the work list shared by the worker engines of one harness run.
type Shared struct {
	mu        sync.Mutex
	cond      *sync.Cond
	work      []*State
	active    int
	nextState int
	states    int
	abort     *engineErr
}

type Engine struct {
	sh      *Shared
	Prog    *ssa.Program
	Solver  *smt.Solver
	HPkg    *ssa.Package // harness package
	Cfg     Config
	st      *State
	Res     *Result
	stubFns map[string]*ssa.Function
	errStrT *types.Named
	base    *State
	satCache map[string]smt.Result
	Trace   bool
	inInit  int
	pendingForks []*State
	Tier    string
}

func NewEngine(prog *ssa.Program, hpkg *ssa.Package, solver *smt.Solver, cfg Config) *Engine {
	if cfg.MaxSteps == 0 {
		cfg.MaxSteps = 2000000
	}
	if cfg.LoopMax == 0 {
		cfg.LoopMax = 70000
	}
	if cfg.MaxAlloc == 0 {
		cfg.MaxAlloc = 64
	}
	if cfg.MaxPaths == 0 {
		cfg.MaxPaths = 200000
	}
	if cfg.MaxDepth == 0 {
		cfg.MaxDepth = 200
	}
	if cfg.MaxEnum == 0 {
		cfg.MaxEnum = 300
	}
	e := &Engine{Prog: prog, HPkg: hpkg, Solver: solver, Cfg: cfg, stubFns: map[string]*ssa.Function{}}
	e.Res = &Result{Funcs: map[string]int{}, Havoced: map[string]int{}, Uninit: map[string]int{}, Reached: map[string]bool{}, AssertSeen: map[string]int{}}
	if ep := prog.ImportedPackage("errors"); ep != nil {
		if t := ep.Type("errorString"); t != nil {
			e.errStrT, _ = t.Type().(*types.Named)
		}
	}
	return e
}

func (e *Engine) unsupported(format string, a ...interface{}) {
	panic(engineErr{"unsupported", fmt.Sprintf(format, a...)})
}

// ---- solver interface ----

func (e *Engine) relevant(goal ...*smt.Term) []*smt.Term {
	vars := map[uint64]bool{}
	for _, g := range goal {
		for _, v := range g.Vars() {
			vars[v] = true
		}
	}
	pc := e.st.pc
	used := make([]bool, len(pc))
	out := []*smt.Term{}
	for changed := true; changed; {
		changed = false
		for i, c := range pc {
			if used[i] {
				continue
			}
			hit := false
			for _, v := range c.Vars() {
				if vars[v] {
					hit = true
					break
				}
			}
			if hit {
				used[i] = true
				changed = true
				out = append(out, c)
				for _, v := range c.Vars() {
					vars[v] = true
				}
			}
		}
	}
	return out
}

// sat decides pc ∧ extra. Unknown aborts the harness as inconclusive.
func (e *Engine) sat(wantModel bool, extra ...*smt.Term) (bool, map[string]uint64) {
	for _, x := range extra {
		if x.IsFalse() {
			return false, nil
		}
	}
	as := e.relevant(extra...)
	if wantModel {
		as = append([]*smt.Term(nil), e.st.pc...)
	}
	for _, x := range extra {
		if !x.IsTrue() {
			as = append(as, x)
		}
	}
	if len(as) == 0 {
		return true, map[string]uint64{}
	}
	var key string
	if !wantModel {
		ids := make([]uint64, len(as))
		for i, a := range as {
			ids[i] = a.ID
		}
		sort.Slice(ids, func(i, j int) bool { return ids[i] < ids[j] })
		key = fmt.Sprint(ids)
		if e.satCache == nil {
			e.satCache = map[string]smt.Result{}
		}
		if r, ok := e.satCache[key]; ok {
			return r == smt.Sat, nil
		}
	}
	r, m := e.Solver.Check(as, wantModel)
	if r == smt.Unknown {
		panic(engineErr{"solver", "solver answered unknown/error"})
	}
	if !wantModel {
		e.satCache[key] = r
	}
	return r == smt.Sat, m
}

// choose decides a symbolic branch, forking when both sides are feasible.
func (e *Engine) choose(c *smt.Term) bool {
	if c.IsConst() {
		return c.IsTrue()
	}
	st := e.st
	if len(st.pending) > 0 {
		d := st.pending[0]
		st.pending = st.pending[1:]
		st.taken = append(st.taken, d)
		if d == 1 {
			st.addPC(c)
			return true
		}
		st.addPC(smt.Not(c))
		return false
	}
	// every decision (also the one-sided ones) is recorded so that a sibling forked later in the
	// same instruction replays the same sequence
	ft, _ := e.sat(false, c)
	if !ft {
		// pc is satisfiable (invariant), so ¬c holds on this path; record it to help later slicing
		st.addPC(smt.Not(c))
		st.taken = append(st.taken, 0)
		return false
	}
	ff, _ := e.sat(false, smt.Not(c))
	if !ff {
		st.addPC(c)
		st.taken = append(st.taken, 1)
		return true
	}
	e.Res.Transitions++
	cl := e.fork()
	cl.pending = append(append([]int64(nil), st.taken...), 0)
	e.publish()
	st.taken = append(st.taken, 1)
	st.addPC(c)
	return true
}

func (e *Engine) fork() *State {
	sh := e.sh
	sh.mu.Lock()
	sh.nextState++
	sh.states++
	id := sh.nextState
	over := sh.states > e.Cfg.MaxPaths
	sh.mu.Unlock()
	e.Res.States++
	if e.Res.ForkSites == nil {
		e.Res.ForkSites = map[string]int{}
	}
	e.Res.ForkSites[e.where()]++
	if over {
		panic(engineErr{"bound", fmt.Sprintf("path budget %d exceeded", e.Cfg.MaxPaths)})
	}
	cl := e.st.clone(id)
	e.pendingForks = append(e.pendingForks, cl)
	return cl
}

// publish makes forked states visible to other workers (after the caller set their decisions).
func (e *Engine) publish() {
	if len(e.pendingForks) == 0 {
		return
	}
	sh := e.sh
	sh.mu.Lock()
	sh.work = append(sh.work, e.pendingForks...)
	sh.mu.Unlock()
	sh.cond.Broadcast()
	e.pendingForks = e.pendingForks[:0]
}

// chooseInt concretises t (signed view, width of t) by enumerating its feasible values.
// Values outside [lo,hi] must have been excluded by the caller (checked obligations).
func (e *Engine) chooseInt(t *smt.Term, what string) int64 {
	if t.IsConst() {
		return t.SConst()
	}
	st := e.st
	if len(st.pending) > 0 {
		d := st.pending[0]
		st.pending = st.pending[1:]
		st.taken = append(st.taken, d)
		st.addPC(smt.Eq(t, smt.BV(uint64(d), t.W)))
		return d
	}
	var vals []int64
	var excl []*smt.Term
	for {
		ok, m := e.satWithValue(t, excl)
		if !ok {
			break
		}
		v := m
		vals = append(vals, v)
		excl = append(excl, smt.Not(smt.Eq(t, smt.BV(uint64(v), t.W))))
		if len(vals) > e.Cfg.MaxEnum {
			panic(engineErr{"bound", fmt.Sprintf("more than %d feasible values for %s at %s", e.Cfg.MaxEnum, what, e.where())})
		}
	}
	if len(vals) == 0 {
		panic(pathEnd{"infeasible"})
	}
	sort.Slice(vals, func(i, j int) bool { return vals[i] < vals[j] })
	for _, v := range vals[1:] {
		e.Res.Transitions++
		cl := e.fork()
		cl.pending = append(append([]int64(nil), st.taken...), v)
	}
	e.publish()
	st.taken = append(st.taken, vals[0])
	st.addPC(smt.Eq(t, smt.BV(uint64(vals[0]), t.W)))
	return vals[0]
}

func (e *Engine) satWithValue(t *smt.Term, excl []*smt.Term) (bool, int64) {
	as := e.relevant(t)
	as = append(as, excl...)
	// tie the value to a fresh name so the model contains it even if t is compound
	e.st.nfresh++
	v := smt.Var(fmt.Sprintf("enum!%d!%d", e.st.ID, e.st.nfresh), t.W)
	as = append(as, smt.Eq(v, t))
	r, m := e.Solver.Check(as, true)
	if r == smt.Unknown {
		panic(engineErr{"solver", "solver answered unknown/error during enumeration"})
	}
	if r == smt.Unsat {
		return false, 0
	}
	val := m[v.Name]
	return true, smt.BV(val, t.W).SConst()
}

// ---- obligations ----

// check returns whether cond may be false (a violation exists) and the model.
func (e *Engine) mayFail(cond *smt.Term) (bool, map[string]uint64) {
	if cond.IsTrue() {
		return false, nil
	}
	e.Res.Obligations++
	ok, m := e.sat(true, smt.Not(cond))
	if len(e.Res.Recorded) < e.Cfg.RecordMax {
		as := append(append([]*smt.Term(nil), e.st.pc...), smt.Not(cond))
		e.Res.Recorded = append(e.Res.Recorded, RecordedObl{Label: e.where(), Asserts: as, Sat: ok})
	}
	if !ok {
		e.Res.Discharged++
		return false, nil
	}
	return true, m
}

func (e *Engine) where() string {
	st := e.st
	if len(st.frames) == 0 {
		return "?"
	}
	fr := st.top()
	pos := ""
	if fr.block != nil && fr.ip < len(fr.block.Instrs) {
		p := e.Prog.Fset.Position(fr.block.Instrs[fr.ip].Pos())
		if p.IsValid() {
			fn := p.Filename
			if i := strings.LastIndex(fn, "/"); i >= 0 {
				fn = fn[i+1:]
			}
			pos = fmt.Sprintf("%s:%d", fn, p.Line)
		}
	}
	return fr.fn.String() + "@" + pos
}

func (e *Engine) stack() string {
	var sb strings.Builder
	for i := len(e.st.frames) - 1; i >= 0 && i > len(e.st.frames)-12; i-- {
		sb.WriteString(e.st.frames[i].fn.String())
		sb.WriteString(" < ")
	}
	return sb.String()
}

// ---- driver ----

// Explore runs the harness on len(solvers) parallel workers sharing one work list.
func Explore(prog *ssa.Program, hpkg *ssa.Package, h *ssa.Function, cfg Config, solvers []*smt.Solver, tier string, trace bool) *Result {
	sh := &Shared{}
	sh.cond = sync.NewCond(&sh.mu)
	engines := make([]*Engine, len(solvers))
	for i, s := range solvers {
		engines[i] = NewEngine(prog, hpkg, s, cfg)
		engines[i].sh = sh
		engines[i].Tier = tier
		engines[i].Trace = trace
	}
	e0 := engines[0]
	// base state + package initialisation on worker 0
	func() {
		defer func() {
			if r := recover(); r != nil {
				if ee, ok := r.(engineErr); ok {
					sh.abort = &ee
					return
				}
				panic(r)
			}
		}()
		base := e0.newBaseState()
		e0.st = base
		e0.initPackages(h.Pkg)
		root := &Frame{fn: h, block: h.Blocks[0], regs: map[ssa.Value]Value{}, isRoot: true}
		base.frames = []*Frame{root}
		sh.work = []*State{base}
		sh.states = 1
		e0.Res.States = 1
	}()
	var wg sync.WaitGroup
	for _, e := range engines {
		wg.Add(1)
		go func(e *Engine) {
			defer wg.Done()
			e.worker()
		}(e)
	}
	wg.Wait()
	res := engines[0].Res
	for _, e := range engines[1:] {
		res.merge(e.Res)
	}
	if sh.abort != nil {
		res.Inconclusive = append(res.Inconclusive, sh.abort.Error())
	}
	return res
}

func (e *Engine) worker() {
	sh := e.sh
	for {
		sh.mu.Lock()
		for len(sh.work) == 0 && sh.active > 0 && sh.abort == nil {
			sh.cond.Wait()
		}
		if sh.abort != nil || len(sh.work) == 0 {
			sh.mu.Unlock()
			sh.cond.Broadcast()
			return
		}
		st := sh.work[len(sh.work)-1]
		sh.work = sh.work[:len(sh.work)-1]
		sh.active++
		sh.mu.Unlock()
		func() {
			defer func() {
				if r := recover(); r != nil {
					sh.mu.Lock()
					if ee, ok := r.(engineErr); ok {
						if sh.abort == nil {
							sh.abort = &ee
						}
					} else if sh.abort == nil {
						sh.abort = &engineErr{"internal", fmt.Sprint(r)}
					}
					sh.mu.Unlock()
				}
			}()
			e.st = st
			e.runPath()
			if !e.Cfg.Deadline.IsZero() && time.Now().After(e.Cfg.Deadline) {
				panic(engineErr{"bound", "wall-clock budget exceeded"})
			}
		}()
		e.pendingForks = e.pendingForks[:0]
		sh.mu.Lock()
		sh.active--
		sh.mu.Unlock()
		sh.cond.Broadcast()
	}
}

func (r *Result) merge(o *Result) {
	r.Violations = append(r.Violations, o.Violations...)
	r.Paths = append(r.Paths, o.Paths...)
	r.NPaths += o.NPaths
	r.Inconclusive = append(r.Inconclusive, o.Inconclusive...)
	r.States += o.States
	r.Transitions += o.Transitions
	r.Obligations += o.Obligations
	r.InfeasibleDropped += o.InfeasibleDropped
	r.Discharged += o.Discharged
	for k, v := range o.Funcs {
		r.Funcs[k] += v
	}
	for k, v := range o.Havoced {
		r.Havoced[k] += v
	}
	for k, v := range o.Uninit {
		r.Uninit[k] += v
	}
	for k, v := range o.Reached {
		if v {
			r.Reached[k] = true
		}
	}
	for k, v := range o.AssertSeen {
		r.AssertSeen[k] += v
	}
	if o.MaxLoop > r.MaxLoop {
		r.MaxLoop = o.MaxLoop
	}
	if o.MaxStepsUsed > r.MaxStepsUsed {
		r.MaxStepsUsed = o.MaxStepsUsed
	}
	r.SampleObl = append(r.SampleObl, o.SampleObl...)
	if r.ForkSites == nil {
		r.ForkSites = map[string]int{}
	}
	for k, v := range o.ForkSites {
		r.ForkSites[k] += v
	}
	r.Recorded = append(r.Recorded, o.Recorded...)
}

func (e *Engine) newBaseState() *State {
	return &State{heap: map[int]*Object{}, epoch: newEpoch(), globals: map[*ssa.Global]int{},
		inited: map[*ssa.Package]bool{}, reached: map[string]bool{}, ghost: map[string]int64{}, thread: "main",
		trackAccess: e.Cfg.TrackAccess, curGor: Gor{isMain: true, thread: "main"}}
}

func (e *Engine) runPath() {
	st := e.st
	end := ""
	func() {
		defer func() {
			if r := recover(); r != nil {
				if pe, ok := r.(pathEnd); ok {
					end = pe.reason
					return
				}
				if ee, ok := r.(engineErr); ok {
					ee.Msg += " [at " + e.where() + " stack: " + e.stack() + "]"
					panic(ee)
				}
				if os.Getenv("VP_DEBUG") != "" {
					fmt.Println("ENGINE PANIC:", r)
					fmt.Println(string(debug.Stack()))
				}
				panic(fmt.Sprintf("%v [at %s stack: %s]", r, e.where(), e.stack()))
			}
		}()
		for len(st.frames) > 0 {
			e.step()
		}
		if n := e.unfinishedOthers(); n > 0 {
			st.events = append(st.events, fmt.Sprintf("goroutines-left:%d", n))
		}
		end = "return"
	}()
	e.finishPath(end)
}

func (e *Engine) finishPath(end string) {
	st := e.st
	e.Res.NPaths++
	if end == "infeasible" {
		return
	}
	if st.steps > e.Res.MaxStepsUsed {
		e.Res.MaxStepsUsed = st.steps
	}
	for k := range st.reached {
		e.Res.Reached[k] = true
	}
	ps := PathSummary{ID: st.ID, End: end, Inputs: st.inputs, Obs: st.obs, PCLen: len(st.pc), Steps: st.steps, Asserts: st.asserts, Events: st.events, Access: st.access, Spawns: st.spawns}
	want := e.Cfg.WitnessEvery > 0 && (e.Res.NPaths%e.Cfg.WitnessEvery == 0 || len(e.Res.Paths) < 8)
	if want && end == "return" {
		ok, m := e.sat(true)
		if ok {
			ps.Model = m
		}
	}
	if len(e.Res.Paths) < 4000 || ps.Model != nil {
		e.Res.Paths = append(e.Res.Paths, ps)
	}
}

func (e *Engine) violation(kind, label, msg string, model map[string]uint64) {
	st := e.st
	for _, v := range e.Res.Violations {
		if v.Label == label && v.Kind == kind && len(e.Res.Violations) > 50 {
			return // keep the list bounded per label once it is long
		}
	}
	e.Res.Violations = append(e.Res.Violations, Violation{Label: label, Kind: kind, Msg: msg, Model: model,
		Inputs: append([]Input(nil), st.inputs...), PathID: st.ID, Site: e.where()})
}

// step executes one instruction of the top frame.
func (e *Engine) step() {
	st := e.st
	fr := st.top()
	st.steps++
	st.progress++
	if st.steps > e.Cfg.MaxSteps {
		panic(engineErr{"bound", fmt.Sprintf("step budget %d exceeded", e.Cfg.MaxSteps)})
	}
	if st.panicking != nil {
		e.unwind()
		return
	}
	if len(st.pending) == 0 {
		st.taken = st.taken[:0]
		st.replaying = false
	} else {
		st.replaying = true
	}
	if fr.recovering {
		// a deferred call recovered a panic: run the remaining defers, then return via the Recover block
		if len(fr.defers) > 0 {
			d := fr.defers[len(fr.defers)-1]
			fr.defers = fr.defers[:len(fr.defers)-1]
			e.invokeDeferred(fr, d, nil)
			return
		}
		fr.recovering = false
		if fr.fn.Recover != nil {
			fr.prev = fr.block
			fr.block = fr.fn.Recover
			fr.ip = 0
			return
		}
		e.doReturn(fr, zeroResults(fr.fn.Signature))
		return
	}
	instr := fr.block.Instrs[fr.ip]
	if e.Trace {
		fmt.Printf("[%d] %s: %s\n", st.ID, fr.fn.Name(), instr)
	}
	e.exec(fr, instr)
}

func (e *Engine) jump(fr *Frame, to *ssa.BasicBlock) {
	fr.prev = fr.block
	fr.block = to
	fr.ip = 0
	if fr.visits == nil {
		fr.visits = map[*ssa.BasicBlock]int{}
	}
	fr.visits[to]++
	if n := fr.visits[to]; n > e.Res.MaxLoop {
		e.Res.MaxLoop = n
	}
	if fr.visits[to] > e.Cfg.LoopMax {
		panic(engineErr{"bound", fmt.Sprintf("loop budget %d exceeded in %s", e.Cfg.LoopMax, fr.fn)})
	}
}

// ---- panics and unwinding ----

func (e *Engine) goPanic(kind, msg string, val Value) {
	st := e.st
	if val == nil {
		val = e.newError("runtime error: " + msg)
	}
	st.panicking = &PanicInfo{Kind: kind, Msg: msg, Val: val, Site: e.where()}
}

// panicIf adds a runtime-panic obligation: if `bad` is feasible a panicking sibling state is
// forked; the current state continues with ¬bad.
func (e *Engine) panicIf(bad *smt.Term, kind, msg string) {
	if bad.IsFalse() {
		return
	}
	if bad.IsTrue() {
		e.goPanic(kind, msg, nil)
		panic(instrAbort{})
	}
	if e.choose(bad) {
		e.goPanic(kind, msg, nil)
		panic(instrAbort{})
	}
}

type instrAbort struct{}

func (e *Engine) unwind() {
	st := e.st
	fr := st.top()
	// run pending defers of this frame
	if len(fr.defers) > 0 {
		d := fr.defers[len(fr.defers)-1]
		fr.defers = fr.defers[:len(fr.defers)-1]
		pi := st.panicking
		st.panicking = nil
		fr.runningDefers = true
		e.invokeDeferred(fr, d, pi)
		return
	}
	if fr.isRoot || fr.isTaskRoot {
		pi := st.panicking
		label := "panic:" + pi.Kind + "@" + siteFunc(pi.Site)
		if pi.Kind == "fatal" {
			st.events = append(st.events, "fatal-exit")
			panic(pathEnd{"fatal-exit"})
		}
		ok, m := e.sat(true)
		if !ok {
			// the path condition is unsatisfiable: this panic is not reachable (a sliced feasibility
			// check upstream was too coarse); drop the path instead of reporting it
			if os.Getenv("VP_DEBUG") != "" {
				fmt.Println("DEBUG infeasible panic path", label, pi.Msg, pi.Site)
				for _, c := range st.pc {
					fmt.Println("   pc:", c.String())
				}
			}
			e.Res.InfeasibleDropped++
			panic(pathEnd{"infeasible"})
		}
		e.violation("panic", label, pi.Msg+" at "+pi.Site, m)
		panic(pathEnd{"panic"})
	}
	st.frames = st.frames[:len(st.frames)-1]
	if fr.isDeferCall {
		// a deferred call itself panicked: continue unwinding in the parent with the new panic
		return
	}
}

func siteFunc(site string) string {
	if i := strings.Index(site, "@"); i >= 0 {
		return site[:i]
	}
	return site
}

// invokeDeferred calls a deferred function; pi is the panic in flight (or nil).
func (e *Engine) invokeDeferred(fr *Frame, d deferred, pi *PanicInfo) {
	st := e.st
	before := len(st.frames)
	e.callValue(fr, nil, d.fn, d.iface, d.meth, d.bi, d.args, true)
	if len(st.frames) > before {
		nf := st.top()
		nf.isDeferCall = true
		nf.pendingPanic = pi
	} else {
		// intrinsic/builtin deferred call finished immediately
		if pi != nil && st.panicking == nil {
			st.panicking = pi
		}
	}
}

func zeroResults(sig *types.Signature) Value {
	r := sig.Results()
	switch r.Len() {
	case 0:
		return nil
	case 1:
		return zeroValue(r.At(0).Type())
	}
	return zeroValue(r)
}
