package symex

import (
	"fmt"
	"go/types"
	"strings"

	"golang.org/x/tools/go/ssa"
	"vcheck/smt"
)

type prepared struct {
	fn    Closure
	args  []Value
	iface *Iface
	meth  *types.Func
	bi    *ssa.Builtin
}

func (e *Engine) prepCall(fr *Frame, cc *ssa.CallCommon) prepared {
	args := make([]Value, len(cc.Args))
	for i, a := range cc.Args {
		args[i] = e.val(fr, a)
	}
	if cc.IsInvoke() {
		recv, ok := e.val(fr, cc.Value).(Iface)
		if !ok {
			e.unsupported("invoke on non-interface value")
		}
		return prepared{iface: &recv, meth: cc.Method, args: args}
	}
	if b, ok := cc.Value.(*ssa.Builtin); ok {
		return prepared{bi: b, args: args}
	}
	cl, ok := e.val(fr, cc.Value).(Closure)
	if !ok {
		e.unsupported("call of non-function value %s", showValue(e.val(fr, cc.Value)))
	}
	return prepared{fn: cl, args: args}
}

func (e *Engine) call(fr *Frame, in *ssa.Call, cc *ssa.CallCommon) {
	p := e.prepCall(fr, cc)
	e.callValue(fr, in, p.fn, p.iface, p.meth, p.bi, p.args, false)
}

// finish stores an immediate result of a call that did not push a frame.
func (e *Engine) finish(fr *Frame, ret ssa.Value, res Value, noAdvance bool) {
	if ret != nil {
		fr.regs[ret] = res
	}
	if !noAdvance {
		fr.ip++
	}
}

// Interpretation policy -------------------------------------------------------------

var interpPkgs = map[string]bool{
	"bytes": true, "strings": true, "strconv": true, "unicode/utf8": true, "unicode/utf16": true,
	"unicode": true, "errors": true, "io": true, "sort": true, "slices": true, "math/bits": true,
	"encoding/binary": true, "encoding/hex": true, "encoding/base64": true, "time": true,
	"context": true, "net": true, "net/url": true, "bufio": true, "internal/stringslite": true,
	"internal/itoa": true, "internal/byteorder": true, "cmp": true, "maps": true, "math": true,
	"internal/bytealg": true, "internal/abi": true, "sync/atomic": true, "sync": true, "unsafe": true,
	"crypto/subtle": true, "crypto/internal/alias": true, "path": true, "path/filepath": true, "internal/filepathlite": true,
	"github.com/go-jose/go-jose/v4/jwt": true,
	"github.com/m7913d/go-ntlm/ntlm":    true,
	"net/textproto":                     true, "net/http/internal": true, "net/netip": true, "github.com/google/uuid": true, "github.com/go-jose/go-jose/v4": true, "math/big": true, "internal/godebug": false,
}

var initPkgs = map[string]bool{
	"errors": true, "io": true, "strconv": true, "unicode/utf8": true, "unicode/utf16": true, "bytes": true,
	"strings": true, "encoding/binary": true, "encoding/hex": true, "encoding/base64": true, "sort": true,
	"math/bits": true, "time": true, "context": true, "bufio": true, "net/http/internal": true, "net/netip": true, "net": true,
	"github.com/go-jose/go-jose/v4/jwt": true, "github.com/m7913d/go-ntlm/ntlm": true,
}

const modulePrefix = "github.com/bolkedebruin/rdpgw"

func (e *Engine) mayInterp(fn *ssa.Function) bool {
	pkg := fn.Pkg
	if pkg == nil {
		// synthetic wrappers / instantiations: use the package of the origin or the receiver
		if o := fn.Origin(); o != nil && o.Pkg != nil {
			pkg = o.Pkg
		} else if fn.Object() != nil && fn.Object().Pkg() != nil {
			return e.pathAllowed(fn.Object().Pkg().Path())
		} else if fn.Signature.Recv() != nil {
			t := fn.Signature.Recv().Type()
			if p, ok := t.(*types.Pointer); ok {
				t = p.Elem()
			}
			if n, ok := t.(*types.Named); ok && n.Obj().Pkg() != nil {
				return e.pathAllowed(n.Obj().Pkg().Path())
			}
			return true
		} else {
			return true // bound-method closures, thunks
		}
	}
	return e.pathAllowed(pkg.Pkg.Path())
}

func (e *Engine) pathAllowed(path string) bool {
	if strings.HasPrefix(path, modulePrefix) {
		return true
	}
	for p := range e.Cfg.NoInterp {
		if strings.HasPrefix(path, p) {
			return false
		}
	}
	if e.Cfg.InitPkgs[path] {
		return true
	}
	return interpPkgs[path]
}

// callValue dispatches a call. ret is the SSA value receiving the result (nil to discard).
func (e *Engine) callValue(fr *Frame, ret ssa.Value, cl Closure, iface *Iface, meth *types.Func, bi *ssa.Builtin, args []Value, noAdvance bool) {
	if bi != nil {
		res := e.builtin(fr, bi, args)
		e.finish(fr, ret, res, noAdvance)
		return
	}
	var fn *ssa.Function
	var binds []Value
	if iface != nil {
		if iface.T == nil {
			e.goPanic("nil", "invalid memory address or nil pointer dereference (method call on nil interface "+meth.Name()+")", nil)
			panic(instrAbort{})
		}
		ms := e.Prog.MethodSets.MethodSet(iface.T)
		sel := ms.Lookup(meth.Pkg(), meth.Name())
		if sel == nil {
			e.unsupported("method %s not found on %s", meth.Name(), iface.T)
		}
		fn = e.Prog.MethodValue(sel)
		if fn == nil {
			e.unsupported("no ssa function for method %s of %s", meth.Name(), iface.T)
		}
		args = append([]Value{iface.V}, args...)
	} else {
		if cl.Fn == nil {
			e.goPanic("nil", "invalid memory address or nil pointer dereference (call of nil func)", nil)
			panic(instrAbort{})
		}
		fn = cl.Fn
		binds = cl.Binds
	}
	e.invoke(fr, ret, fn, binds, args, noAdvance)
}

func (e *Engine) invoke(fr *Frame, ret ssa.Value, fn *ssa.Function, binds []Value, args []Value, noAdvance bool) {
	name := fn.String()
	// 1. vp primitives
	if strings.HasPrefix(fn.Name(), "vp") && fn.Pkg != nil {
		if h, ok := vpPrims[fn.Name()]; ok {
			res, done := h(e, fr, args)
			if done {
				e.finish(fr, ret, res, noAdvance)
			}
			return
		}
	}
	// 2. harness stubs
	if target, ok := e.Cfg.Stubs[name]; ok && !(fr != nil && fr.fn != nil && fr.fn.Name() == target) {
		// (a stub may call the function it stands in for: that call is not redirected again)
		sf := e.lookupHarnessFunc(target)
		if sf == nil {
			e.unsupported("stub target %s not found in harness package", target)
		}
		e.Res.Funcs["stub:"+name]++
		if strings.HasPrefix(name, "log.Fatal") && fr != nil && fr.fn != nil && fr.fn.Pkg != nil && sf.Pkg != nil && fr.fn.Pkg != sf.Pkg {
			// a native stub rewrites the harness's own package only: this log.Fatal of another package ends the
			// native process, while the symbolic side hands it to the harness's stand-in
			e.st.events = append(e.st.events, "process-exit")
		}
		fn = sf
		binds = nil
		name = fn.String()
	} else if e.Cfg.Havoc[name] {
		e.Res.Havoced[name]++
		res := e.havocResult(fn.Signature.Results(), name)
		e.finish(fr, ret, res, noAdvance)
		return
	} else if target, ok := modelFuncs[name]; ok {
		if sf := e.lookupHarnessFunc(target); sf != nil {
			fn = sf
			binds = nil
			name = fn.String()
		}
	}
	// 3. engine intrinsics
	if strings.Contains(name, "[") {
		if res, ok := e.genericIntrinsic(fn, args); ok {
			e.finish(fr, ret, res, noAdvance)
			return
		}
	}
	if h, ok := intrinsicsExtra[name]; ok {
		res, done := h(e, fr, args)
		if done {
			e.finish(fr, ret, res, noAdvance)
		}
		return
	}
	if h, ok := intrinsics[name]; ok {
		res, done := h(e, fr, args)
		if done {
			e.finish(fr, ret, res, noAdvance)
		}
		return
	}
	if pkgPathOf(fn) == "log" {
		if strings.Contains(fn.Name(), "Fatal") {
			// (not stubbed by the harness: natively the process exits here)
			e.st.events = append(e.st.events, "process-exit")
			e.goPanic("fatal", "log.Fatal", e.fatalValue())
			panic(instrAbort{})
		}
		if strings.Contains(fn.Name(), "Panic") {
			e.goPanic("explicit", "log.Panic", nil)
			panic(instrAbort{})
		}
		e.finish(fr, ret, zeroResults(fn.Signature), noAdvance)
		return
	}
	if e.inInit > 0 {
		if fn.Name() == "init" && fn.Pkg != fr.fn.Pkg {
			e.finish(fr, ret, nil, noAdvance)
			return
		}
		if fn.Pkg != nil {
			fn.Pkg.Build()
		}
		if fn.Blocks == nil || !e.mayInterp(fn) {
			e.finish(fr, ret, zeroResults(fn.Signature), noAdvance)
			return
		}
	}
	// 4. interpret
	// always synchronise on the package's build (sync.Once): another harness running in this process may
	// be building the same package right now, and a half-built function must never be interpreted
	if fn.Pkg != nil {
		fn.Pkg.Build()
	} else if o := fn.Origin(); o != nil && o.Pkg != nil {
		o.Pkg.Build()
	}
	if fn.Blocks == nil || !(e.mayInterp(fn) || interpFuncs[name]) {
		why := "no body"
		if fn.Blocks != nil {
			why = "package not in the interpretation whitelist"
		}
		e.unsupported("call to %s (%s): add //vp:stub, //vp:havoc or an intrinsic", name, why)
	}
	if len(e.st.frames) > e.Cfg.MaxDepth {
		panic(engineErr{"bound", "call depth exceeded"})
	}
	e.Res.Funcs[name]++
	nf := &Frame{fn: fn, block: fn.Blocks[0], regs: make(map[ssa.Value]Value, 16), binds: binds}
	if len(args) != len(fn.Params) {
		e.unsupported("arity mismatch calling %s: %d args for %d params", name, len(args), len(fn.Params))
	}
	for i, p := range fn.Params {
		nf.regs[p] = args[i]
	}
	if !noAdvance {
		nf.retInstr = ret
		if ret == nil {
			nf.discard = true
		}
	} else {
		nf.noAdvance = true
	}
	e.st.frames = append(e.st.frames, nf)
	e.st.taken = e.st.taken[:0]
}

// fatalValue is the panic value standing for a fatal exit: the harness package's vpFatalT.
func (e *Engine) fatalValue() Value {
	if e.HPkg != nil {
		if t := e.HPkg.Type("vpFatalT"); t != nil {
			return Iface{T: t.Type(), V: &StructV{}}
		}
	}
	return nil
}

func pkgPathOf(fn *ssa.Function) string {
	if fn.Pkg != nil {
		return fn.Pkg.Pkg.Path()
	}
	if fn.Object() != nil && fn.Object().Pkg() != nil {
		return fn.Object().Pkg().Path()
	}
	return ""
}

func (e *Engine) lookupHarnessFunc(name string) *ssa.Function {
	if f, ok := e.stubFns[name]; ok {
		return f
	}
	var f *ssa.Function
	if e.HPkg != nil {
		f = e.HPkg.Func(name)
	}
	if f != nil && f.Pkg != nil {
		f.Pkg.Build()
	}
	e.stubFns[name] = f
	return f
}

// modelFuncs maps library functions to Go-source models in the harness prelude.
var modelFuncs = map[string]string{
	"encoding/binary.Read":      "vpmBinaryRead",
	"strings.IndexAny":          "vpmIndexAny",
	"crypto/sha256.Sum256":      "vpmSha256Sum256",
	"errors.As":                 "vpmErrorsAs",
	"sort.Slice":                "vpmSortSlice",
	"sort.SliceStable":          "vpmSortSlice",
	"crypto/hmac.New":           "vpmHmacNew",
	"crypto/hmac.Equal":         "vpmHmacEqual",
	"crypto/sha1.Sum":           "vpmSha1Sum",
	"crypto/md5.Sum":            "vpmMd5Sum",
	"strings.ContainsAny":       "vpmContainsAny",
	"encoding/binary.Write":     "vpmBinaryWrite",
	"fmt.Sprintf":               "vpmSprintf",
	"fmt.Errorf":                "vpmErrorf",
	"fmt.Fprintf":               "vpmFprintf",
	"fmt.Fprint":                "vpmFprint",
	"fmt.Sprint":                "vpmSprint",
	"context.WithValue":         "vpmWithValue",
	"errors.Is":                 "vpmErrorsIs",
	"net/http.Error":            "vpmHttpError",
	"net/http.Redirect":         "vpmRedirect",
	"(net/http.Header).Get":     "vpmHeaderGet",
	"(net/http.Header).Add":     "vpmHeaderAdd",
	"(net/http.Header).Set":     "vpmHeaderSet",
	"(net/http.Header).Del":     "vpmHeaderDel",
	"(net/http.Header).Values":  "vpmHeaderValues",
	"context.WithTimeout":       "vpmWithTimeout",
	"context.WithDeadline":      "vpmWithDeadline",
	"context.WithCancel":        "vpmWithCancel",
	"(*sync.Map).Load":          "vpmSyncMapLoad",
	"(*sync.Map).Store":         "vpmSyncMapStore",
	"(*sync.Map).LoadOrStore":   "vpmSyncMapLoadOrStore",
	"(*sync.Map).Delete":        "vpmSyncMapDelete",
	"(*sync.Map).LoadAndDelete": "vpmSyncMapLoadAndDelete",
	"(*sync.Map).Range":         "vpmSyncMapRange",
	"(*sync.Pool).Get":          "vpmPoolGet",
	"(*sync.Pool).Put":          "vpmPoolPut",
}

// interpFuncs: individual functions of otherwise non-interpreted packages that are plain Go.
var interpFuncs = map[string]bool{
	"(*net/http.Request).Context":      true,
	"(*net/http.Request).WithContext":  true,
	"(net/http.HandlerFunc).ServeHTTP": true,
	"net/http/httputil.NewChunkedReader": true,
	// pure helpers of gorilla/websocket (no connection state)
	"github.com/gorilla/websocket.FormatCloseMessage":     true,
	"github.com/gorilla/websocket.IsCloseError":           true,
	"github.com/gorilla/websocket.IsUnexpectedCloseError": true,
	"(*github.com/gorilla/websocket.CloseError).Error":    true,
}

func (e *Engine) freshVar(prefix string, w uint8) *smt.Term {
	e.st.nfresh++
	return smt.Var(fmt.Sprintf("%s!%d!%d", prefix, e.st.ID, e.st.nfresh), w)
}

func (e *Engine) havocResult(res *types.Tuple, name string) Value {
	mk := func(t types.Type) Value {
		if w := bvWidth(t); w >= 0 {
			v := e.freshVar("havoc", uint8(w))
			e.st.inputs = append(e.st.inputs, Input{Name: v.Name, Kind: "havoc", T: v})
			return v
		}
		if it, ok := t.Underlying().(*types.Interface); ok && it.NumMethods() == 1 && it.Method(0).Name() == "Error" {
			b := e.freshVar("havocerr", 0)
			e.st.inputs = append(e.st.inputs, Input{Name: b.Name, Kind: "havoc", T: b})
			if e.choose(b) {
				return e.newError("havoc error from " + name)
			}
			return Iface{}
		}
		e.unsupported("havoc of non-scalar result %s of %s", t, name)
		return nil
	}
	switch res.Len() {
	case 0:
		return nil
	case 1:
		return mk(res.At(0).Type())
	}
	t := make(Tuple, res.Len())
	for i := range t {
		t[i] = mk(res.At(i).Type())
	}
	return t
}

func (e *Engine) newError(msg string) Value {
	if e.errStrT == nil {
		return Iface{T: types.Typ[types.String], V: ConstStr(msg)}
	}
	sv := &StructV{F: []Value{ConstStr(msg)}}
	id := e.st.alloc(sv, e.errStrT, "error")
	return Iface{T: types.NewPointer(e.errStrT), V: Ptr{Obj: id}}
}

// ---- builtins ----

func (e *Engine) builtin(fr *Frame, b *ssa.Builtin, args []Value) Value {
	switch b.Name() {
	case "len":
		switch x := args[0].(type) {
		case Str:
			return smt.BV(uint64(len(x.B)), 64)
		case Slice:
			return smt.BV(uint64(x.Len), 64)
		case MapRef:
			if x.Obj == 0 {
				return smt.BV(0, 64)
			}
			return smt.BV(uint64(len(e.st.obj(x.Obj).Val.(*MapV).E)), 64)
		case ChanRef:
			if x.Obj == 0 {
				return smt.BV(0, 64)
			}
			return smt.BV(uint64(len(e.st.obj(x.Obj).Val.(*ChanV).Buf)), 64)
		case *ArrayV:
			return smt.BV(uint64(len(x.E)), 64)
		case Ptr:
			// pointer to array
			if a, ok := e.st.loadRef(x).(*ArrayV); ok {
				return smt.BV(uint64(len(a.E)), 64)
			}
		}
	case "cap":
		switch x := args[0].(type) {
		case Slice:
			return smt.BV(uint64(x.Cap), 64)
		case ChanRef:
			if x.Obj == 0 {
				return smt.BV(0, 64)
			}
			return smt.BV(uint64(e.st.obj(x.Obj).Val.(*ChanV).Cap), 64)
		case *ArrayV:
			return smt.BV(uint64(len(x.E)), 64)
		}
	case "append":
		return e.appendBuiltin(args)
	case "copy":
		return e.copyBuiltin(args)
	case "delete":
		e.mapDelete(args[0].(MapRef), args[1])
		return nil
	case "close":
		c := args[0].(ChanRef)
		if c.Obj == 0 {
			e.goPanic("explicit", "close of nil channel", nil)
			panic(instrAbort{})
		}
		o := e.st.writable(c.Obj)
		ch := o.Val.(*ChanV)
		if ch.Closed {
			e.goPanic("closedchan", "close of closed channel", nil)
			panic(instrAbort{})
		}
		ch.Closed = true
		return nil
	case "recover":
		// valid only when called directly by a deferred function during panicking
		if fr.isDeferCall && fr.pendingPanic != nil {
			pi := fr.pendingPanic
			fr.pendingPanic = nil
			st := e.st
			if len(st.frames) >= 2 {
				st.frames[len(st.frames)-2].recovering = true
			}
			if iv, ok := pi.Val.(Iface); ok {
				return iv
			}
			return e.newError(pi.Msg)
		}
		return Iface{}
	case "print", "println":
		return nil
	case "min", "max":
		r := args[0].(*smt.Term)
		signed := isSigned(b.Type().(*types.Signature).Params().At(0).Type())
		for _, a := range args[1:] {
			t := a.(*smt.Term)
			var lt *smt.Term
			if signed {
				lt = smt.Cmp(smt.OpSlt, t, r)
			} else {
				lt = smt.Cmp(smt.OpUlt, t, r)
			}
			if b.Name() == "max" {
				lt = smt.Not(smt.BOr(lt, smt.Eq(t, r)))
				// t > r
			}
			r = smt.Ite(lt, t, r)
		}
		return r
	case "clear":
		switch x := args[0].(type) {
		case MapRef:
			if x.Obj != 0 {
				o := e.st.writable(x.Obj)
				o.Val = &MapV{}
			}
			return nil
		case Slice:
			if x.Len > 0 {
				var et types.Type
				if sig, ok := b.Type().(*types.Signature); ok && sig.Params().Len() == 1 {
					if st, ok := sig.Params().At(0).Type().Underlying().(*types.Slice); ok {
						et = st.Elem()
					}
				}
				if et == nil {
					e.unsupported("clear: cannot determine the element type")
				}
				a := e.st.arrayForWrite(x.Arr)
				for i := 0; i < x.Len; i++ {
					a.E[x.Off+i] = zeroValue(et)
				}
			}
			return nil
		}
	case "ssa:wrapnilchk":
		p := args[0].(Ptr)
		if p.IsNil() {
			e.goPanic("nil", "value method called using nil pointer", nil)
			panic(instrAbort{})
		}
		return p
	case "String": // unsafe.String(ptr *byte, len)
		p := args[0].(Ptr)
		n := int(e.concInt(args[1].(*smt.Term), "unsafe.String len"))
		if n == 0 {
			return Str{}
		}
		if p.IsNil() || len(p.Path) == 0 {
			e.unsupported("unsafe.String on non-element pointer")
		}
		arr := Ptr{Obj: p.Obj, Path: p.Path[:len(p.Path)-1]}
		off := p.Path[len(p.Path)-1]
		return Str{e.sliceTerms(Slice{Arr: arr, Off: off, Len: n, Cap: n})}
	case "SliceData":
		s := args[0].(Slice)
		if s.Arr.Obj == 0 {
			return Ptr{}
		}
		if s.Cap == 0 {
			return s.Arr.Sub(0)
		}
		return s.Arr.Sub(s.Off)
	case "StringData":
		s := args[0].(Str)
		if len(s.B) == 0 {
			return Ptr{}
		}
		sl := e.newByteSlice(s.B, len(s.B))
		return sl.Arr.Sub(0)
	case "Slice": // unsafe.Slice(ptr, len)
		p := args[0].(Ptr)
		n := int(e.concInt(args[1].(*smt.Term), "unsafe.Slice len"))
		if p.IsNil() {
			return Slice{}
		}
		if len(p.Path) == 0 {
			e.unsupported("unsafe.Slice on non-element pointer")
		}
		arr := Ptr{Obj: p.Obj, Path: p.Path[:len(p.Path)-1]}
		off := p.Path[len(p.Path)-1]
		return Slice{Arr: arr, Off: off, Len: n, Cap: n}
	}
	e.unsupported("builtin %s on %T", b.Name(), args[0])
	return nil
}

func (e *Engine) appendBuiltin(args []Value) Value {
	s := args[0].(Slice)
	var add []Value
	switch x := args[1].(type) {
	case Slice:
		if x.Len > 0 {
			a := e.st.arrayForRead(x.Arr)
			add = make([]Value, x.Len)
			for i := 0; i < x.Len; i++ {
				add[i] = deepCopy(a.E[x.Off+i])
			}
		}
	case Str:
		add = make([]Value, len(x.B))
		for i, b := range x.B {
			add[i] = b
		}
	default:
		e.unsupported("append second arg %T", args[1])
	}
	if len(add) == 0 {
		return s
	}
	need := s.Len + len(add)
	if s.Arr.Obj != 0 && need <= s.Cap {
		a := e.st.arrayForWrite(s.Arr)
		for i, v := range add {
			a.E[s.Off+s.Len+i] = v
			// writing into spare capacity is a write to shared memory like any other (lockset)
			e.recordAccess(Ptr{Obj: s.Arr.Obj, Path: append(append([]int(nil), s.Arr.Path...), s.Off+s.Len+i)}, true)
		}
		return Slice{Arr: s.Arr, Off: s.Off, Len: need, Cap: s.Cap}
	}
	// grow (approximation of runtime.growslice: doubling, rounded up to a multiple of 8)
	nc := s.Cap * 2
	if nc < need {
		nc = need
	}
	if s.Cap >= 256 {
		nc = s.Cap + (s.Cap+3*256)/4
		if nc < need {
			nc = need
		}
	}
	nc = (nc + 7) &^ 7
	arr := &ArrayV{E: make([]Value, nc)}
	var old *ArrayV
	if s.Arr.Obj != 0 && s.Len > 0 {
		old = e.st.arrayForRead(s.Arr)
	}
	var zero Value
	if old != nil {
		zero = zeroLike(old.E[s.Off])
	} else {
		zero = zeroLike(add[0])
	}
	for i := 0; i < nc; i++ {
		switch {
		case i < s.Len:
			arr.E[i] = deepCopy(old.E[s.Off+i])
		case i < need:
			arr.E[i] = add[i-s.Len]
		default:
			arr.E[i] = deepCopy(zero)
		}
	}
	id := e.st.alloc(arr, nil, "append")
	return Slice{Arr: Ptr{Obj: id}, Off: 0, Len: need, Cap: nc}
}

// zeroLike produces a zero value with the same shape as v.
func zeroLike(v Value) Value {
	switch x := v.(type) {
	case *smt.Term:
		if x.W == 0 {
			return smt.False
		}
		return smt.BV(0, x.W)
	case Str:
		return Str{}
	case Ptr:
		return Ptr{}
	case Slice:
		return Slice{}
	case MapRef:
		return MapRef{}
	case ChanRef:
		return ChanRef{}
	case Iface:
		return Iface{}
	case Closure:
		return Closure{}
	case *StructV:
		n := &StructV{F: make([]Value, len(x.F))}
		for i := range x.F {
			n.F[i] = zeroLike(x.F[i])
		}
		return n
	case *ArrayV:
		n := &ArrayV{E: make([]Value, len(x.E))}
		for i := range x.E {
			n.E[i] = zeroLike(x.E[i])
		}
		return n
	}
	return v
}

func (e *Engine) copyBuiltin(args []Value) Value {
	d := args[0].(Slice)
	var src []Value
	switch x := args[1].(type) {
	case Slice:
		n := x.Len
		if d.Len < n {
			n = d.Len
		}
		if n > 0 {
			a := e.st.arrayForRead(x.Arr)
			src = make([]Value, n)
			for i := 0; i < n; i++ {
				src[i] = deepCopy(a.E[x.Off+i])
			}
		}
	case Str:
		n := len(x.B)
		if d.Len < n {
			n = d.Len
		}
		src = make([]Value, n)
		for i := 0; i < n; i++ {
			src[i] = x.B[i]
		}
	}
	if len(src) > 0 {
		a := e.st.arrayForWrite(d.Arr)
		for i, v := range src {
			a.E[d.Off+i] = v
			e.recordAccess(Ptr{Obj: d.Arr.Obj, Path: append(append([]int(nil), d.Arr.Path...), d.Off+i)}, true)
		}
	}
	return smt.BV(uint64(len(src)), 64)
}
