package symex

import (
	"fmt"
	"go/types"
	"sync/atomic"

	"golang.org/x/tools/go/ssa"
	"vcheck/smt"
)

var epochCtr int64

func newEpoch() int { return int(atomic.AddInt64(&epochCtr, 1)) }

type deferred struct {
	fn    Closure
	args  []Value
	iface *Iface // for invoke-mode defers
	meth  *types.Func
	bi    *ssa.Builtin
	instr *ssa.Defer
}

type Frame struct {
	fn       *ssa.Function
	block    *ssa.BasicBlock
	prev     *ssa.BasicBlock
	ip       int
	regs     map[ssa.Value]Value
	binds    []Value
	params   []Value
	defers   []deferred
	retInstr ssa.Value // caller's call instruction (nil => result discarded)
	// kind of frame
	isRoot      bool // harness entry
	isTaskRoot  bool // goroutine entry run cooperatively
	isDeferCall bool // frame runs a deferred call; on return continue RunDefers/unwinding of parent
	isInit      bool
	runningDefers bool // parent frame is inside RunDefers
	visits      map[*ssa.BasicBlock]int
	recovered   bool
	locks       int
	pendingPanic *PanicInfo
	recovering  bool
	savedThread string
	discard     bool
	noAdvance   bool
}

func (f *Frame) clone() *Frame {
	n := *f
	n.regs = make(map[ssa.Value]Value, len(f.regs))
	for k, v := range f.regs {
		n.regs[k] = v
	}
	n.defers = append([]deferred(nil), f.defers...)
	if f.visits != nil {
		n.visits = make(map[*ssa.BasicBlock]int, len(f.visits))
		for k, v := range f.visits {
			n.visits[k] = v
		}
	}
	return &n
}

type Task struct {
	fn   Closure
	args []Value
	iface *Iface
	meth  *types.Func
	site string
	spawnSeq int
	parent   string
}

// Gor is a goroutine that is not currently running: its own frame stack, or a task not yet started.
type Gor struct {
	ID      int
	frames  []*Frame
	task    *Task // non-nil until first scheduled
	thread  string
	isMain  bool
	blocked bool // waiting for progress by others (retry when scheduled)
	parked  bool // can never proceed
	sleeping  bool  // inside vpSleepLong: waits for a timer to fire
	sleepBase int64 // timers fired when the sleep began
	yielding bool
	blockedAt int
	blockedOnce bool
	skipYield   bool
	locks       []int // mutexes this goroutine holds (saved while it is not running)
}

func (g *Gor) clone() *Gor {
	n := *g
	n.frames = make([]*Frame, len(g.frames))
	for i, f := range g.frames {
		n.frames[i] = f.clone()
	}
	return &n
}

type PanicInfo struct {
	Kind string // "index", "slice", "nil", "typeassert", "divide", "explicit", "nilmap", "closedchan", "fatal"
	Msg  string
	Val  Value // value passed to panic()
	Site string
}

type Input struct {
	Name string
	Kind string // "u8","u16","u32","u64","bool","range","bytes","len"
	T    *smt.Term
	Conc int64 // for forked (concretised) inputs
	IsConc bool
}

type Obs struct {
	Label string
	Terms []*smt.Term // scalar or bytes
	IsBytes bool
}

type AccessRec struct {
	Thread string
	Obj    int
	Path   string
	Typ    string
	Tag    string
	Write  bool
	Locks  []int
	Site   string
	Seq    int
}

type State struct {
	ID      int
	heap    map[int]*Object
	epoch   int
	nextObj int
	frames  []*Frame
	tasks   []*Task
	pc      []*smt.Term
	pending []int64
	taken   []int64
	globals map[*ssa.Global]int
	inited  map[*ssa.Package]bool
	panicking *PanicInfo
	steps   int
	inputs  []Input
	obs     []Obs
	reached map[string]bool
	asserts []string // labels of asserts passed on this path (for evidence)
	events  []string
	ghost   map[string]int64
	thread  string
	heldLocks []int
	access  []AccessRec
	trackAccess bool
	nfresh  int
	replaying bool
	accSeq  int
	others  []*Gor // goroutines other than the running one
	curGor  Gor   // bookkeeping of the running goroutine (frames live in State.frames)
	progress int
	nextGor int
	spawns  map[string]SpawnInfo
	timeCtr int
	ghostTerm map[string]*smt.Term
	uniques map[string][]uniqEnt // unique.Make: canonical handle per (type, value); copy-on-write
	timers  []TimerRec // time.NewTimer / time.After: fired only when no goroutine can run (see fireTimer)
}

// TimerRec is a pending timer: time passes only while every goroutine waits.
type TimerRec struct {
	Chan    int   // channel object the timer delivers on
	Dur     int64 // nanoseconds (-1: not a constant)
	Fired   bool
	Stopped bool
	Fn      *Closure // time.AfterFunc: run on a goroutine of its own when the timer fires (nothing is delivered on Chan)
	Parent  string   // logical thread that armed the timer
	Seq     int      // access sequence number at the time it was armed (what happened before is ordered before the callback)
}

func (s *State) clone(newID int) *State {
	n := *s
	n.ID = newID
	n.heap = make(map[int]*Object, len(s.heap))
	for k, v := range s.heap {
		n.heap[k] = v
	}
	s.epoch = newEpoch()
	n.epoch = newEpoch()
	n.frames = make([]*Frame, len(s.frames))
	for i, f := range s.frames {
		n.frames[i] = f.clone()
	}
	n.tasks = append([]*Task(nil), s.tasks...)
	n.others = make([]*Gor, len(s.others))
	for i, g := range s.others {
		n.others[i] = g.clone()
	}
	n.pc = append([]*smt.Term(nil), s.pc...)
	n.timers = append([]TimerRec(nil), s.timers...)
	n.pending = nil
	n.taken = nil
	n.globals = make(map[*ssa.Global]int, len(s.globals))
	for k, v := range s.globals {
		n.globals[k] = v
	}
	n.inited = make(map[*ssa.Package]bool, len(s.inited))
	for k, v := range s.inited {
		n.inited[k] = v
	}
	if s.panicking != nil {
		p := *s.panicking
		n.panicking = &p
	}
	n.inputs = append([]Input(nil), s.inputs...)
	n.obs = append([]Obs(nil), s.obs...)
	n.reached = make(map[string]bool, len(s.reached))
	for k, v := range s.reached {
		n.reached[k] = v
	}
	n.asserts = append([]string(nil), s.asserts...)
	n.events = append([]string(nil), s.events...)
	n.ghost = make(map[string]int64, len(s.ghost))
	for k, v := range s.ghost {
		n.ghost[k] = v
	}
	n.heldLocks = append([]int(nil), s.heldLocks...)
	n.spawns = make(map[string]SpawnInfo, len(s.spawns))
	for k, v := range s.spawns {
		n.spawns[k] = v
	}
	n.ghostTerm = make(map[string]*smt.Term, len(s.ghostTerm))
	for k, v := range s.ghostTerm {
		n.ghostTerm[k] = v
	}
	n.access = append([]AccessRec(nil), s.access...)
	return &n
}

func (s *State) top() *Frame { return s.frames[len(s.frames)-1] }

func (s *State) alloc(v Value, t types.Type, tag string) int {
	s.nextObj++
	id := s.nextObj
	s.heap[id] = &Object{ID: id, Val: v, Epoch: s.epoch, Typ: t, Tag: tag}
	return id
}

func (s *State) obj(id int) *Object {
	o := s.heap[id]
	if o == nil {
		panic(engineErr{"internal", fmt.Sprintf("dangling object %d", id)})
	}
	return o
}

func (s *State) writable(id int) *Object {
	o := s.obj(id)
	if o.Epoch != s.epoch {
		n := &Object{ID: id, Val: deepCopy(o.Val), Epoch: s.epoch, Typ: o.Typ, Tag: o.Tag}
		s.heap[id] = n
		return n
	}
	return o
}

// load reads the value at p (aggregates are copied).
func (s *State) load(p Ptr) Value {
	o := s.obj(p.Obj)
	v := o.Val
	for _, i := range p.Path {
		switch c := v.(type) {
		case *StructV:
			v = c.F[i]
		case *ArrayV:
			if i < 0 || i >= len(c.E) {
				panic(engineErr{"internal", fmt.Sprintf("load path index %d out of %d", i, len(c.E))})
			}
			v = c.E[i]
		default:
			panic(engineErr{"internal", fmt.Sprintf("load: path into %T", v)})
		}
	}
	return deepCopy(v)
}

// loadRef returns the stored value without copying (read-only use!).
func (s *State) loadRef(p Ptr) Value {
	o := s.obj(p.Obj)
	v := o.Val
	for _, i := range p.Path {
		switch c := v.(type) {
		case *StructV:
			v = c.F[i]
		case *ArrayV:
			v = c.E[i]
		default:
			panic(engineErr{"internal", fmt.Sprintf("loadRef: path into %T", v)})
		}
	}
	return v
}

func (s *State) store(p Ptr, val Value) {
	o := s.writable(p.Obj)
	val = deepCopy(val)
	if len(p.Path) == 0 {
		o.Val = val
		return
	}
	v := o.Val
	for k, i := range p.Path {
		last := k == len(p.Path)-1
		switch c := v.(type) {
		case *StructV:
			if last {
				c.F[i] = val
				return
			}
			v = c.F[i]
		case *ArrayV:
			if i < 0 || i >= len(c.E) {
				panic(engineErr{"internal", fmt.Sprintf("store path index %d out of %d", i, len(c.E))})
			}
			if last {
				c.E[i] = val
				return
			}
			v = c.E[i]
		default:
			panic(engineErr{"internal", fmt.Sprintf("store: path into %T", v)})
		}
	}
}

// arrayAt returns the ArrayV at p for in-place element writes (made writable).
func (s *State) arrayForWrite(p Ptr) *ArrayV {
	o := s.writable(p.Obj)
	v := o.Val
	for _, i := range p.Path {
		switch c := v.(type) {
		case *StructV:
			v = c.F[i]
		case *ArrayV:
			v = c.E[i]
		}
	}
	a, ok := v.(*ArrayV)
	if !ok {
		panic(engineErr{"internal", fmt.Sprintf("arrayForWrite: %T", v)})
	}
	return a
}

func (s *State) arrayForRead(p Ptr) *ArrayV {
	v := s.loadRef(p)
	a, ok := v.(*ArrayV)
	if !ok {
		panic(engineErr{"internal", fmt.Sprintf("arrayForRead: %T", v)})
	}
	return a
}

func (s *State) addPC(t *smt.Term) {
	if t.IsTrue() {
		return
	}
	for _, x := range s.pc {
		if x == t {
			return
		}
	}
	s.pc = append(s.pc, t)
}

func (s *State) setGhostTerm(k string, t *smt.Term) {
	if s.ghostTerm == nil {
		s.ghostTerm = map[string]*smt.Term{}
	}
	s.ghostTerm[k] = t
}

// SpawnInfo: a task thread was started by Parent when Parent's access counter stood at Seq.
type SpawnInfo struct {
	Parent string
	Seq    int
}

type engineErr struct {
	Kind string // unsupported | bound | solver | internal
	Msg  string
}

func (e engineErr) Error() string { return e.Kind + ": " + e.Msg }

type pathEnd struct{ reason string }
