package symex

// Intrinsic model of encoding/json decoding a JSON *object* into a Go value (vpJSONFill). The real
// decoder is reflection; the executor has the static type of the destination (go/types: fields,
// embedding, json tags), so the documented rules are applied directly:
//   * only exported fields; `json:"-"` is skipped; the key is the tag name or the field name;
//     fields of untagged embedded structs are promoted (shallower depth wins, then a tagged one,
//     otherwise the ambiguous name is dropped);
//   * a member matches the field whose key equals its name, otherwise one whose key equals it
//     under ASCII case folding;
//   * members are applied in order (a later duplicate overrides); members without a field are
//     ignored; fields without a member are left untouched;
//   * a value of the wrong JSON kind for its field leaves the field untouched and the call fails.
// Member names must be concrete; string values and integers may be symbolic.
// Supported field types: string, bool, integer kinds, pointers to those, interface{}, and named
// integer types with an UnmarshalJSON that reads a JSON number (jwt.NumericDate). A member that
// addresses any other field type makes the run inconclusive.

import (
	"go/types"
	"reflect"
	"strings"

	"vcheck/smt"
)

type jsonField struct {
	key    string
	path   []int
	typ    types.Type
	depth  int
	tagged bool
}

func jsonFields(st *types.Struct, prefix []int, depth int, out *[]jsonField, seen map[*types.Struct]bool) {
	if seen[st] {
		return
	}
	seen[st] = true
	for i := 0; i < st.NumFields(); i++ {
		f := st.Field(i)
		tag := reflect.StructTag(st.Tag(i)).Get("json")
		if tag == "-" {
			continue
		}
		name, _, _ := strings.Cut(tag, ",")
		path := append(append([]int{}, prefix...), i)
		if f.Embedded() && name == "" {
			t := f.Type()
			if p, ok := t.Underlying().(*types.Pointer); ok {
				t = p.Elem()
				_ = t
				continue // embedded pointers are not modelled: their members are simply not addressable here
			}
			if est, ok := t.Underlying().(*types.Struct); ok && !hasUnmarshalJSON(f.Type()) {
				jsonFields(est, path, depth+1, out, seen)
				continue
			}
		}
		if !f.Exported() {
			continue
		}
		key := name
		if key == "" {
			key = f.Name()
		}
		*out = append(*out, jsonField{key: key, path: path, typ: f.Type(), depth: depth, tagged: name != ""})
	}
}

func hasUnmarshalJSON(t types.Type) bool {
	for _, tt := range []types.Type{t, types.NewPointer(t)} {
		ms := types.NewMethodSet(tt)
		for i := 0; i < ms.Len(); i++ {
			if ms.At(i).Obj().Name() == "UnmarshalJSON" {
				return true
			}
		}
	}
	return false
}

// dominant applies Go's field dominance rules per key.
func dominantJSONFields(all []jsonField) []jsonField {
	byKey := map[string][]jsonField{}
	var order []string
	for _, f := range all {
		if _, ok := byKey[f.key]; !ok {
			order = append(order, f.key)
		}
		byKey[f.key] = append(byKey[f.key], f)
	}
	var out []jsonField
	for _, k := range order {
		fs := byKey[k]
		min := fs[0].depth
		for _, f := range fs {
			if f.depth < min {
				min = f.depth
			}
		}
		var cand, tagged []jsonField
		for _, f := range fs {
			if f.depth == min {
				cand = append(cand, f)
				if f.tagged {
					tagged = append(tagged, f)
				}
			}
		}
		switch {
		case len(cand) == 1:
			out = append(out, cand[0])
		case len(tagged) == 1:
			out = append(out, tagged[0])
		}
	}
	return out
}

func asciiFold(s string) string { return strings.ToLower(s) }

// jsonFill implements vpJSONFill(dst interface{}, members []vpJSONMember) int (0 ok, 1 type error).
func (e *Engine) jsonFill(args []Value) Value {
	dst, ok := args[0].(Iface)
	if !ok || dst.T == nil {
		return smt.BV(1, 64)
	}
	pt, ok := dst.T.Underlying().(*types.Pointer)
	if !ok {
		return smt.BV(1, 64)
	}
	base, ok := dst.V.(Ptr)
	if !ok || base.IsNil() {
		return smt.BV(1, 64)
	}
	st, ok := pt.Elem().Underlying().(*types.Struct)
	if !ok {
		e.unsupported("vpJSONFill: destination %s is not a pointer to a struct", dst.T)
	}
	var all []jsonField
	jsonFields(st, nil, 0, &all, map[*types.Struct]bool{})
	fields := dominantJSONFields(all)

	ms := args[1].(Slice)
	failed := false
	for i := 0; i < ms.Len; i++ {
		m, ok := e.st.load(Ptr{Obj: ms.Arr.Obj, Path: append(append([]int{}, ms.Arr.Path...), ms.Off+i)}).(*StructV)
		if !ok {
			e.unsupported("vpJSONFill: member list element")
		}
		name, conc := m.F[0].(Str).Concrete()
		if !conc {
			e.unsupported("vpJSONFill: member names must be concrete")
		}
		kind := int(e.concInt(m.F[1].(*smt.Term), "vpJSONFill member kind"))
		sval := m.F[2].(Str)
		nval := m.F[3].(*smt.Term)
		var f *jsonField
		for k := range fields {
			if fields[k].key == name {
				f = &fields[k]
				break
			}
		}
		if f == nil {
			for k := range fields {
				if asciiFold(fields[k].key) == asciiFold(name) {
					f = &fields[k]
					break
				}
			}
		}
		if f == nil {
			continue
		}
		p := Ptr{Obj: base.Obj, Path: append(append([]int{}, base.Path...), f.path...)}
		if !e.jsonAssign(p, f.typ, kind, sval, nval) {
			failed = true
		}
	}
	if failed {
		return smt.BV(1, 64)
	}
	return smt.BV(0, 64)
}

// jsonAssign stores one JSON value (kind 0 string, 1 integer number, 2 true) at p of type t.
func (e *Engine) jsonAssign(p Ptr, t types.Type, kind int, sval Str, nval *smt.Term) bool {
	if pt, ok := t.Underlying().(*types.Pointer); ok {
		// allocate when nil, then decode into the pointee
		cur, _ := e.st.load(p).(Ptr)
		if cur.IsNil() {
			id := e.st.alloc(zeroValue(pt.Elem()), pt.Elem(), "json-new")
			cur = Ptr{Obj: id}
		}
		if !e.jsonAssign(cur, pt.Elem(), kind, sval, nval) {
			return false
		}
		e.st.store(p, cur)
		return true
	}
	if hasUnmarshalJSON(t) {
		if w := bvWidth(t); w > 0 {
			// a named integer that parses a JSON number itself (jwt.NumericDate)
			if kind != 1 {
				return false
			}
			e.st.store(p, fitWidth(nval, uint8(w)))
			return true
		}
		e.unsupported("vpJSONFill: field type %s has its own UnmarshalJSON", t)
	}
	switch u := t.Underlying().(type) {
	case *types.Basic:
		switch {
		case u.Info()&types.IsString != 0:
			if kind != 0 {
				return false
			}
			e.st.store(p, sval)
			return true
		case u.Kind() == types.Bool:
			if kind != 2 {
				return false
			}
			e.st.store(p, smt.True)
			return true
		case bvWidth(t) > 0:
			if kind != 1 {
				return false
			}
			e.st.store(p, fitWidth(nval, uint8(bvWidth(t))))
			return true
		}
	case *types.Interface:
		if u.NumMethods() == 0 {
			switch kind {
			case 0:
				e.st.store(p, Iface{T: types.Typ[types.String], V: sval})
			case 1:
				e.st.store(p, Iface{T: types.Typ[types.Float64], V: Opaque{"json-number"}})
			default:
				e.st.store(p, Iface{T: types.Typ[types.Bool], V: smt.True})
			}
			return true
		}
	}
	e.unsupported("vpJSONFill: member addresses a field of type %s", t)
	return false
}

func fitWidth(t *smt.Term, w uint8) *smt.Term {
	if t.W == w {
		return t
	}
	if t.W > w {
		return smt.Extract(t, 0, w)
	}
	return smt.SExt(t, w)
}
