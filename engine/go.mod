module vcheck

go 1.23

require golang.org/x/tools v0.29.0
