package smt

import (
	"bufio"
	"fmt"
	"io"
	"os"
	"os/exec"
	"strconv"
	"strings"
	"time"
)

type Result int

const (
	Unsat Result = iota
	Sat
	Unknown
)

func (r Result) String() string { return [...]string{"unsat", "sat", "unknown"}[r] }

// Solver is one long-lived SMT-LIB2 process driven over a pipe.
type Solver struct {
	Name     string
	cmd      *exec.Cmd
	in       io.WriteCloser
	out      *bufio.Reader
	declared map[string]uint8
	Stats    Stats
	Log      io.Writer // optional transcript
	timeout  int
	seq      int
}

type Stats struct {
	Sat, Unsat, Unknown, Errors int
	Time                        time.Duration
}

// Kinds: "z3", "z3-new", "cvc5".
func NewSolver(kind string, timeoutMs int) (*Solver, error) {
	var cmd *exec.Cmd
	switch kind {
	case "z3":
		cmd = exec.Command("/usr/bin/z3", "-in", "-smt2")
	case "z3-new":
		cmd = exec.Command("z3-new", "-in", "-smt2")
	case "cvc5":
		cmd = exec.Command("cvc5", "--incremental", "--lang=smt2", "--produce-models", fmt.Sprintf("--tlimit-per=%d", timeoutMs))
	default:
		return nil, fmt.Errorf("unknown solver %q", kind)
	}
	in, err := cmd.StdinPipe()
	if err != nil {
		return nil, err
	}
	out, err := cmd.StdoutPipe()
	if err != nil {
		return nil, err
	}
	cmd.Stderr = nil
	if err := cmd.Start(); err != nil {
		return nil, err
	}
	var logw io.Writer
	if f := os.Getenv("VP_SMTLOG"); f != "" {
		lf, _ := os.OpenFile(fmt.Sprintf("%s.%d", f, cmd.Process.Pid), os.O_CREATE|os.O_WRONLY|os.O_TRUNC, 0o644)
		logw = lf
	}
	s := &Solver{Log: logw, Name: kind, cmd: cmd, in: in, out: bufio.NewReaderSize(out, 1<<16), declared: map[string]uint8{}, timeout: timeoutMs}
	pre := "(set-option :produce-models true)\n"
	if kind != "cvc5" {
		pre += fmt.Sprintf("(set-option :timeout %d)\n", timeoutMs)
	} else {
		pre += "(set-logic ALL)\n"
	}
	s.write(pre)
	return s, nil
}

func (s *Solver) write(x string) {
	if s.Log != nil {
		io.WriteString(s.Log, x)
	}
	io.WriteString(s.in, x)
}

func (s *Solver) Close() {
	if s == nil || s.cmd == nil {
		return
	}
	s.write("(exit)\n")
	s.in.Close()
	done := make(chan struct{})
	go func() { s.cmd.Wait(); close(done) }()
	select {
	case <-done:
	case <-time.After(2 * time.Second):
		s.cmd.Process.Kill()
	}
}

func (s *Solver) readLine() (string, error) {
	l, err := s.out.ReadString('\n')
	return strings.TrimSpace(l), err
}

// sync sends an echo marker and returns all lines printed before it.
func (s *Solver) sync() ([]string, error) {
	s.seq++
	mark := fmt.Sprintf("@@%d", s.seq)
	s.write("(echo \"" + mark + "\")\n")
	var lines []string
	for {
		l, err := s.readLine()
		if err != nil {
			return lines, err
		}
		if strings.Trim(l, "\"") == mark {
			return lines, nil
		}
		if l != "" {
			lines = append(lines, l)
		}
	}
}

// Check decides satisfiability of the conjunction of asserts. If wantModel and sat,
// the values of all free variables are returned.
func (s *Solver) Check(asserts []*Term, wantModel bool) (Result, map[string]uint64) {
	t0 := time.Now()
	defer func() { s.Stats.Time += time.Since(t0) }()
	vars := map[string]*Term{}
	seen := map[*Term]bool{}
	for _, a := range asserts {
		CollectVars(a, vars, seen)
	}
	var sb strings.Builder
	names := make([]string, 0, len(vars))
	for n, v := range vars {
		names = append(names, n)
		if w, ok := s.declared[n]; ok {
			if w != v.W {
				panic("variable redeclared with other sort: " + n)
			}
			continue
		}
		s.declared[n] = v.W
		fmt.Fprintf(&sb, "(declare-const %s %s)\n", n, sortStr(v.W))
	}
	sb.WriteString("(push 1)\n")
	p := NewPrinter(&sb)
	p.Prepare(asserts...)
	for _, a := range asserts {
		p.Assert(a)
	}
	sb.WriteString("(check-sat)\n")
	s.write(sb.String())
	lines, err := s.sync()
	res := Unknown
	switch {
	case err != nil || len(lines) != 1:
		s.Stats.Errors++
	case lines[0] == "sat":
		res = Sat
	case lines[0] == "unsat":
		res = Unsat
	case lines[0] == "unknown" || strings.HasPrefix(lines[0], "timeout"):
		res = Unknown
	default:
		s.Stats.Errors++ // (error ...) or anything unexpected: inconclusive
	}
	var model map[string]uint64
	if res == Sat && wantModel {
		model = map[string]uint64{}
		if len(names) > 0 {
			var q strings.Builder
			for _, n := range names {
				fmt.Fprintf(&q, "(get-value (%s))\n", n)
			}
			s.write(q.String())
			lines, err := s.sync()
			if err != nil || len(lines) != len(names) {
				s.Stats.Errors++
				res = Unknown
			} else {
				for i, n := range names {
					v, ok := parseValue(lines[i])
					if !ok {
						s.Stats.Errors++
						res = Unknown
						break
					}
					model[n] = v
				}
			}
		}
	}
	s.write("(pop 1)\n")
	switch res {
	case Sat:
		s.Stats.Sat++
	case Unsat:
		s.Stats.Unsat++
	default:
		s.Stats.Unknown++
	}
	return res, model
}

// parseValue parses "((name #x0a))", "((name #b0101))", "((name true))", "((name (_ bv10 8)))".
func parseValue(l string) (uint64, bool) {
	l = strings.TrimSpace(l)
	if !strings.HasPrefix(l, "((") {
		return 0, false
	}
	l = strings.TrimSuffix(strings.TrimPrefix(l, "(("), "))")
	i := strings.IndexByte(l, ' ')
	if i < 0 {
		return 0, false
	}
	v := strings.TrimSpace(l[i+1:])
	switch {
	case v == "true":
		return 1, true
	case v == "false":
		return 0, true
	case strings.HasPrefix(v, "#x"):
		n, err := strconv.ParseUint(v[2:], 16, 64)
		return n, err == nil
	case strings.HasPrefix(v, "#b"):
		n, err := strconv.ParseUint(v[2:], 2, 64)
		return n, err == nil
	case strings.HasPrefix(v, "(_ bv"):
		f := strings.Fields(v[5:])
		if len(f) < 1 {
			return 0, false
		}
		n, err := strconv.ParseUint(f[0], 10, 64)
		return n, err == nil
	}
	return 0, false
}
