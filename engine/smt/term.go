// Package smt: immutable bit-vector / Bool term DAG with constant folding,
// SMT-LIB2 printing and concrete evaluation under a model.
package smt

import (
	"fmt"
	"sort"
	"strings"
	"sync/atomic"
)

type Op uint8

const (
	OpConst Op = iota
	OpVar
	// bit-vector ops (result BV)
	OpAdd
	OpSub
	OpMul
	OpUDiv
	OpSDiv
	OpURem
	OpSRem
	OpAnd
	OpOr
	OpXor
	OpShl
	OpLShr
	OpAShr
	OpBVNot
	OpNeg
	OpExtract // K = lo, W = width
	OpZExt
	OpSExt
	OpIte
	// predicates (result Bool, W==0)
	OpEq
	OpUlt
	OpUle
	OpSlt
	OpSle
	OpNot
	OpBAnd
	OpBOr
)

var opName = map[Op]string{
	OpAdd: "bvadd", OpSub: "bvsub", OpMul: "bvmul", OpUDiv: "bvudiv", OpSDiv: "bvsdiv",
	OpURem: "bvurem", OpSRem: "bvsrem", OpAnd: "bvand", OpOr: "bvor", OpXor: "bvxor",
	OpShl: "bvshl", OpLShr: "bvlshr", OpAShr: "bvashr", OpBVNot: "bvnot", OpNeg: "bvneg",
	OpIte: "ite", OpEq: "=", OpUlt: "bvult", OpUle: "bvule", OpSlt: "bvslt", OpSle: "bvsle",
	OpNot: "not", OpBAnd: "and", OpBOr: "or",
}

// Term is immutable once built. W == 0 means sort Bool, otherwise (_ BitVec W).
type Term struct {
	Op   Op
	W    uint8
	K    uint64 // constant value (masked) or extract-lo
	A    []*Term
	Name string
	ID   uint64
	vars atomic.Pointer[[]uint64] // sorted ids of free variables (lazily computed)
	size int32
}

var idCtr uint64

func nextID() uint64 { return atomic.AddUint64(&idCtr, 1) }

func mask(w uint8) uint64 {
	if w >= 64 {
		return ^uint64(0)
	}
	return (uint64(1) << w) - 1
}

func (t *Term) IsConst() bool { return t.Op == OpConst }
func (t *Term) IsBool() bool  { return t.W == 0 }

// Const returns the constant value (valid only if IsConst).
func (t *Term) Const() uint64 { return t.K }
func (t *Term) IsTrue() bool  { return t.Op == OpConst && t.W == 0 && t.K == 1 }
func (t *Term) IsFalse() bool { return t.Op == OpConst && t.W == 0 && t.K == 0 }

// SConst returns the constant sign-extended to int64.
func (t *Term) SConst() int64 { return sext64(t.K, t.W) }

func sext64(v uint64, w uint8) int64 {
	if w >= 64 || w == 0 {
		return int64(v)
	}
	sh := 64 - uint(w)
	return int64(v<<sh) >> sh
}

var (
	True  = &Term{Op: OpConst, W: 0, K: 1, ID: nextID()}
	False = &Term{Op: OpConst, W: 0, K: 0, ID: nextID()}
)

func Bool(b bool) *Term {
	if b {
		return True
	}
	return False
}

func BV(v uint64, w uint8) *Term {
	return &Term{Op: OpConst, W: w, K: v & mask(w), ID: nextID()}
}

func Var(name string, w uint8) *Term {
	return &Term{Op: OpVar, W: w, Name: name, ID: nextID()}
}

func mk(op Op, w uint8, k uint64, a ...*Term) *Term {
	sz := int32(1)
	for _, x := range a {
		sz += x.size
		if sz > 1<<28 {
			sz = 1 << 28
		}
	}
	return &Term{Op: op, W: w, K: k, A: a, ID: nextID(), size: sz}
}

func allConst(a ...*Term) bool {
	for _, x := range a {
		if x.Op != OpConst {
			return false
		}
	}
	return true
}

// Same reports syntactic identity (pointer or equal constants/vars).
func Same(a, b *Term) bool {
	if a == b {
		return true
	}
	if a.W != b.W || a.Op != b.Op {
		return false
	}
	switch a.Op {
	case OpConst:
		return a.K == b.K
	case OpVar:
		return a.Name == b.Name
	}
	if a.K != b.K || len(a.A) != len(b.A) || a.size != b.size || a.size > 64 {
		return false
	}
	for i := range a.A {
		if !Same(a.A[i], b.A[i]) {
			return false
		}
	}
	return true
}

func Bin(op Op, a, b *Term) *Term {
	if a.W != b.W {
		panic(fmt.Sprintf("smt.Bin %s: width mismatch %d vs %d", opName[op], a.W, b.W))
	}
	w := a.W
	m := mask(w)
	if allConst(a, b) {
		x, y := a.K, b.K
		switch op {
		case OpAdd:
			return BV(x+y, w)
		case OpSub:
			return BV(x-y, w)
		case OpMul:
			return BV(x*y, w)
		case OpUDiv:
			if y == 0 {
				return BV(m, w)
			}
			return BV(x/y, w)
		case OpURem:
			if y == 0 {
				return BV(x, w)
			}
			return BV(x%y, w)
		case OpSDiv:
			sx, sy := sext64(x, w), sext64(y, w)
			if sy == 0 {
				if sx < 0 {
					return BV(1, w)
				}
				return BV(m, w)
			}
			if sy == -1 {
				return BV(uint64(-sx), w)
			}
			return BV(uint64(sx/sy), w)
		case OpSRem:
			sx, sy := sext64(x, w), sext64(y, w)
			if sy == 0 {
				return BV(x, w)
			}
			if sy == -1 {
				return BV(0, w)
			}
			return BV(uint64(sx%sy), w)
		case OpAnd:
			return BV(x&y, w)
		case OpOr:
			return BV(x|y, w)
		case OpXor:
			return BV(x^y, w)
		case OpShl:
			if y >= uint64(w) {
				return BV(0, w)
			}
			return BV(x<<y, w)
		case OpLShr:
			if y >= uint64(w) {
				return BV(0, w)
			}
			return BV(x>>y, w)
		case OpAShr:
			sx := sext64(x, w)
			if y >= uint64(w) {
				y = uint64(w) - 1
			}
			return BV(uint64(sx>>y), w)
		}
	}
	// identities
	switch op {
	case OpAdd:
		if a.IsConst() && a.K == 0 {
			return b
		}
		if b.IsConst() && b.K == 0 {
			return a
		}
	case OpSub:
		if b.IsConst() && b.K == 0 {
			return a
		}
		if Same(a, b) {
			return BV(0, w)
		}
		// (x + c) - x = c ; (x + c1) - (x + c2) = c1 - c2
		if a.Op == OpAdd {
			if Same(a.A[0], b) {
				return a.A[1]
			}
			if Same(a.A[1], b) {
				return a.A[0]
			}
			if b.Op == OpAdd && Same(a.A[0], b.A[0]) {
				return Bin(OpSub, a.A[1], b.A[1])
			}
		}
	case OpMul:
		if a.IsConst() && a.K == 1 {
			return b
		}
		if b.IsConst() && b.K == 1 {
			return a
		}
		if (a.IsConst() && a.K == 0) || (b.IsConst() && b.K == 0) {
			return BV(0, w)
		}
	case OpAnd:
		if (a.IsConst() && a.K == 0) || (b.IsConst() && b.K == 0) {
			return BV(0, w)
		}
		if a.IsConst() && a.K == m {
			return b
		}
		if b.IsConst() && b.K == m {
			return a
		}
		if Same(a, b) {
			return a
		}
	case OpOr:
		if a.IsConst() && a.K == 0 {
			return b
		}
		if b.IsConst() && b.K == 0 {
			return a
		}
		if Same(a, b) {
			return a
		}
	case OpXor:
		if a.IsConst() && a.K == 0 {
			return b
		}
		if b.IsConst() && b.K == 0 {
			return a
		}
	case OpShl, OpLShr, OpAShr:
		if b.IsConst() && b.K == 0 {
			return a
		}
		if a.IsConst() && a.K == 0 {
			return a
		}
		if b.IsConst() && b.K >= uint64(w) && op != OpAShr {
			return BV(0, w)
		}
	case OpUDiv, OpSDiv:
		if b.IsConst() && b.K == 1 {
			return a
		}
	}
	return mk(op, w, 0, a, b)
}

func Add(a, b *Term) *Term { return Bin(OpAdd, a, b) }
func Sub(a, b *Term) *Term { return Bin(OpSub, a, b) }
func And(a, b *Term) *Term { return Bin(OpAnd, a, b) }
func Or(a, b *Term) *Term  { return Bin(OpOr, a, b) }

func BVNot(a *Term) *Term {
	if a.IsConst() {
		return BV(^a.K, a.W)
	}
	return mk(OpBVNot, a.W, 0, a)
}

func Neg(a *Term) *Term {
	if a.IsConst() {
		return BV(-a.K, a.W)
	}
	return mk(OpNeg, a.W, 0, a)
}

// Extract bits [lo, lo+w).
func Extract(a *Term, lo uint8, w uint8) *Term {
	if lo == 0 && w == a.W {
		return a
	}
	if a.IsConst() {
		return BV(a.K>>lo, w)
	}
	switch a.Op {
	case OpZExt:
		in := a.A[0]
		if lo+w <= in.W {
			return Extract(in, lo, w)
		}
		if lo >= in.W {
			return BV(0, w)
		}
	case OpSExt:
		in := a.A[0]
		if lo+w <= in.W {
			return Extract(in, lo, w)
		}
	case OpExtract:
		return Extract(a.A[0], uint8(a.K)+lo, w)
	case OpLShr:
		// extract(x >> c, lo, w) = extract(x, lo+c, w) when in range
		if a.A[1].IsConst() {
			c := a.A[1].K
			if c+uint64(lo)+uint64(w) <= uint64(a.W) {
				return Extract(a.A[0], uint8(c)+lo, w)
			}
		}
	case OpOr, OpAnd, OpXor:
		if w <= 16 { // push narrow extracts through bitwise ops (byte reassembly)
			return Bin(a.Op, Extract(a.A[0], lo, w), Extract(a.A[1], lo, w))
		}
	case OpShl:
		if a.A[1].IsConst() {
			c := a.A[1].K
			if uint64(lo)+uint64(w) <= c {
				return BV(0, w)
			}
			if uint64(lo) >= c {
				return Extract(a.A[0], lo-uint8(c), w)
			}
		}
	case OpIte:
		if a.A[1].IsConst() && a.A[2].IsConst() {
			return Ite(a.A[0], Extract(a.A[1], lo, w), Extract(a.A[2], lo, w))
		}
	}
	return mk(OpExtract, w, uint64(lo), a)
}

func ZExt(a *Term, w uint8) *Term {
	if w == a.W {
		return a
	}
	if w < a.W {
		return Extract(a, 0, w)
	}
	if a.IsConst() {
		return BV(a.K, w)
	}
	if a.Op == OpZExt {
		return ZExt(a.A[0], w)
	}
	return mk(OpZExt, w, 0, a)
}

func SExt(a *Term, w uint8) *Term {
	if w == a.W {
		return a
	}
	if w < a.W {
		return Extract(a, 0, w)
	}
	if a.IsConst() {
		return BV(uint64(sext64(a.K, a.W)), w)
	}
	if a.Op == OpZExt { // zero-extended value is non-negative
		return ZExt(a.A[0], w)
	}
	return mk(OpSExt, w, 0, a)
}

func Ite(c, a, b *Term) *Term {
	if c.IsConst() {
		if c.K == 1 {
			return a
		}
		return b
	}
	if a.W != b.W {
		panic("smt.Ite width mismatch")
	}
	if Same(a, b) {
		return a
	}
	if a.W == 0 {
		if a.IsTrue() && b.IsFalse() {
			return c
		}
		if a.IsFalse() && b.IsTrue() {
			return Not(c)
		}
	}
	return mk(OpIte, a.W, 0, c, a, b)
}

func Eq(a, b *Term) *Term {
	if a.W != b.W {
		panic(fmt.Sprintf("smt.Eq width mismatch %d vs %d", a.W, b.W))
	}
	if allConst(a, b) {
		return Bool(a.K == b.K)
	}
	if Same(a, b) {
		return True
	}
	if a.W == 0 {
		if a.IsConst() {
			a, b = b, a
		}
		if b.IsTrue() {
			return a
		}
		if b.IsFalse() {
			return Not(a)
		}
	}
	// eq(zext(x), const)
	if a.IsConst() {
		a, b = b, a
	}
	if b.IsConst() {
		if a.Op == OpZExt {
			in := a.A[0]
			if b.K > mask(in.W) {
				return False
			}
			return Eq(in, BV(b.K, in.W))
		}
		if a.Op == OpIte && a.A[1].IsConst() && a.A[2].IsConst() {
			return Ite(a.A[0], Eq(a.A[1], b), Eq(a.A[2], b))
		}
	}
	return mk(OpEq, 0, 0, a, b)
}

func Cmp(op Op, a, b *Term) *Term {
	if a.W != b.W {
		panic("smt.Cmp width mismatch")
	}
	if allConst(a, b) {
		switch op {
		case OpUlt:
			return Bool(a.K < b.K)
		case OpUle:
			return Bool(a.K <= b.K)
		case OpSlt:
			return Bool(sext64(a.K, a.W) < sext64(b.K, b.W))
		case OpSle:
			return Bool(sext64(a.K, a.W) <= sext64(b.K, b.W))
		}
	}
	if Same(a, b) {
		return Bool(op == OpUle || op == OpSle)
	}
	// comparisons of zero-extended values against constants narrow down
	if a.Op == OpZExt && b.Op == OpZExt && a.A[0].W == b.A[0].W {
		switch op {
		case OpUlt, OpSlt:
			return Cmp(OpUlt, a.A[0], b.A[0])
		case OpUle, OpSle:
			return Cmp(OpUle, a.A[0], b.A[0])
		}
	}
	if a.Op == OpZExt && b.IsConst() && a.A[0].W < a.W {
		in := a.A[0]
		sb := sext64(b.K, b.W)
		signed := op == OpSlt || op == OpSle
		if signed && sb < 0 {
			return False
		}
		if b.K > mask(in.W) {
			return True
		}
		nb := BV(b.K, in.W)
		if op == OpUlt || op == OpSlt {
			return Cmp(OpUlt, in, nb)
		}
		return Cmp(OpUle, in, nb)
	}
	if b.Op == OpZExt && a.IsConst() && b.A[0].W < b.W {
		in := b.A[0]
		sa := sext64(a.K, a.W)
		signed := op == OpSlt || op == OpSle
		if signed && sa < 0 {
			return True
		}
		if a.K > mask(in.W) {
			return False
		}
		na := BV(a.K, in.W)
		if op == OpUlt || op == OpSlt {
			return Cmp(OpUlt, na, in)
		}
		return Cmp(OpUle, na, in)
	}
	if op == OpUlt && b.IsConst() && b.K == 0 {
		return False
	}
	if op == OpUle && a.IsConst() && a.K == 0 {
		return True
	}
	return mk(op, 0, 0, a, b)
}

func Not(a *Term) *Term {
	if a.W != 0 {
		panic("smt.Not on non-bool")
	}
	if a.IsConst() {
		return Bool(a.K == 0)
	}
	if a.Op == OpNot {
		return a.A[0]
	}
	return mk(OpNot, 0, 0, a)
}

func BAnd(a, b *Term) *Term {
	if a.IsConst() {
		if a.K == 1 {
			return b
		}
		return False
	}
	if b.IsConst() {
		if b.K == 1 {
			return a
		}
		return False
	}
	if Same(a, b) {
		return a
	}
	return mk(OpBAnd, 0, 0, a, b)
}

func BOr(a, b *Term) *Term {
	if a.IsConst() {
		if a.K == 1 {
			return True
		}
		return b
	}
	if b.IsConst() {
		if b.K == 1 {
			return True
		}
		return a
	}
	if Same(a, b) {
		return a
	}
	return mk(OpBOr, 0, 0, a, b)
}

func BAndN(ts ...*Term) *Term {
	r := True
	for _, t := range ts {
		r = BAnd(r, t)
	}
	return r
}

// Vars returns the sorted ids of the free variables of t.
func (t *Term) Vars() []uint64 {
	if p := t.vars.Load(); p != nil {
		return *p
	}
	var res []uint64
	switch t.Op {
	case OpConst:
		res = []uint64{}
	case OpVar:
		res = []uint64{t.ID}
	default:
		set := map[uint64]struct{}{}
		for _, a := range t.A {
			for _, v := range a.Vars() {
				set[v] = struct{}{}
			}
		}
		out := make([]uint64, 0, len(set))
		for v := range set {
			out = append(out, v)
		}
		sort.Slice(out, func(i, j int) bool { return out[i] < out[j] })
		res = out
	}
	t.vars.Store(&res)
	return res
}

// CollectVars appends the variable terms in t to m (by name).
func CollectVars(t *Term, m map[string]*Term, seen map[*Term]bool) {
	if seen[t] {
		return
	}
	seen[t] = true
	if t.Op == OpVar {
		m[t.Name] = t
		return
	}
	for _, a := range t.A {
		CollectVars(a, m, seen)
	}
}

func sortStr(w uint8) string {
	if w == 0 {
		return "Bool"
	}
	return fmt.Sprintf("(_ BitVec %d)", w)
}

func constStr(t *Term) string {
	if t.W == 0 {
		if t.K == 1 {
			return "true"
		}
		return "false"
	}
	if t.W%4 == 0 {
		return fmt.Sprintf("#x%0*x", int(t.W/4), t.K)
	}
	return fmt.Sprintf("#b%0*b", int(t.W), t.K)
}

// Printer renders assertions; sub-DAGs shared inside one assertion are bound by nested lets
// (z3 4.8.12 expands chains of define-fun super-linearly, lets are cheap).
type Printer struct {
	sb *strings.Builder
}

func NewPrinter(sb *strings.Builder) *Printer { return &Printer{sb: sb} }

// Prepare is kept for API compatibility.
func (p *Printer) Prepare(roots ...*Term) {}

type letCtx struct {
	ref   map[*Term]int
	names map[*Term]string
	order []*Term
}

func (c *letCtx) count(t *Term) {
	if t.Op == OpConst || t.Op == OpVar {
		return
	}
	c.ref[t]++
	if c.ref[t] > 1 {
		return
	}
	for _, a := range t.A {
		c.count(a)
	}
}

// post-order list of shared nodes
func (c *letCtx) collect(t *Term, seen map[*Term]bool) {
	if t.Op == OpConst || t.Op == OpVar || seen[t] {
		return
	}
	seen[t] = true
	for _, a := range t.A {
		c.collect(a, seen)
	}
	if c.ref[t] > 1 {
		c.names[t] = fmt.Sprintf("_t%d", len(c.order)+1)
		c.order = append(c.order, t)
	}
}

func (c *letCtx) expr(sb *strings.Builder, t *Term, top bool) {
	if t.Op == OpConst {
		sb.WriteString(constStr(t))
		return
	}
	if t.Op == OpVar {
		sb.WriteString(t.Name)
		return
	}
	if !top {
		if n, ok := c.names[t]; ok {
			sb.WriteString(n)
			return
		}
	}
	switch t.Op {
	case OpExtract:
		fmt.Fprintf(sb, "((_ extract %d %d) ", int(t.K)+int(t.W)-1, t.K)
		c.expr(sb, t.A[0], false)
		sb.WriteByte(')')
	case OpZExt:
		fmt.Fprintf(sb, "((_ zero_extend %d) ", t.W-t.A[0].W)
		c.expr(sb, t.A[0], false)
		sb.WriteByte(')')
	case OpSExt:
		fmt.Fprintf(sb, "((_ sign_extend %d) ", t.W-t.A[0].W)
		c.expr(sb, t.A[0], false)
		sb.WriteByte(')')
	default:
		sb.WriteByte('(')
		sb.WriteString(opName[t.Op])
		for _, a := range t.A {
			sb.WriteByte(' ')
			c.expr(sb, a, false)
		}
		sb.WriteByte(')')
	}
}

// Assert emits (assert t) with let-bound shared sub-terms.
func (p *Printer) Assert(t *Term) {
	c := &letCtx{ref: map[*Term]int{}, names: map[*Term]string{}}
	c.count(t)
	c.collect(t, map[*Term]bool{})
	p.sb.WriteString("(assert ")
	for _, n := range c.order {
		p.sb.WriteString("(let ((")
		p.sb.WriteString(c.names[n])
		p.sb.WriteByte(' ')
		c.expr(p.sb, n, true)
		p.sb.WriteString(")) ")
	}
	c.expr(p.sb, t, false)
	for range c.order {
		p.sb.WriteByte(')')
	}
	p.sb.WriteString(")\n")
}

// Eval evaluates t under a model (variable name -> value). Missing variables are 0.
func Eval(t *Term, model map[string]uint64, memo map[*Term]uint64) uint64 {
	if t.Op == OpConst {
		return t.K
	}
	if v, ok := memo[t]; ok {
		return v
	}
	var r uint64
	switch t.Op {
	case OpVar:
		r = model[t.Name] & mask(t.W)
		if t.W == 0 {
			r = model[t.Name] & 1
		}
	case OpIte:
		if Eval(t.A[0], model, memo) == 1 {
			r = Eval(t.A[1], model, memo)
		} else {
			r = Eval(t.A[2], model, memo)
		}
	default:
		args := make([]*Term, len(t.A))
		for i, a := range t.A {
			args[i] = &Term{Op: OpConst, W: a.W, K: Eval(a, model, memo)}
		}
		var c *Term
		switch t.Op {
		case OpExtract:
			c = Extract(args[0], uint8(t.K), t.W)
		case OpZExt:
			c = ZExt(args[0], t.W)
		case OpSExt:
			c = SExt(args[0], t.W)
		case OpBVNot:
			c = BVNot(args[0])
		case OpNeg:
			c = Neg(args[0])
		case OpNot:
			c = Not(args[0])
		case OpBAnd:
			c = BAnd(args[0], args[1])
		case OpBOr:
			c = BOr(args[0], args[1])
		case OpEq:
			c = Eq(args[0], args[1])
		case OpUlt, OpUle, OpSlt, OpSle:
			c = Cmp(t.Op, args[0], args[1])
		default:
			c = Bin(t.Op, args[0], args[1])
		}
		if !c.IsConst() {
			panic("smt.Eval: non-constant result")
		}
		r = c.K
	}
	memo[t] = r
	return r
}

// String renders t without sharing (debugging / evidence samples); truncated.
func (t *Term) String() string {
	var sb strings.Builder
	t.str(&sb, 0)
	s := sb.String()
	if len(s) > 400 {
		s = s[:400] + "…"
	}
	return s
}

func (t *Term) str(sb *strings.Builder, d int) {
	if sb.Len() > 500 {
		return
	}
	switch t.Op {
	case OpConst:
		sb.WriteString(constStr(t))
	case OpVar:
		sb.WriteString(t.Name)
	case OpExtract:
		fmt.Fprintf(sb, "((_ extract %d %d) ", int(t.K)+int(t.W)-1, t.K)
		t.A[0].str(sb, d+1)
		sb.WriteByte(')')
	case OpZExt, OpSExt:
		if t.Op == OpZExt {
			fmt.Fprintf(sb, "((_ zero_extend %d) ", t.W-t.A[0].W)
		} else {
			fmt.Fprintf(sb, "((_ sign_extend %d) ", t.W-t.A[0].W)
		}
		t.A[0].str(sb, d+1)
		sb.WriteByte(')')
	default:
		sb.WriteByte('(')
		sb.WriteString(opName[t.Op])
		for _, a := range t.A {
			sb.WriteByte(' ')
			a.str(sb, d+1)
		}
		sb.WriteByte(')')
	}
}
