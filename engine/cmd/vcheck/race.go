package main

import (
	"fmt"
	"os"
	"os/exec"
	"path/filepath"
	"sort"
	"strings"

	"vcheck/symex"
)

// Lockset analysis over the symbolic access logs (DESIGN C09): two accesses race if they come from
// different logical threads, touch the same location, at least one writes, they hold no common
// lock, and neither is ordered before the other by a goroutine spawn.

func raceRelevant(a symex.AccessRec) bool {
	t := a.Typ
	switch {
	case strings.Contains(t, "/protocol.Tunnel"), strings.Contains(t, "/protocol.Gateway"), strings.Contains(t, "/protocol.Processor"),
		strings.Contains(t, "/protocol.Monitor"):
		return true
	case strings.HasPrefix(t, "map[string]*") && strings.Contains(t, "/protocol."):
		return true
	case strings.Contains(t, "/protocol.vpTransport.out"), strings.Contains(t, "/transport.vpWriter"):
		return true // stands for the client connection's single-writer contract (gorilla/websocket, hijacked conn)
	case strings.HasPrefix(t, "bufio.Writer"), strings.HasPrefix(t, "bufio.Reader"):
		return true // not safe for concurrent use (documented): whoever shares one between goroutines has to lock
	case strings.Contains(t, ".vpLibShared"):
		return true // a harness's stand-in for state inside a library value that repository code shares between threads
	case strings.HasPrefix(a.Tag, "global:") && strings.Contains(a.Tag, "/protocol.") && !strings.Contains(a.Tag, ".vp"):
		return true
	}
	return false
}

func happensBefore(a, b symex.AccessRec, spawns map[string]symex.SpawnInfo) bool {
	if a.Thread == "setup" || a.Thread == "main" {
		return true
	}
	t := b.Thread
	for {
		sp, ok := spawns[t]
		if !ok {
			return false
		}
		if sp.Parent == a.Thread && a.Seq <= sp.Seq {
			return true
		}
		t = sp.Parent
	}
}

func commonLock(a, b symex.AccessRec) bool {
	// negative keys are locks held in shared mode (RLock): two readers of an RWMutex do not exclude each other
	abs := func(v int) int {
		if v < 0 {
			return -v
		}
		return v
	}
	for _, x := range a.Locks {
		for _, y := range b.Locks {
			if abs(x) == abs(y) && !(x < 0 && y < 0) {
				return true
			}
		}
	}
	return false
}

type raceFinding struct {
	Loc  string
	Desc string
}

// repoSite: the access is made by code of the repository (not by a harness file, not by a library).
func repoSite(a symex.AccessRec) bool {
	return strings.Contains(a.Site, "github.com/bolkedebruin/rdpgw/") && !strings.Contains(a.Site, "@zz_vp") && !strings.Contains(a.Site, ".vp") && !strings.Contains(a.Site, ".VP_")
}

func analyseRaces(p symex.PathSummary, bySite bool) []raceFinding {
	var rel []symex.AccessRec
	for _, a := range p.Access {
		// default: the shared state of the protocol package; with //vp:flag lockset-repo-sites: every location
		// that code of the repository touches (both accesses of a pair must be made by repository code)
		if (!bySite && raceRelevant(a)) || (bySite && repoSite(a)) {
			rel = append(rel, a)
		}
	}
	seen := map[string]bool{}
	var out []raceFinding
	for i := 0; i < len(rel); i++ {
		for j := i + 1; j < len(rel); j++ {
			a, b := rel[i], rel[j]
			if a.Thread == b.Thread || a.Obj != b.Obj || a.Path != b.Path || (!a.Write && !b.Write) {
				continue
			}
			if commonLock(a, b) || happensBefore(a, b, p.Spawns) || happensBefore(b, a, p.Spawns) {
				continue
			}
			loc := a.Typ
			if loc == "" {
				loc = a.Tag
			}
			if bySite && !strings.HasPrefix(a.Tag, "global:") {
				loc = a.Tag + "@" + siteFuncOf(a.Site)
			}
			if strings.HasPrefix(a.Tag, "global:") {
				loc = a.Tag
			}
			if seen[loc] {
				continue
			}
			seen[loc] = true
			out = append(out, raceFinding{Loc: loc, Desc: fmt.Sprintf("unsynchronised access to %s: %s (write=%v) at %s  vs  %s (write=%v) at %s",
				loc, a.Thread, a.Write, a.Site, b.Thread, b.Write, b.Site)})
		}
	}
	sort.Slice(out, func(i, j int) bool { return out[i].Loc < out[j].Loc })
	return out
}

func shortLoc(l string) string {
	l = strings.TrimPrefix(l, "global:")
	l = strings.ReplaceAll(l, "github.com/bolkedebruin/rdpgw/cmd/rdpgw/", "")
	return l
}

// locksetViolations turns race findings into violations (one per location).
func locksetViolations(r *HarnessResult, tier string) {
	if r.Res == nil {
		return
	}
	seen := map[string]bool{}
	for _, p := range r.Res.Paths {
		if p.Model == nil {
			continue
		}
		for _, f := range analyseRaces(p, r.H.Flags["lockset-repo-sites"]) {
			label := "race:" + shortLoc(f.Loc)
			if seen[label] {
				continue
			}
			seen[label] = true
			r.Violations = append(r.Violations, ViolationOut{Key: r.H.Name + "/" + label, Label: label, Kind: "race", Msg: f.Desc,
				Vector: vectorFromModel(p.Inputs, p.Model, tier)})
		}
	}
}

// BuildRace builds the race-detector variant of the native harness binary.
func (n *Native) BuildRace() {
	if n.RaceBin != "" || n.Bin == "" {
		return
	}
	dir := filepath.Dir(n.Bin)
	out := filepath.Join(dir, "pkg.race.test")
	cmd := exec.Command("go", "test", "-race", "-c", "-vet=off", "-o", out, "-overlay", filepath.Join(dir, "overlay.json"), "./"+n.PkgDir)
	cmd.Dir = *flagRepo
	cmd.Env = append(os.Environ(), "GOFLAGS=-mod=mod", "GOPROXY=off", "GOSUMDB=off", "GOTOOLCHAIN=local")
	if o, err := cmd.CombinedOutput(); err != nil {
		n.RaceErr = "race build failed: " + firstLines(string(o), 6)
		return
	}
	n.RaceBin = out
}

// RunRace runs one vector several times under the race detector and returns the raw output.
func (n *Native) RunRace(vec map[string]interface{}, times int) string {
	var vs []map[string]interface{}
	for i := 0; i < times; i++ {
		vs = append(vs, vec)
	}
	save := n.Bin
	n.Bin = n.RaceBin
	defer func() { n.Bin = save }()
	n.rawOut = true
	_, raw := n.Run(vs)
	n.rawOut = false
	return raw
}


func siteFuncOf(site string) string {
	if i := strings.Index(site, "@"); i >= 0 {
		site = site[:i]
	}
	if i := strings.LastIndex(site, "/"); i >= 0 {
		site = site[i+1:]
	}
	return site
}
