// vcheck: decide one property of bolkedebruin/rdpgw by bounded symbolic execution of the
// real code (go/ssa -> SMT-LIB2 -> z3/cvc5), replaying counterexamples natively.
package main

import (
	"encoding/hex"
	"encoding/json"
	"flag"
	"fmt"
	"os"
	"path/filepath"
	"runtime"
	"sort"
	"strconv"
	"strings"
	"sync"
	"time"

	"vcheck/smt"
	"vcheck/symex"
)

const repoRoot = "/repo"

// verifRoot is /verif, or $VERIF_ROOT (used by background runs from a snapshot of /verif).
var verifRoot = func() string {
	if r := os.Getenv("VERIF_ROOT"); r != "" {
		return r
	}
	return "/verif"
}()

type HarnessResult struct {
	H          *Harness
	Res        *symex.Result
	Solver     smt.Stats
	Wall       time.Duration
	Err        string
	Violations []ViolationOut
	NativeOK   int // witness vectors that agreed natively
	NativeBad  []string
	CrossOK    int
	CrossBad   []string
}

type ViolationOut struct {
	Key        string
	Label      string
	Kind       string
	Msg        string
	Vector     map[string]string
	Reproduced bool
	NativeOut  string
	ReplayPath string
	Known      bool
}

var (
	flagProp    = flag.String("prop", "", "property id (C01..C20)")
	flagTier    = flag.String("tier", "quick", "quick|thorough")
	flagOnly    = flag.String("harness", "", "run only this harness (debugging)")
	flagReplay  = flag.String("replay", "", "replay a saved vector file natively")
	flagTrace   = flag.Bool("trace", false, "trace instructions")
	flagNoNat   = flag.Bool("no-native", false, "skip native replay/validation (debugging only; makes the run inconclusive on violations)")
	flagJobs    = flag.Int("j", 0, "parallel harnesses")
	flagVerbose = flag.Bool("v", false, "verbose")
	flagRepo    = flag.String("repo", repoRoot, "repository root")
)

func main() {
	flag.Parse()
	if *flagProp == "" {
		fmt.Fprintln(os.Stderr, "usage: vcheck -prop Cxx [-tier quick|thorough]")
		os.Exit(2)
	}
	os.Setenv("GOFLAGS", "-mod=mod")
	os.Setenv("GOPROXY", "off")
	os.Setenv("GOSUMDB", "off")
	os.Setenv("GOTOOLCHAIN", "local")
	code := run()
	os.Exit(code)
}

func run() int {
	t0 := time.Now()
	prop := *flagProp
	tier := *flagTier
	seed := 0
	if s := os.Getenv("VERIF_SEED"); s != "" {
		seed, _ = strconv.Atoi(s)
	}
	hs, err := discoverHarnesses(filepath.Join(verifRoot, "harness"))
	if err != nil {
		return inconclusive(prop, tier, seed, t0, "harness discovery: "+err.Error(), nil)
	}
	var sel []*Harness
	for _, h := range hs {
		if !h.ServesProp(prop) {
			continue
		}
		if *flagOnly != "" && h.Name != *flagOnly {
			continue
		}
		if h.Tier == "thorough" && tier != "thorough" {
			continue
		}
		sel = append(sel, h)
	}
	if *flagReplay != "" {
		return replayFile(prop, *flagReplay, hs)
	}
	if len(sel) == 0 {
		return inconclusive(prop, tier, seed, t0, "no harness serves this property", nil)
	}
	work := filepath.Join(verifRoot, ".work", fmt.Sprintf("%s-%d", prop, os.Getpid()))
	os.MkdirAll(work, 0o755)
	defer os.RemoveAll(work)

	// group by package dir
	byPkg := map[string][]*Harness{}
	for _, h := range sel {
		byPkg[h.PkgDir] = append(byPkg[h.PkgDir], h)
	}
	var pkgDirs []string
	for d := range byPkg {
		pkgDirs = append(pkgDirs, d)
	}
	sort.Strings(pkgDirs)

	ld, err := loadProgram(pkgDirs, hs, work)
	if err != nil {
		return inconclusive(prop, tier, seed, t0, "load: "+err.Error(), nil)
	}

	// native builds run in the background while the symbolic exploration proceeds
	natives := map[string]*Native{}
	var nwg sync.WaitGroup
	if !*flagNoNat {
		for _, d := range pkgDirs {
			n := &Native{PkgDir: d, Work: work, Harnesses: harnessesIn(hs, d), Stubs: stubsFor(byPkg[d])}
			natives[d] = n
			nwg.Add(1)
			go func(n *Native) { defer nwg.Done(); n.Build(ld) }(n)
		}
	}

	jobs := *flagJobs
	if jobs <= 0 {
		jobs = runtime.NumCPU()
		if jobs > len(sel) {
			jobs = len(sel)
		}
	}
	// harnesses run two at a time, each with half of the cores as path workers
	workersPerHarness = runtime.NumCPU() / 2
	if workersPerHarness < 1 {
		workersPerHarness = 1
	}
	jobs = 2
	if len(sel) == 1 {
		workersPerHarness = runtime.NumCPU()
	}
	if *flagTrace {
		workersPerHarness = 1
	}
	results := make([]*HarnessResult, len(sel))
	sem := make(chan struct{}, jobs)
	var wg sync.WaitGroup
	for i, h := range sel {
		wg.Add(1)
		go func(i int, h *Harness) {
			defer wg.Done()
			sem <- struct{}{}
			defer func() { <-sem }()
			results[i] = runHarness(ld, h, tier, seed)
		}(i, h)
	}
	wg.Wait()
	nwg.Wait()

	known := loadKnown(filepath.Join(verifRoot, "KNOWN_FINDINGS.txt"))
	var problems []string
	for _, r := range results {
		if r.Err != "" {
			problems = append(problems, r.H.Name+": "+r.Err)
		}
	}
	// native replay + translator validation
	replayDir := filepath.Join(verifRoot, "replays", prop)
	os.MkdirAll(replayDir, 0o755)
	for _, r := range results {
		if r.Res == nil {
			continue
		}
		n := natives[r.H.PkgDir]
		validateNatively(r, n, tier, replayDir, &problems)
	}
	if tier == "thorough" {
		for _, r := range results {
			crossCheck(r, &problems)
		}
	}

	// verdict
	violations := 0
	var lines []string
	for _, r := range results {
		for i := range r.Violations {
			v := &r.Violations[i]
			if kf, ok := known.match(prop, v.Key); ok {
				v.Known = true
				lines = append(lines, fmt.Sprintf("KNOWN-FINDING: property=%s %s [%s]", prop, kf.Desc, v.Key))
				continue
			}
			if !v.Reproduced {
				problems = append(problems, fmt.Sprintf("%s: counterexample for %s did not reproduce natively (encoder/stub mismatch): %s", r.H.Name, v.Label, firstLine(v.NativeOut)))
				continue
			}
			violations++
			lines = append(lines, fmt.Sprintf("VIOLATION property=%s replay=%s", prop, v.ReplayPath))
			lines = append(lines, fmt.Sprintf("  harness=%s label=%s kind=%s %s", r.H.Name, v.Label, v.Kind, v.Msg))
		}
	}
	lines = dedupe(lines)
	writeEvidence(prop, tier, seed, t0, results, problems, violations)
	for _, r := range results {
		st := "ok"
		if r.Err != "" {
			st = "INCONCLUSIVE"
		}
		np, ns := 0, 0
		if r.Res != nil {
			np, ns = r.Res.NPaths, r.Res.States
		}
		fmt.Printf("harness %-28s %-12s paths=%d states=%d queries(sat=%d unsat=%d unk=%d err=%d) solver=%.1fs wall=%.1fs native-agree=%d\n",
			r.H.Name, st, np, ns, r.Solver.Sat, r.Solver.Unsat, r.Solver.Unknown, r.Solver.Errors, r.Solver.Time.Seconds(), r.Wall.Seconds(), r.NativeOK)
	}
	if *flagVerbose {
		for _, r := range results {
			if r.Res == nil {
				continue
			}
			type kv struct {
				k string
				v int
			}
			var l []kv
			for k, v := range r.Res.ForkSites {
				l = append(l, kv{k, v})
			}
			sort.Slice(l, func(i, j int) bool { return l[i].v > l[j].v })
			for i, x := range l {
				if i < 25 {
					fmt.Printf("  forks %-8d %s\n", x.v, x.k)
				}
			}
		}
	}
	if len(problems) > 0 && violations == 0 {
		for _, l := range lines {
			if strings.HasPrefix(l, "KNOWN-FINDING") {
				fmt.Println(l)
			}
		}
		for _, p := range problems {
			fmt.Printf("INCONCLUSIVE property=%s reason=%s\n", prop, p)
		}
		return 3
	}
	for _, l := range lines {
		fmt.Println(l)
	}
	if violations > 0 {
		return 1
	}
	fmt.Printf("PASS property=%s tier=%s harnesses=%d wall=%.1fs\n", prop, tier, len(sel), time.Since(t0).Seconds())
	return 0
}

var workersPerHarness = 1

func firstLine(s string) string {
	if i := strings.IndexByte(s, '\n'); i >= 0 {
		return s[:i]
	}
	return s
}

func dedupe(l []string) []string {
	seen := map[string]bool{}
	var out []string
	for _, x := range l {
		if strings.HasPrefix(x, "KNOWN-FINDING") && seen[x] {
			continue
		}
		seen[x] = true
		out = append(out, x)
	}
	return out
}

func inconclusive(prop, tier string, seed int, t0 time.Time, why string, rs []*HarnessResult) int {
	writeEvidence(prop, tier, seed, t0, rs, []string{why}, 0)
	fmt.Printf("INCONCLUSIVE property=%s reason=%s\n", prop, why)
	return 3
}

func harnessesIn(hs []*Harness, dir string) []*Harness {
	var out []*Harness
	for _, h := range hs {
		if h.PkgDir == dir {
			out = append(out, h)
		}
	}
	return out
}

func stubsFor(hs []*Harness) map[string]string {
	m := map[string]string{}
	for _, h := range hs {
		for k, v := range h.NativeStubs {
			m[k] = v
		}
		for k, v := range h.ValueStubs {
			m["value:"+k] = v
		}
	}
	return m
}

// runHarness explores one harness symbolically.
func runHarness(ld *Loaded, h *Harness, tier string, seed int) *HarnessResult {
	t0 := time.Now()
	r := &HarnessResult{H: h}
	timeout := 20000
	if tier == "thorough" {
		timeout = 120000
	}
	nw := workersPerHarness
	if w := h.Int("workers", tier, 0); w > 0 {
		nw = w
	}
	var solvers []*smt.Solver
	for i := 0; i < nw; i++ {
		s, err := smt.NewSolver("z3", timeout)
		if err != nil {
			r.Err = "solver: " + err.Error()
			return r
		}
		defer s.Close()
		solvers = append(solvers, s)
	}
	sp := ld.SSAPkg(h.PkgDir)
	if sp == nil {
		r.Err = "package not loaded: " + h.PkgDir
		return r
	}
	fn := sp.Func(h.Name)
	if fn == nil {
		r.Err = "harness function not found in SSA"
		return r
	}
	cfg := symex.Config{Stubs: h.Stubs, Havoc: h.Havoc, MaxAlloc: h.Int("maxalloc", tier, 64), LoopMax: h.Int("loopmax", tier, 0),
		MaxPaths: h.Int("maxpaths", tier, 0), MaxSteps: h.Int("maxsteps", tier, 0), InitPkgs: h.InitPkgs, NoInterp: map[string]bool{},
		WitnessEvery: h.Int("witness", tier, 1), TrackAccess: h.Flags["lockset"], Params: h.ParamsFor(tier)}
	if tier == "thorough" {
		cfg.RecordMax = 300
	}
	budget := time.Duration(h.Int("budget", tier, 300)) * time.Second
	cfg.Deadline = time.Now().Add(budget)
	res := symex.Explore(ld.Prog, sp, fn, cfg, solvers, tier, *flagTrace)
	r.Res = res
	for _, s := range solvers {
		r.Solver.Sat += s.Stats.Sat
		r.Solver.Unsat += s.Stats.Unsat
		r.Solver.Unknown += s.Stats.Unknown
		r.Solver.Errors += s.Stats.Errors
		r.Solver.Time += s.Stats.Time
	}
	r.Wall = time.Since(t0)
	if len(res.Inconclusive) > 0 {
		r.Err = strings.Join(res.Inconclusive, "; ")
	}
	// vacuity: declared reach labels and every assert label must have been seen
	for _, l := range h.Reach {
		if !res.Reached[l] {
			r.Err = appendErr(r.Err, "vacuous: reach label "+l+" never reached")
		}
	}
	if len(res.AssertSeen) == 0 && !h.Flags["noassert"] {
		r.Err = appendErr(r.Err, "vacuous: no vpAssert was reached on any path")
	}
	if res.NPaths == 0 {
		r.Err = appendErr(r.Err, "vacuous: no path completed")
	}
	if h.Flags["lockset"] {
		locksetViolations(r, tier)
	}
	for _, v := range res.Violations {
		vec := vectorFromModel(v.Inputs, v.Model, tier)
		key := h.Name + "/" + v.Label
		// one representative per key
		dup := false
		for _, o := range r.Violations {
			if o.Key == key {
				dup = true
			}
		}
		if dup {
			continue
		}
		r.Violations = append(r.Violations, ViolationOut{Key: key, Label: v.Label, Kind: v.Kind, Msg: v.Msg, Vector: vec})
	}
	return r
}

func appendErr(a, b string) string {
	if a == "" {
		return b
	}
	return a + "; " + b
}

// vectorFromModel turns a solver model into the native input vector.
func vectorFromModel(inputs []symex.Input, model map[string]uint64, tier string) map[string]string {
	vec := map[string]string{"vp!tier": tier}
	for _, in := range inputs {
		switch in.Kind {
		case "bytes":
			n := int(in.Conc)
			b := make([]byte, n)
			for i := 0; i < n; i++ {
				b[i] = byte(model[fmt.Sprintf("in!%s!%d", sanitize(in.Name), i)])
			}
			vec[in.Name] = hex.EncodeToString(b)
		case "len", "havoc":
		default:
			if in.T != nil {
				vec[in.Name] = strconv.FormatUint(model[in.T.Name], 10)
			}
		}
	}
	return vec
}

func sanitize(s string) string {
	var sb strings.Builder
	for _, c := range s {
		if (c >= 'a' && c <= 'z') || (c >= 'A' && c <= 'Z') || (c >= '0' && c <= '9') || c == '_' || c == '.' {
			sb.WriteRune(c)
		} else {
			sb.WriteByte('_')
		}
	}
	return sb.String()
}

// ---- known findings ----

type knownEntry struct {
	Prop, Key, Desc string
}
type knownSet struct{ entries []knownEntry }

func loadKnown(path string) *knownSet {
	ks := &knownSet{}
	data, err := os.ReadFile(path)
	if err != nil {
		return ks
	}
	for _, l := range strings.Split(string(data), "\n") {
		l = strings.TrimSpace(l)
		if !strings.HasPrefix(l, "known:") {
			continue
		}
		f := strings.Fields(strings.TrimPrefix(l, "known:"))
		e := knownEntry{}
		var rest []string
		for _, x := range f {
			switch {
			case strings.HasPrefix(x, "property=") && e.Prop == "":
				e.Prop = strings.TrimPrefix(x, "property=")
			case strings.HasPrefix(x, "key=") && e.Key == "":
				e.Key = strings.TrimPrefix(x, "key=")
			default:
				rest = append(rest, x)
			}
		}
		e.Desc = strings.Join(rest, " ")
		ks.entries = append(ks.entries, e)
	}
	return ks
}

func (k *knownSet) match(prop, key string) (knownEntry, bool) {
	for _, e := range k.entries {
		if e.Prop == prop && e.Key == key {
			return e, true
		}
	}
	return knownEntry{}, false
}

// ---- evidence ----

func writeEvidence(prop, tier string, seed int, t0 time.Time, rs []*HarnessResult, problems []string, violations int) {
	states, trans, obl, dis, paths, natOK := 0, 0, 0, 0, 0, 0
	var samples []interface{}
	funcs := map[string]bool{}
	stubs := map[string]bool{}
	havoced := map[string]int{}
	uninit := map[string]int{}
	var bounds []string
	assumptions := []string{"claims hold only within the bounds listed under coverage.bounds", "environment stubs behave per their contracts (coverage.stubs; DESIGN.md Appendix C)"}
	q := map[string]int{}
	solverS := 0.0
	perH := []interface{}{}
	known := 0
	for _, r := range rs {
		if r == nil {
			continue
		}
		bounds = append(bounds, r.H.Name+": "+r.H.Bounds(tier))
		assumptions = append(assumptions, r.H.Assumes...)
		for k, v := range r.H.Stubs {
			stubs[k+" = "+v] = true
		}
		q["sat"] += r.Solver.Sat
		q["unsat"] += r.Solver.Unsat
		q["unknown"] += r.Solver.Unknown
		q["error"] += r.Solver.Errors
		solverS += r.Solver.Time.Seconds()
		natOK += r.NativeOK
		hh := map[string]interface{}{"harness": r.H.Name, "wall_s": round2(r.Wall.Seconds()), "error": r.Err, "native_agree": r.NativeOK, "native_disagree": r.NativeBad,
			"cross_solver_agree": r.CrossOK, "cross_solver_disagree": r.CrossBad}
		if r.Res != nil {
			states += r.Res.States
			trans += r.Res.Transitions
			obl += r.Res.Obligations
			dis += r.Res.Discharged
			paths += r.Res.NPaths
			for f := range r.Res.Funcs {
				funcs[f] = true
			}
			for k, v := range r.Res.Havoced {
				havoced[k] += v
			}
			for k, v := range r.Res.Uninit {
				uninit[k] += v
			}
			hh["paths"] = r.Res.NPaths
			hh["states"] = r.Res.States
			hh["obligations"] = r.Res.Obligations
			hh["discharged_unsat"] = r.Res.Discharged
			hh["asserts_reached"] = r.Res.AssertSeen
			hh["reach_witnesses"] = keys(r.Res.Reached)
			hh["max_loop_visits"] = r.Res.MaxLoop
			hh["max_steps_on_a_path"] = r.Res.MaxStepsUsed
			for _, s := range r.Res.SampleObl {
				if len(samples) < 6 {
					samples = append(samples, map[string]interface{}{"harness": r.H.Name, "obligation": s, "verdict": "see violations; otherwise unsat"})
				}
			}
			for _, p := range r.Res.Paths {
				if len(samples) < 10 && p.Model != nil {
					samples = append(samples, map[string]interface{}{"harness": r.H.Name, "path": p.ID, "end": p.End, "pc_conjuncts": p.PCLen, "steps": p.Steps,
						"witness_vector": vectorFromModel(p.Inputs, p.Model, tier), "asserts_passed": p.Asserts})
					break
				}
			}
		}
		var vs []interface{}
		for _, v := range r.Violations {
			if v.Known {
				known++
			}
			vs = append(vs, map[string]interface{}{"key": v.Key, "kind": v.Kind, "msg": v.Msg, "reproduced_natively": v.Reproduced, "known_finding": v.Known, "vector": v.Vector})
		}
		hh["counterexamples"] = vs
		perH = append(perH, hh)
	}
	if len(samples) == 0 {
		samples = append(samples, map[string]interface{}{"note": "no path completed", "problems": problems})
	}
	if states == 0 {
		states = 1
	}
	if trans == 0 {
		trans = 1
	}
	var fl []string
	for f := range funcs {
		fl = append(fl, f)
	}
	sort.Strings(fl)
	cov := map[string]interface{}{
		"states": states, "transitions": trans, "traces_validated_against_impl": natOK, "samples": samples,
		"obligations": obl, "discharged": dis, "paths": paths,
		"functions_encoded": fl, "bounds": bounds, "stubs": keysB(stubs), "havoced": havoced, "uninitialised_globals_read": uninit,
		"queries": q, "solver_s": round2(solverS), "solvers": solversUsed(tier), "harnesses": perH,
		"inconclusive": problems, "known_findings_reported": known,
		"exhaustive": false,
		"explanation": "bounded symbolic execution of the real go/ssa of /repo's working tree; every branch, runtime-panic condition and vpAssert is an SMT query over the path condition; 'states' = symbolic states created, 'transitions' = two-sided branch decisions, 'traces_validated_against_impl' = solver-produced path witnesses whose native run of the same harness agreed on all observations and assertion outcomes",
	}
	ev := map[string]interface{}{
		"property_id": prop, "tier": tier, "seed": seed, "level": "model_checking", "coverage": cov,
		"assumptions": assumptions, "wall_s": round2(time.Since(t0).Seconds()), "violations": violations,
	}
	os.MkdirAll(filepath.Join(verifRoot, "evidence"), 0o755)
	data, _ := json.MarshalIndent(ev, "", " ")
	os.WriteFile(filepath.Join(verifRoot, "evidence", prop+".json"), data, 0o644)
}

func solversUsed(tier string) []string {
	if tier == "thorough" {
		return []string{"z3 4.8.12 (deciding)", "z3 5.1.0 (cross-check of final obligations)", "cvc5 1.0.3 (cross-check of final obligations)"}
	}
	return []string{"z3 4.8.12"}
}

func round2(f float64) float64 { return float64(int(f*100)) / 100 }

func keys(m map[string]bool) []string {
	var out []string
	for k := range m {
		out = append(out, k)
	}
	sort.Strings(out)
	return out
}
func keysB(m map[string]bool) []string { return keys(m) }
