package main

import (
	"bytes"
	"encoding/hex"
	"encoding/json"
	"fmt"
	"go/ast"
	"go/printer"
	"go/token"
	"go/types"
	"os"
	"os/exec"
	"path/filepath"
	"sort"
	"strconv"
	"strings"
	"time"

	"golang.org/x/tools/go/ast/astutil"
	"golang.org/x/tools/go/types/typeutil"
	"vcheck/smt"
	"vcheck/symex"
)

// Native builds the same harness sources as an ordinary test binary of the package.
type Native struct {
	PkgDir    string
	Work      string
	Harnesses []*Harness
	Stubs     map[string]string // callee full name -> harness func (AST-rewritten in copies of repo files)
	Bin       string
	Err       string
	BuildTime time.Duration
	RaceBin   string
	RaceErr   string
	rawOut    bool
}

const dispatchTmpl = `package PKGNAME

import (
	"encoding/json"
	"fmt"
	"os"
	"sync/atomic"
	"testing"
	"time"
)

var vpHarnesses = map[string]func(){
HARNESSES}

func TestVPReplay(t *testing.T) {
	data, err := os.ReadFile(os.Getenv("VP_VECTORS"))
	if err != nil {
		t.Fatal(err)
	}
	var vs []struct {
		Harness string
		Vec     map[string]string
	}
	if err := json.Unmarshal(data, &vs); err != nil {
		t.Fatal(err)
	}
	for i, v := range vs {
		fmt.Printf("VP-BEGIN %d\n", i)
		vpCur = v.Vec
		h := vpHarnesses[v.Harness]
		done := make(chan string, 1)
		go func() {
			defer func() {
				if r := recover(); r != nil {
					if _, ok := r.(vpAssumeFalse); ok {
						done <- "VP-ASSUME-FALSE"
						return
					}
					if _, ok := r.(vpFatalT); ok {
						done <- "VP-FATAL"
						return
					}
					done <- fmt.Sprintf("VP-PANIC %v", r)
					return
				}
				done <- "VP-DONE"
			}()
			h()
		}()
		// watchdog: 4 s, plus whatever a harness primitive that really waits (vpCtxExpire) asked for
		wait := 4 * time.Second
	watch:
		for {
			select {
			case s := <-done:
				fmt.Println(s)
				break watch
			case <-time.After(wait):
				if extra := atomic.SwapInt64(&vpWatchdogExtra, 0); extra > 0 {
					wait = time.Duration(extra)
					continue
				}
				fmt.Println("VP-DEADLOCK")
				break watch
			}
		}
		fmt.Printf("VP-END %d\n", i)
	}
}
`

func (n *Native) Build(ld *Loaded) {
	t0 := time.Now()
	defer func() { n.BuildTime = time.Since(t0) }()
	dir := filepath.Join(n.Work, "native-"+strings.ReplaceAll(n.PkgDir, "/", "_"))
	os.MkdirAll(dir, 0o755)
	overlay := map[string]string{}
	pkgName := ""
	var names []string
	seen := map[string]bool{}
	for _, h := range n.Harnesses {
		pkgName = h.PkgName
		names = append(names, h.Name)
		if !seen[h.File] {
			seen[h.File] = true
			overlay[filepath.Join(*flagRepo, n.PkgDir, filepath.Base(h.File))] = h.File
		}
	}
	ents, _ := os.ReadDir(filepath.Join(verifRoot, "harness", n.PkgDir))
	for _, en := range ents {
		if strings.HasSuffix(en.Name(), ".go") && strings.HasPrefix(en.Name(), "zz_vp_") {
			p := filepath.Join(verifRoot, "harness", n.PkgDir, en.Name())
			overlay[filepath.Join(*flagRepo, n.PkgDir, en.Name())] = p
		}
	}
	pre, err := preludeFor(pkgName)
	if err != nil {
		n.Err = err.Error()
		return
	}
	prePath := filepath.Join(dir, "zz_vpprelude.go")
	os.WriteFile(prePath, pre, 0o644)
	overlay[filepath.Join(*flagRepo, n.PkgDir, "zz_vpprelude.go")] = prePath
	if hp := httpPreludeFor(n.PkgDir, pkgName); hp != nil {
		hpPath := filepath.Join(dir, "zz_vpprelude_http.go")
		os.WriteFile(hpPath, hp, 0o644)
		overlay[filepath.Join(*flagRepo, n.PkgDir, "zz_vpprelude_http.go")] = hpPath
	}
	sh, err := sharedFor(n.PkgDir, pkgName)
	if err != nil {
		n.Err = err.Error()
		return
	}
	for fn, data := range sh {
		sp := filepath.Join(dir, fn)
		os.WriteFile(sp, data, 0o644)
		overlay[filepath.Join(*flagRepo, n.PkgDir, fn)] = sp
	}
	sort.Strings(names)
	var hb strings.Builder
	for _, nm := range names {
		fmt.Fprintf(&hb, "\t%q: %s,\n", nm, nm)
	}
	disp := strings.Replace(strings.Replace(dispatchTmpl, "PKGNAME", pkgName, 1), "HARNESSES", hb.String(), 1)
	dispPath := filepath.Join(dir, "zz_vpdispatch_test.go")
	os.WriteFile(dispPath, []byte(disp), 0o644)
	overlay[filepath.Join(*flagRepo, n.PkgDir, "zz_vpdispatch_test.go")] = dispPath

	// rewritten copies of repo files with stubbed call sites
	if len(n.Stubs) > 0 {
		if err := n.rewrite(ld, dir, overlay); err != nil {
			n.Err = "stub rewrite: " + err.Error()
			return
		}
	}
	ov, _ := json.Marshal(map[string]interface{}{"Replace": overlay})
	ovPath := filepath.Join(dir, "overlay.json")
	os.WriteFile(ovPath, ov, 0o644)
	n.Bin = filepath.Join(dir, "pkg.test")
	cmd := exec.Command("go", "test", "-c", "-vet=off", "-o", n.Bin, "-overlay", ovPath, "./"+n.PkgDir)
	cmd.Dir = *flagRepo
	cmd.Env = append(os.Environ(), "GOFLAGS=-mod=mod", "GOPROXY=off", "GOSUMDB=off", "GOTOOLCHAIN=local")
	out, err := cmd.CombinedOutput()
	if err != nil {
		n.Err = "native build failed: " + firstLines(string(out), 6)
		n.Bin = ""
	}
}

func firstLines(s string, k int) string {
	l := strings.Split(strings.TrimSpace(s), "\n")
	if len(l) > k {
		l = l[:k]
	}
	return strings.Join(l, " | ")
}

// rewrite copies the package's own files that contain calls to stubbed callees, replacing
// pkg.F(args) by stub(args) and x.M(args) by stub(x, args).
func (n *Native) rewrite(ld *Loaded, dir string, overlay map[string]string) error {
	p := ld.Pkg(n.PkgDir)
	if p == nil {
		return fmt.Errorf("package %s not loaded", n.PkgDir)
	}
	found := map[string]bool{}
	for i, f := range p.Syntax {
		fname := p.CompiledGoFiles[i]
		if strings.HasPrefix(filepath.Base(fname), "zz_vp") {
			continue
		}
		changed := false
		skipFun := map[ast.Expr]bool{}
		ast.Inspect(f, func(nd ast.Node) bool {
			call, ok := nd.(*ast.CallExpr)
			if !ok {
				return true
			}
			obj := typeutil.Callee(p.TypesInfo, call)
			fn, ok := obj.(*types.Func)
			if !ok {
				return true
			}
			full := fn.FullName()
			// method reached through an embedded field: name by the static receiver expression type
			if sel, ok := call.Fun.(*ast.SelectorExpr); ok {
				if s := p.TypesInfo.Selections[sel]; s != nil && s.Kind() == types.MethodVal {
					rt := s.Recv()
					alt := "(" + types.TypeString(rt, nil) + ")." + fn.Name()
					if _, ok := n.Stubs[alt]; ok {
						full = alt
					}
				}
			}
			stub, ok := n.Stubs[full]
			if !ok {
				return true
			}
			found[full] = true
			changed = true
			skipFun[call.Fun] = true
			if sel, ok := call.Fun.(*ast.SelectorExpr); ok {
				if s := p.TypesInfo.Selections[sel]; s != nil && s.Kind() == types.MethodVal {
					recv := ast.Expr(sel.X)
					sig := fn.Type().(*types.Signature)
					_, wantPtr := sig.Recv().Type().(*types.Pointer)
					_, havePtr := p.TypesInfo.TypeOf(sel.X).Underlying().(*types.Pointer)
					if wantPtr && !havePtr {
						recv = &ast.UnaryExpr{Op: token.AND, X: sel.X}
					} else if !wantPtr && havePtr {
						recv = &ast.StarExpr{X: sel.X}
					}
					call.Args = append([]ast.Expr{recv}, call.Args...)
				}
			}
			call.Fun = ast.NewIdent(stub)
			return true
		})
		// method VALUE expressions (x.M not being called) of value-stubbed methods become binder(x)
		astutil.Apply(f, func(c *astutil.Cursor) bool {
			sel, ok := c.Node().(*ast.SelectorExpr)
			if !ok || skipFun[ast.Expr(sel)] {
				return true
			}
			if call, ok := c.Parent().(*ast.CallExpr); ok && call.Fun == ast.Expr(sel) {
				return true
			}
			s := p.TypesInfo.Selections[sel]
			if s == nil || s.Kind() != types.MethodVal {
				return true
			}
			fn, ok := s.Obj().(*types.Func)
			if !ok {
				return true
			}
			binder, ok := n.Stubs["value:"+fn.FullName()]
			if !ok {
				return true
			}
			recv := ast.Expr(sel.X)
			_, wantPtr := fn.Type().(*types.Signature).Recv().Type().(*types.Pointer)
			_, havePtr := p.TypesInfo.TypeOf(sel.X).Underlying().(*types.Pointer)
			if wantPtr && !havePtr {
				recv = &ast.UnaryExpr{Op: token.AND, X: sel.X}
			}
			c.Replace(&ast.CallExpr{Fun: ast.NewIdent(binder), Args: []ast.Expr{recv}})
			changed = true
			return false
		}, nil)
		if !changed {
			continue
		}
		// imports that lost their last use become blank imports
		used := map[*types.PkgName]bool{}
		ast.Inspect(f, func(nd ast.Node) bool {
			if id, ok := nd.(*ast.Ident); ok {
				if pn, ok := p.TypesInfo.Uses[id].(*types.PkgName); ok {
					used[pn] = true
				}
			}
			return true
		})
		for _, imp := range f.Imports {
			var pn *types.PkgName
			if imp.Name != nil {
				pn, _ = p.TypesInfo.Defs[imp.Name].(*types.PkgName)
			} else {
				pn, _ = p.TypesInfo.Implicits[imp].(*types.PkgName)
			}
			if pn != nil && !used[pn] {
				imp.Name = ast.NewIdent("_")
			}
		}
		var buf bytes.Buffer
		if err := printer.Fprint(&buf, p.Fset, f); err != nil {
			return err
		}
		out := filepath.Join(dir, "rw_"+filepath.Base(fname))
		if err := os.WriteFile(out, buf.Bytes(), 0o644); err != nil {
			return err
		}
		overlay[fname] = out
	}
	return nil
}

type nativeOut struct {
	Lines []string
	End   string // VP-DONE | VP-PANIC ... | VP-ASSUME-FALSE | VP-DEADLOCK | VP-FATAL | "" (crashed)
}

func (n *Native) Run(vectors []map[string]interface{}) ([]nativeOut, string) {
	if n == nil || n.Bin == "" {
		return nil, "no native binary"
	}
	f := filepath.Join(filepath.Dir(n.Bin), fmt.Sprintf("vectors-%d.json", time.Now().UnixNano()))
	data, _ := json.Marshal(vectors)
	os.WriteFile(f, data, 0o644)
	defer os.Remove(f)
	cmd := exec.Command(n.Bin, "-test.run", "^TestVPReplay$", "-test.timeout", "20m")
	cmd.Dir = filepath.Join(*flagRepo, n.PkgDir)
	cmd.Env = append(os.Environ(), "VP_VECTORS="+f)
	cmd.Env = append(cmd.Env, "GORACE=halt_on_error=0")
	out, _ := cmd.CombinedOutput()
	if n.rawOut {
		return make([]nativeOut, len(vectors)), string(out)
	}
	res := make([]nativeOut, len(vectors))
	cur := -1
	for _, l := range strings.Split(string(out), "\n") {
		l = strings.TrimRight(l, "\r")
		switch {
		case strings.HasPrefix(l, "VP-BEGIN "):
			cur, _ = strconv.Atoi(strings.TrimPrefix(l, "VP-BEGIN "))
		case strings.HasPrefix(l, "VP-END "):
			cur = -1
		case cur >= 0 && cur < len(res):
			if strings.HasPrefix(l, "VP-DONE") || strings.HasPrefix(l, "VP-PANIC") || strings.HasPrefix(l, "VP-ASSUME-FALSE") || strings.HasPrefix(l, "VP-DEADLOCK") || strings.HasPrefix(l, "VP-FATAL") {
				res[cur].End = l
			} else if strings.HasPrefix(l, "VP-") {
				res[cur].Lines = append(res[cur].Lines, l)
			}
		}
	}
	crash := ""
	for i := range res {
		if res[i].End == "" {
			crash = firstLines(tail(string(out), 1500), 12)
			res[i].End = "VP-CRASH"
		}
	}
	return res, crash
}

func tail(s string, n int) string {
	if len(s) > n {
		return s[len(s)-n:]
	}
	return s
}

func panicKindMatches(kind, nativeEnd string) bool {
	if !strings.HasPrefix(nativeEnd, "VP-PANIC") && nativeEnd != "VP-CRASH" {
		return false
	}
	switch kind {
	case "index":
		return strings.Contains(nativeEnd, "index out of range")
	case "slice":
		return strings.Contains(nativeEnd, "slice bounds out of range") || strings.Contains(nativeEnd, "cannot convert slice")
	case "nil":
		return strings.Contains(nativeEnd, "nil pointer") || strings.Contains(nativeEnd, "nil map")
	case "nilmap":
		return strings.Contains(nativeEnd, "nil map")
	case "typeassert":
		return strings.Contains(nativeEnd, "interface conversion")
	case "divide":
		return strings.Contains(nativeEnd, "divide by zero")
	case "makeslice":
		return strings.Contains(nativeEnd, "makeslice")
	}
	return true
}

func vecForNative(h *Harness, vec map[string]string, tier string) map[string]interface{} {
	v := map[string]string{}
	for k, x := range vec {
		v[k] = x
	}
	for k, x := range h.ParamsFor(tier) {
		v["param!"+k] = strconv.Itoa(x)
	}
	v["vp!tier"] = tier
	v["vp!seq"] = "1" // logical threads run one after the other except under the race detector
	return map[string]interface{}{"Harness": h.Name, "Vec": v}
}

// validateNatively replays counterexamples and a sample of path witnesses.
func validateNatively(r *HarnessResult, n *Native, tier, replayDir string, problems *[]string) {
	if *flagNoNat {
		for i := range r.Violations {
			r.Violations[i].NativeOut = "native replay disabled"
		}
		return
	}
	if n == nil || n.Bin == "" {
		msg := "native harness build unavailable"
		if n != nil {
			msg = n.Err
		}
		*problems = append(*problems, r.H.Name+": "+msg)
		return
	}
	var vectors []map[string]interface{}
	for _, v := range r.Violations {
		vectors = append(vectors, vecForNative(r.H, v.Vector, tier))
	}
	nv := len(vectors)
	maxW := r.H.Int("nativewitness", tier, 150)
	type wit struct {
		p     symex.PathSummary
		vec   map[string]string
		rerun bool
	}
	var wits []wit
	for _, p := range r.Res.Paths {
		if p.Model == nil || p.End != "return" || len(wits) >= maxW {
			continue
		}
		vec := vectorFromModel(p.Inputs, p.Model, tier)
		wits = append(wits, wit{p: p, vec: vec})
		vectors = append(vectors, vecForNative(r.H, vec, tier))
	}
	if len(vectors) == 0 {
		return
	}
	// every counterexample runs in a process of its own, the witnesses in one batch: package-level state
	// of the repository (caches, pools, registries) survives from one vector to the next inside a process
	var outs []nativeOut
	crash := ""
	for i := 0; i < nv; i++ {
		o, c := n.Run(vectors[i : i+1])
		if o == nil {
			*problems = append(*problems, r.H.Name+": native run failed: "+c)
			return
		}
		outs = append(outs, o[0])
		if c != "" {
			crash = c
		}
	}
	if len(vectors) > nv {
		o, c := n.Run(vectors[nv:])
		if o == nil {
			*problems = append(*problems, r.H.Name+": native run failed: "+c)
			return
		}
		outs = append(outs, o...)
		if c != "" && crash == "" {
			crash = c
		}
	}
	for i := range r.Violations {
		v := &r.Violations[i]
		o := outs[i]
		v.NativeOut = strings.Join(append(o.Lines, o.End), "\n")
		switch v.Kind {
		case "assert":
			for _, l := range o.Lines {
				if l == "VP-ASSERT-FAIL "+v.Label {
					v.Reproduced = true
				}
			}
			if !v.Reproduced && r.H.Flags["lockset"] {
				// schedule-dependent: replay with the logical threads really concurrent, under the race detector
				n.BuildRace()
				if n.RaceBin != "" {
					rv := vecForNative(r.H, v.Vector, tier)
					rv["Vec"].(map[string]string)["vp!seq"] = "0"
					raw := n.RunRace(rv, 20)
					if strings.Contains(raw, "VP-ASSERT-FAIL "+v.Label) || strings.Contains(raw, "DATA RACE") {
						v.Reproduced = true
						v.NativeOut = firstLines(raceExcerpt(raw), 14)
					}
				}
			}
		case "panic":
			kind := strings.TrimPrefix(v.Label, "panic:")
			if j := strings.Index(kind, "@"); j >= 0 {
				kind = kind[:j]
			}
			v.Reproduced = panicKindMatches(kind, o.End)
			if o.End == "VP-CRASH" {
				v.NativeOut += "\n" + crash
			}
		case "deadlock":
			v.Reproduced = o.End == "VP-DEADLOCK"
		case "race":
			n.BuildRace()
			if n.RaceBin == "" {
				v.NativeOut = n.RaceErr
			} else {
				rv := vecForNative(r.H, v.Vector, tier)
				rv["Vec"].(map[string]string)["vp!seq"] = "0"
				raw := n.RunRace(rv, 20)
				v.Reproduced = strings.Contains(raw, "DATA RACE") || strings.Contains(raw, "concurrent map")
				v.NativeOut = firstLines(raceExcerpt(raw), 14)
			}
		}
		rp := filepath.Join(replayDir, fmt.Sprintf("%s-%d.json", r.H.Name, i))
		data, _ := json.MarshalIndent(map[string]interface{}{"harness": r.H.Name, "label": v.Label, "kind": v.Kind, "msg": v.Msg,
			"vector": v.Vector, "tier": tier, "native_output": v.NativeOut, "reproduced": v.Reproduced,
			"how_to_replay": "bin/vcheck -prop <id> -replay " + rp}, "", " ")
		os.WriteFile(rp, data, 0o644)
		v.ReplayPath = rp
	}
	// translator validation on witnesses
	for k := 0; k < len(wits); k++ {
		w := wits[k]
		o := outs[nv+k]
		want := expectedObs(w.p)
		var got []string
		bad := ""
		for _, l := range o.Lines {
			if strings.HasPrefix(l, "VP-OBS ") {
				got = append(got, l)
			}
			if strings.HasPrefix(l, "VP-ASSERT-FAIL") {
				// the path continued under the assumption that the assert held, so natively it must hold too
				bad = "native run fails " + l
			}
		}
		exits := false
		for _, ev := range w.p.Events {
			exits = exits || ev == "process-exit"
		}
		if o.End != "VP-DONE" && exits && bad == "" && strings.HasPrefix(strings.Join(want, "\n"), strings.Join(got, "\n")) {
			// the path runs through a log.Fatal of a package the harness cannot stub natively: the symbolic side
			// carries on after the harness caught it, the native process ends there — what it observed before agrees
			r.NativeOK++
			continue
		}
		if o.End != "VP-DONE" {
			bad = "native run ended with " + o.End + " where the symbolic path returned normally"
		}
		if bad == "" && strings.Join(want, "\n") != strings.Join(got, "\n") {
			bad = fmt.Sprintf("observations differ: symbolic %v native %v", want, got)
		}
		if bad != "" && !w.rerun {
			// state left behind by an earlier vector of the batch? judge the vector in a fresh process
			if o1, _ := n.Run([]map[string]interface{}{vectors[nv+k]}); o1 != nil {
				outs[nv+k] = o1[0]
				wits[k].rerun = true
				k--
				continue
			}
		}
		if bad != "" {
			if len(r.NativeBad) < 5 {
				r.NativeBad = append(r.NativeBad, fmt.Sprintf("path %d vector %v: %s", w.p.ID, w.vec, bad))
			}
			continue
		}
		r.NativeOK++
	}
	if len(r.NativeBad) > 0 {
		*problems = append(*problems, r.H.Name+": encoder mismatch (translator validation): "+r.NativeBad[0])
	}
}

func expectedObs(p symex.PathSummary) []string {
	memo := map[*smt.Term]uint64{}
	var out []string
	for _, o := range p.Obs {
		if o.IsBytes {
			b := make([]byte, len(o.Terms))
			for i, t := range o.Terms {
				b[i] = byte(smt.Eval(t, p.Model, memo))
			}
			out = append(out, "VP-OBS "+o.Label+" x"+hex.EncodeToString(b))
			continue
		}
		t := o.Terms[0]
		v := smt.Eval(t, p.Model, memo)
		if t.W == 0 {
			out = append(out, "VP-OBS "+o.Label+" "+strconv.FormatBool(v == 1))
		} else {
			out = append(out, "VP-OBS "+o.Label+" "+strconv.FormatUint(v, 10))
		}
	}
	return out
}

// crossCheck re-discharges recorded obligations on the other solvers (thorough tier).
func crossCheck(r *HarnessResult, problems *[]string) {
	if r.Res == nil || len(r.Res.Recorded) == 0 {
		return
	}
	for _, kind := range []string{"z3-new", "cvc5"} {
		s, err := smt.NewSolver(kind, 120000)
		if err != nil {
			*problems = append(*problems, r.H.Name+": cannot start "+kind+": "+err.Error())
			continue
		}
		for _, ob := range r.Res.Recorded {
			res, _ := s.Check(ob.Asserts, false)
			if (res == smt.Sat) == ob.Sat && res != smt.Unknown {
				r.CrossOK++
			} else {
				if len(r.CrossBad) < 5 {
					r.CrossBad = append(r.CrossBad, fmt.Sprintf("%s: %s says %s, z3 said sat=%v", ob.Label, kind, res, ob.Sat))
				}
			}
		}
		s.Close()
	}
	if len(r.CrossBad) > 0 {
		*problems = append(*problems, r.H.Name+": solvers disagree or unknown: "+r.CrossBad[0])
	}
}

// replayFile re-runs one saved counterexample natively against the current tree.
func replayFile(prop, path string, hs []*Harness) int {
	data, err := os.ReadFile(path)
	if err != nil {
		fmt.Println("cannot read replay file:", err)
		return 2
	}
	var rp struct {
		Harness, Label, Kind, Tier string
		Vector                    map[string]string
	}
	if err := json.Unmarshal(data, &rp); err != nil {
		fmt.Println("bad replay file:", err)
		return 2
	}
	var h *Harness
	for _, x := range hs {
		if x.Name == rp.Harness {
			h = x
		}
	}
	if h == nil {
		fmt.Println("unknown harness", rp.Harness)
		return 2
	}
	work := filepath.Join(verifRoot, ".work", fmt.Sprintf("replay-%d", os.Getpid()))
	os.MkdirAll(work, 0o755)
	defer os.RemoveAll(work)
	ld, err := loadProgram([]string{h.PkgDir}, hs, work)
	if err != nil {
		fmt.Println("load:", err)
		return 3
	}
	n := &Native{PkgDir: h.PkgDir, Work: work, Harnesses: harnessesIn(hs, h.PkgDir), Stubs: stubsFor(harnessesIn(hs, h.PkgDir))}
	n.Build(ld)
	if n.Bin == "" {
		fmt.Println(n.Err)
		return 3
	}
	outs, crash := n.Run([]map[string]interface{}{vecForNative(h, rp.Vector, rp.Tier)})
	if outs == nil {
		fmt.Println("native run failed:", crash)
		return 3
	}
	fmt.Println(strings.Join(append(outs[0].Lines, outs[0].End), "\n"))
	if crash != "" {
		fmt.Println(crash)
	}
	rep := false
	switch rp.Kind {
	case "assert":
		for _, l := range outs[0].Lines {
			if l == "VP-ASSERT-FAIL "+rp.Label {
				rep = true
			}
		}
	case "panic":
		rep = strings.HasPrefix(outs[0].End, "VP-PANIC") || outs[0].End == "VP-CRASH"
	case "deadlock":
		rep = outs[0].End == "VP-DEADLOCK"
	case "race":
		n.BuildRace()
		if n.RaceBin == "" {
			fmt.Println(n.RaceErr)
			return 3
		}
		rv := vecForNative(h, rp.Vector, rp.Tier)
		rv["Vec"].(map[string]string)["vp!seq"] = "0"
		raw := n.RunRace(rv, 20)
		fmt.Println(firstLines(raceExcerpt(raw), 20))
		rep = strings.Contains(raw, "DATA RACE") || strings.Contains(raw, "concurrent map")
	}
	if rep {
		fmt.Printf("VIOLATION property=%s replay=%s\n", prop, path)
		return 1
	}
	fmt.Println("counterexample does not reproduce on the current tree")
	return 0
}

var _ = token.NoPos

func raceExcerpt(raw string) string {
	i := strings.Index(raw, "WARNING: DATA RACE")
	if i < 0 {
		i = strings.Index(raw, "concurrent map")
	}
	if i < 0 {
		return tail(raw, 600)
	}
	e := i + 1500
	if e > len(raw) {
		e = len(raw)
	}
	return raw[i:e]
}
