package main

import (
	"fmt"
	"go/ast"
	"go/parser"
	"go/token"
	"os"
	"path/filepath"
	"sort"
	"strconv"
	"strings"
)

type Harness struct {
	Name        string
	PkgDir      string // relative to repo root
	PkgName     string
	File        string // absolute path under /verif/harness
	Props       []string
	Tier        string
	Stubs       map[string]string
	NativeStubs map[string]string
	ValueStubs  map[string]string // method VALUE expressions x.M rewritten natively to binder(x)
	Havoc       map[string]bool
	InitPkgs    map[string]bool
	Params      map[string][2]int
	Reach       []string
	Assumes     []string
	BoundsText  string
	Flags       map[string]bool
}

func (h *Harness) ServesProp(p string) bool {
	for _, x := range h.Props {
		if x == p {
			return true
		}
	}
	return false
}

func (h *Harness) Int(name, tier string, def int) int {
	if v, ok := h.Params[name]; ok {
		if tier == "thorough" {
			return v[1]
		}
		return v[0]
	}
	return def
}

func (h *Harness) ParamsFor(tier string) map[string]int {
	m := map[string]int{}
	for k, v := range h.Params {
		if tier == "thorough" {
			m[k] = v[1]
		} else {
			m[k] = v[0]
		}
	}
	return m
}

func (h *Harness) Bounds(tier string) string {
	var ps []string
	for k, v := range h.ParamsFor(tier) {
		ps = append(ps, fmt.Sprintf("%s=%d", k, v))
	}
	sort.Strings(ps)
	return h.BoundsText + " [" + strings.Join(ps, " ") + "]"
}

func newHarness() *Harness {
	return &Harness{Stubs: map[string]string{}, NativeStubs: map[string]string{}, ValueStubs: map[string]string{}, Havoc: map[string]bool{}, InitPkgs: map[string]bool{},
		Params: map[string][2]int{}, Flags: map[string]bool{}}
}

func (h *Harness) apply(line string) error {
	line = strings.TrimSpace(strings.TrimPrefix(line, "//vp:"))
	f := strings.Fields(line)
	if len(f) == 0 {
		return nil
	}
	rest := strings.TrimSpace(strings.TrimPrefix(line, f[0]))
	switch f[0] {
	case "property":
		for _, p := range f[1:] {
			h.Props = append(h.Props, strings.Trim(p, ","))
		}
	case "tier":
		h.Tier = f[1]
	case "stub", "model":
		parts := strings.SplitN(rest, "=", 2)
		if len(parts) != 2 {
			return fmt.Errorf("bad stub directive %q", line)
		}
		k, v := strings.TrimSpace(parts[0]), strings.TrimSpace(parts[1])
		h.Stubs[k] = v
		if f[0] == "stub" {
			h.NativeStubs[k] = v
		}
	case "stubvalue":
		parts := strings.SplitN(rest, "=", 2)
		if len(parts) != 2 {
			return fmt.Errorf("bad stubvalue directive %q", line)
		}
		h.ValueStubs[strings.TrimSpace(parts[0])] = strings.TrimSpace(parts[1])
	case "havoc":
		for _, x := range f[1:] {
			h.Havoc[x] = true
		}
	case "init":
		for _, x := range f[1:] {
			h.InitPkgs[x] = true
		}
	case "set":
		if len(f) < 3 {
			return fmt.Errorf("bad set directive %q", line)
		}
		q, err := strconv.Atoi(f[2])
		if err != nil {
			return err
		}
		t := q
		if len(f) > 3 {
			t, err = strconv.Atoi(f[3])
			if err != nil {
				return err
			}
		}
		h.Params[f[1]] = [2]int{q, t}
	case "reach":
		for _, x := range f[1:] {
			h.Reach = append(h.Reach, strings.Trim(x, ","))
		}
	case "assume":
		h.Assumes = append(h.Assumes, rest)
	case "bounds":
		h.BoundsText = rest
	case "flag":
		for _, x := range f[1:] {
			h.Flags[x] = true
		}
	case "real":
		// this harness runs the real function although the package directory models it (engine-only models)
		for _, x := range f[1:] {
			h.Flags["real:"+x] = true
		}
	case "all":
		return h.apply("//vp:" + rest)
	default:
		return fmt.Errorf("unknown directive %q", line)
	}
	return nil
}

// discoverHarnesses parses /verif/harness/**/zz_vp_*.go.
func discoverHarnesses(root string) ([]*Harness, error) {
	var out []*Harness
	dirDirectives := map[string][]string{}
	err := filepath.Walk(root, func(path string, info os.FileInfo, err error) error {
		if err != nil {
			return err
		}
		if info.IsDir() || !strings.HasSuffix(path, ".go") || !strings.HasPrefix(filepath.Base(path), "zz_vp_") {
			return nil
		}
		rel, _ := filepath.Rel(root, filepath.Dir(path))
		fset := token.NewFileSet()
		f, err := parser.ParseFile(fset, path, nil, parser.ParseComments)
		if err != nil {
			return err
		}
		// file-wide directives: comment groups that are not doc comments of functions
		docs := map[*ast.CommentGroup]bool{}
		for _, d := range f.Decls {
			if fd, ok := d.(*ast.FuncDecl); ok && fd.Doc != nil {
				docs[fd.Doc] = true
			}
		}
		var fileDirs []string
		for _, cg := range f.Comments {
			if docs[cg] {
				continue
			}
			for _, c := range cg.List {
				if strings.HasPrefix(c.Text, "//vp:all ") {
					fileDirs = append(fileDirs, c.Text)
				}
				if strings.HasPrefix(c.Text, "//vp:use ") {
					// a shared harness part: its file-wide directives apply to this directory
					for _, name := range strings.Fields(strings.TrimPrefix(c.Text, "//vp:use ")) {
						seen := false
						for _, u := range dirUses[rel] {
							seen = seen || u == name
						}
						if seen {
							continue
						}
						dirUses[rel] = append(dirUses[rel], name)
						data, err := os.ReadFile(filepath.Join(root, "shared", name+".go.tmpl"))
						if err != nil {
							return err
						}
						for _, l := range strings.Split(string(data), "\n") {
							if strings.HasPrefix(l, "//vp:all ") {
								fileDirs = append(fileDirs, l)
							}
						}
					}
				}
			}
		}
		dirDirectives[rel] = append(dirDirectives[rel], fileDirs...)
		for _, d := range f.Decls {
			fd, ok := d.(*ast.FuncDecl)
			if !ok || fd.Recv != nil || !strings.HasPrefix(fd.Name.Name, "VP_") {
				continue
			}
			h := newHarness()
			h.Name = fd.Name.Name
			h.PkgDir = rel
			h.PkgName = f.Name.Name
			h.File = path
			if fd.Doc != nil {
				for _, c := range fd.Doc.List {
					if strings.HasPrefix(c.Text, "//vp:") {
						if err := h.apply(c.Text); err != nil {
							return fmt.Errorf("%s: %s: %v", path, h.Name, err)
						}
					}
				}
			}
			out = append(out, h)
		}
		return nil
	})
	for _, h := range out {
		for _, l := range dirDirectives[h.PkgDir] {
			if err := h.apply(l); err != nil {
				return nil, fmt.Errorf("%s: %v", h.PkgDir, err)
			}
		}
	}
	// native stubs rewrite the package's source, so they are package-wide: take the union
	union := map[string]map[string]string{}
	for _, h := range out {
		if union[h.PkgDir] == nil {
			union[h.PkgDir] = map[string]string{}
		}
		for k, v := range h.NativeStubs {
			if o, ok := union[h.PkgDir][k]; ok && o != v {
				return nil, fmt.Errorf("conflicting stubs for %s in %s: %s vs %s", k, h.PkgDir, o, v)
			}
			union[h.PkgDir][k] = v
		}
	}
	for _, h := range out {
		for k, v := range union[h.PkgDir] {
			h.NativeStubs[k] = v
			if _, ok := h.Stubs[k]; !ok {
				h.Stubs[k] = v
			}
		}
	}
	for _, h := range out {
		for fl := range h.Flags {
			if strings.HasPrefix(fl, "real:") {
				k := strings.TrimPrefix(fl, "real:")
				if _, native := h.NativeStubs[k]; native {
					return nil, fmt.Errorf("%s: //vp:real %s: it is a native stub (package-wide source rewrite) and cannot be undone per harness", h.Name, k)
				}
				delete(h.Stubs, k)
			}
		}
	}
	sort.Slice(out, func(i, j int) bool { return out[i].Name < out[j].Name })
	return out, err
}
