package main

import (
	"fmt"
	"os"
	"path/filepath"
	"strings"

	"golang.org/x/tools/go/packages"
	"golang.org/x/tools/go/ssa"
	"golang.org/x/tools/go/ssa/ssautil"
)

type Loaded struct {
	Prog    *ssa.Program
	Pkgs    []*packages.Package
	byDir   map[string]*packages.Package
	ssaPkgs map[string]*ssa.Package
	Overlay map[string][]byte // absolute repo path -> content (harness + prelude)
}

func (l *Loaded) SSAPkg(dir string) *ssa.Package { return l.ssaPkgs[dir] }
func (l *Loaded) Pkg(dir string) *packages.Package { return l.byDir[dir] }

func preludeFor(pkgName string) ([]byte, error) {
	data, err := os.ReadFile(filepath.Join(verifRoot, "harness", "prelude.go.tmpl"))
	if err != nil {
		return nil, err
	}
	return []byte(strings.Replace(string(data), "package PKGNAME", "package "+pkgName, 1)), nil
}

// httpPreludeFor returns the net/http models for packages that deal with HTTP (nil otherwise).
func httpPreludeFor(pkgDir, pkgName string) []byte {
	switch pkgDir {
	case "cmd/rdpgw/web", "cmd/rdpgw/protocol", "cmd/rdpgw/kdcproxy", "cmd/rdpgw":
	default:
		return nil
	}
	data, err := os.ReadFile(filepath.Join(verifRoot, "harness", "prelude_http.go.tmpl"))
	if err != nil {
		return nil
	}
	return []byte(strings.Replace(string(data), "package PKGNAME", "package "+pkgName, 1))
}

// dirUses: harness directory -> shared harness parts it opted into with //vp:use NAME
// (/verif/harness/shared/NAME.go.tmpl, "package PKGNAME").
var dirUses = map[string][]string{}

// sharedFor returns the shared harness parts of a package directory: overlay file name -> content.
func sharedFor(pkgDir, pkgName string) (map[string][]byte, error) {
	out := map[string][]byte{}
	for _, name := range dirUses[pkgDir] {
		data, err := os.ReadFile(filepath.Join(verifRoot, "harness", "shared", name+".go.tmpl"))
		if err != nil {
			return nil, err
		}
		out["zz_vpshared_"+name+".go"] = []byte(strings.Replace(string(data), "package PKGNAME", "package "+pkgName, 1))
	}
	return out, nil
}

// loadProgram type-checks the needed packages of /repo's current working tree with the
// harness files and the prelude overlaid, and builds SSA (bodies lazily per package).
func loadProgram(pkgDirs []string, all []*Harness, work string) (*Loaded, error) {
	ld := &Loaded{byDir: map[string]*packages.Package{}, ssaPkgs: map[string]*ssa.Package{}, Overlay: map[string][]byte{}}
	var patterns []string
	for _, d := range pkgDirs {
		patterns = append(patterns, "./"+d)
		pkgName := ""
		seen := map[string]bool{}
		for _, h := range all {
			if h.PkgDir != d || seen[h.File] {
				continue
			}
			seen[h.File] = true
			pkgName = h.PkgName
			data, err := os.ReadFile(h.File)
			if err != nil {
				return nil, err
			}
			ld.Overlay[filepath.Join(*flagRepo, d, filepath.Base(h.File))] = data
		}
		// helper files (no harness functions) in the same harness dir
		ents, _ := os.ReadDir(filepath.Join(verifRoot, "harness", d))
		for _, en := range ents {
			if strings.HasSuffix(en.Name(), ".go") && strings.HasPrefix(en.Name(), "zz_vp_") {
				p := filepath.Join(verifRoot, "harness", d, en.Name())
				if !seen[p] {
					data, err := os.ReadFile(p)
					if err != nil {
						return nil, err
					}
					ld.Overlay[filepath.Join(*flagRepo, d, en.Name())] = data
				}
			}
		}
		pre, err := preludeFor(pkgName)
		if err != nil {
			return nil, err
		}
		ld.Overlay[filepath.Join(*flagRepo, d, "zz_vpprelude.go")] = pre
		if hp := httpPreludeFor(d, pkgName); hp != nil {
			ld.Overlay[filepath.Join(*flagRepo, d, "zz_vpprelude_http.go")] = hp
		}
		sh, err := sharedFor(d, pkgName)
		if err != nil {
			return nil, err
		}
		for fn, data := range sh {
			ld.Overlay[filepath.Join(*flagRepo, d, fn)] = data
		}
	}
	cfg := &packages.Config{
		Mode: packages.NeedName | packages.NeedFiles | packages.NeedCompiledGoFiles | packages.NeedImports | packages.NeedDeps |
			packages.NeedTypes | packages.NeedSyntax | packages.NeedTypesInfo | packages.NeedTypesSizes | packages.NeedModule,
		Dir:     *flagRepo,
		Overlay: ld.Overlay,
		Env:     append(os.Environ(), "GOFLAGS=-mod=mod", "GOPROXY=off", "GOSUMDB=off", "GOTOOLCHAIN=local"),
	}
	pkgs, err := packages.Load(cfg, patterns...)
	if err != nil {
		return nil, err
	}
	var errs []string
	packages.Visit(pkgs, nil, func(p *packages.Package) {
		for _, e := range p.Errors {
			if len(errs) < 10 {
				errs = append(errs, e.Error())
			}
		}
	})
	if len(errs) > 0 {
		return nil, fmt.Errorf("type errors (harness does not compile against the current tree?): %s", strings.Join(errs, " | "))
	}
	prog, spkgs := ssautil.AllPackages(pkgs, ssa.InstantiateGenerics)
	ld.Prog = prog
	ld.Pkgs = pkgs
	for i, p := range pkgs {
		for _, d := range pkgDirs {
			if strings.HasSuffix(p.PkgPath, "/"+d) || p.PkgPath == d {
				ld.byDir[d] = p
				ld.ssaPkgs[d] = spkgs[i]
				if spkgs[i] != nil {
					spkgs[i].Build()
				}
			}
		}
	}
	for _, d := range pkgDirs {
		if ld.ssaPkgs[d] == nil {
			return nil, fmt.Errorf("package %s not built", d)
		}
	}
	return ld, nil
}
