package ntlm

// C10 — no NTLM message can crash the authentication service.

import (
	"github.com/bolkedebruin/rdpgw/shared/auth"
	"github.com/m7913d/go-ntlm/ntlm"
)

//vp:property C10
//vp:set n 24 28
//vp:set maxpaths 200000 600000
//vp:bounds one arbitrary message of every length 0..n (all byte values; the NTLMSSP signature and the message type are for the solver to choose) sent to a fresh session and to a session that already answered a negotiate
//vp:reach answered
func VP_C10_ntlm_message() {
	vpWire = map[string][]byte{}
	vpWireBad = map[string]bool{}
	vpSessions = nil
	vpMayExpire = false
	h := NewNTLMAuth(vpDB())
	msg := vpBytes("msg", vpParam("n"))
	vpWire["m"] = msg
	if vpBool("after-negotiate") {
		c := vpCtxOf(h.getContext("s"))
		c.session = &ntlm.V2ServerSession{}
	}
	r, _ := h.Authenticate(&auth.NtlmRequest{Session: "s", NtlmMessage: "m"})
	vpReach("answered")
	vpAssert(r != nil && !r.Authenticated, "arbitrary-bytes-never-authenticate")
}

//vp:property C10
//vp:set which 5 5
//vp:bounds a well-formed 170-byte AUTHENTICATE_MESSAGE (user "ab", known to the database) in which ONE of the six security-buffer descriptors has an arbitrary length in {0..4,23,24,44..48} u {0xFFF0..0xFFFF} and an arbitrary 32-bit offset, sent to a session that answered a negotiate; crypto beyond parsing is not modelled (fails)
//vp:reach answered
func VP_C10_ntlm_descriptor() {
	vpWire = map[string][]byte{}
	vpWireBad = map[string]bool{}
	vpSessions = nil
	vpMayExpire = false
	h := NewNTLMAuth(vpDB())
	msg := vpAuthenticateMsg([]byte{'a', 0, 'b', 0})
	which := vpIntRange("which", 0, vpParam("which"))
	ln := vpU16("len")
	off := vpU32("off")
	vpAssume(vpOr(vpOr(ln <= 4, vpOr(ln == 23, ln == 24)), vpOr(vpAnd(ln >= 44, ln <= 48), ln >= 0xFFF0)))
	d := 12 + 8*which
	msg[d], msg[d+1] = byte(ln), byte(ln>>8)
	msg[d+2], msg[d+3] = byte(ln), byte(ln>>8)
	msg[d+4], msg[d+5], msg[d+6], msg[d+7] = byte(off), byte(off>>8), byte(off>>16), byte(off>>24)
	vpWire["m"] = msg
	c := vpCtxOf(h.getContext("s"))
	c.session = &ntlm.V2ServerSession{}
	r, _ := h.Authenticate(&auth.NtlmRequest{Session: "s", NtlmMessage: "m"})
	vpReach("answered")
	vpAssert(r != nil && !r.Authenticated, "no-authentication-without-valid-proof")
}
