package ntlm

// Harness scaffolding for the NTLM verifier of rdpgw-auth (overlay only).

import (
	"encoding/base64"
	"errors"
	"hash"
	"strconv"
	"time"

	"github.com/m7913d/go-ntlm/ntlm"
	"github.com/patrickmn/go-cache"
	"golang.org/x/crypto/md4"
)

//vp:all stub (*encoding/base64.Encoding).DecodeString = vpB64Decode
//vp:all stub (*encoding/base64.Encoding).EncodeToString = vpB64Encode
//vp:all stub github.com/patrickmn/go-cache.New = vpCacheNew
//vp:all stub (*github.com/patrickmn/go-cache.Cache).Get = vpCacheGet
//vp:all stub (*github.com/patrickmn/go-cache.Cache).Set = vpCacheSet
//vp:all stub (*github.com/patrickmn/go-cache.Cache).Delete = vpCacheDelete
//vp:all stub (*github.com/patrickmn/go-cache.Cache).ItemCount = vpCacheItemCount
//vp:all model (*github.com/patrickmn/go-cache.cache).ItemCount = vpCacheItemCount
//vp:all model (*github.com/patrickmn/go-cache.cache).Get = vpCacheGet
//vp:all model (*github.com/patrickmn/go-cache.cache).Set = vpCacheSet
//vp:all model (*github.com/patrickmn/go-cache.cache).Delete = vpCacheDelete
//vp:all stub github.com/m7913d/go-ntlm/ntlm.CreateServerSession = vpCreateServerSession
//vp:all model golang.org/x/crypto/md4.New = vpmMD4New
//vp:all model (*github.com/m7913d/go-ntlm/ntlm.V2Session).fetchResponseKeys = vpmCryptoFails
//vp:all model (*github.com/m7913d/go-ntlm/ntlm.V2ServerSession).computeExpectedResponses = vpmCryptoFails2

func vpItoa(i int) string { return strconv.Itoa(i) }

// The wire messages of the requests under test, keyed by the (opaque) base64 text.
var vpWire map[string][]byte
var vpWireBad map[string]bool

func vpB64Decode(e *base64.Encoding, s string) ([]byte, error) {
	if vpWireBad[s] {
		return nil, errors.New("vp: illegal base64 data")
	}
	return vpWire[s], nil
}
func vpB64Encode(e *base64.Encoding, b []byte) string { return "challenge-b64" }

// go-cache contract (Appendix C): Get returns the latest Set unless deleted or expired.
var (
	vpCacheItems map[string]interface{}
	vpCacheExp   time.Duration
	vpMayExpire  bool
)

func vpCacheNew(def, cleanup time.Duration) *cache.Cache {
	vpCacheExp = def
	vpCacheItems = map[string]interface{}{}
	return &cache.Cache{}
}
func vpCacheGet(c *cache.Cache, k string) (interface{}, bool) {
	v, ok := vpCacheItems[k]
	if !ok {
		return nil, false
	}
	if vpMayExpire && vpBool("expired-"+vpItoa(vpReqNo)) {
		delete(vpCacheItems, k)
		return nil, false
	}
	return v, true
}
func vpCacheSet(c *cache.Cache, k string, v interface{}, d time.Duration) { vpCacheItems[k] = v }
func vpCacheDelete(c *cache.Cache, k string)                             { delete(vpCacheItems, k) }

// ItemCount (go-cache documentation): the number of items in the cache, INCLUDING expired items that the
// janitor has not removed yet — other clients' abandoned exchanges of the last minutes, any number of them.
func vpCacheItemCount(c *cache.Cache) int {
	stale := vpInt("expired-entries-not-yet-purged")
	vpAssume(vpAnd(stale >= 0, stale <= 100000))
	return len(vpCacheItems) + stale
}

// vpCtxOf takes the context out of getContext's results, however many there are.
func vpCtxOf(c *ntlmContext, rest ...interface{}) *ntlmContext { return c }

var vpReqNo int

func vpmCryptoFails(s *ntlm.V2Session) error { return errors.New("vp: crypto not modelled") }
func vpmCryptoFails2(s *ntlm.V2ServerSession, ts []byte, av *ntlm.AvPairs) error {
	return errors.New("vp: crypto not modelled")
}

// ---- a server session whose cryptographic verdict is a symbolic predicate ----

type vpSession struct {
	id         int
	negotiated bool
	user, pw   string
	reqNt      bool
	processed  int
	// go-ntlm (V2Session.fetchResponseKeys) derives the response key from (user named in the message,
	// password from SetUserInfo) at the FIRST ProcessAuthenticateMessage of a session and keeps it
	keyCached      bool
	keyUser, keyPw string
	keyDomain      string // the domain that went into the key: the one the first authenticate message names
	// a session that never generated a challenge verifies against the EMPTY server challenge (go-ntlm
	// does not check that a negotiate was processed)
	challenged bool
}

var vpSessions []*vpSession
var vpCreateFails bool

func vpCreateServerSession(v ntlm.Version, m ntlm.Mode) (ntlm.ServerSession, error) {
	if vpCreateFails {
		return nil, errors.New("vp: cannot create session")
	}
	s := &vpSession{id: len(vpSessions)}
	vpSessions = append(vpSessions, s)
	return s, nil
}

func (s *vpSession) SetUserInfo(u, p, d string)            { s.user, s.pw = u, p }
func (s *vpSession) GetUserInfo() (string, string, string) { return s.user, s.pw, "" }
func (s *vpSession) SetComputerName(string)                {}
func (s *vpSession) SetDomainName(string)                  {}
func (s *vpSession) SetDnsComputerName(string)             {}
func (s *vpSession) SetDnsDomainName(string)               {}
func (s *vpSession) SetDnsTreeName(string)                 {}
func (s *vpSession) SetMode(ntlm.Mode)                     {}
func (s *vpSession) SetRequireNtHash(b bool)               { s.reqNt = b }
func (s *vpSession) SetServerChallenge([]byte)             {}
func (s *vpSession) ProcessNegotiateMessage(*ntlm.NegotiateMessage) error {
	s.negotiated = true
	return nil
}
func (s *vpSession) GenerateChallengeMessage() (*ntlm.ChallengeMessage, error) {
	s.challenged = true
	return &ntlm.ChallengeMessage{Signature: []byte("NTLMSSP\x00"), MessageType: 2, TargetName: &ntlm.PayloadStruct{},
		ServerChallenge: make([]byte, 8), TargetInfo: &ntlm.AvPairs{}, Version: &ntlm.VersionStruct{}}, nil
}

// ProcessAuthenticateMessage contract (go-ntlm ntlmv2.go as read): the expected response is computed
// from this session's challenge and the session's response key; the key is NTOWFv2(user named in the
// message, password from SetUserInfo), computed on the first call and cached in the session. The
// client's proof is described by what it was computed from: key of (vpProofUser, vpProofPw) and the
// challenge of server session vpClientSess. Nil iff the two agree.
var (
	vpProofUserSel int    // 0: the name the message carries, 1: "ab", 2: "ef"
	vpMsgUser      string // the name the current message carries
	vpProofPwId    int    // see vpPwId
	vpClientSess   int
)

// With several messages in flight at once each carries a tag (first byte of its LM response, which
// the stub session reads back) that selects its own proof description.
type vpProof struct {
	userSel    int
	msgUser    string
	pwId       int
	clientSess int
}

var vpProofTab map[byte]vpProof

// vpPwId numbers the passwords around (0 = none/empty).
func vpPwId(p string) int {
	switch p {
	case "pw-ab":
		return 1
	case "pw-ef":
		return 2
	case "":
		return 0
	case "p$w":
		return 4
	}
	return 3
}

func (s *vpSession) ProcessAuthenticateMessage(am *ntlm.AuthenticateMessage) error {
	s.processed++
	vpProofUserSel, vpMsgUser, vpProofPwId, vpClientSess := vpProofUserSel, vpMsgUser, vpProofPwId, vpClientSess
	if vpProofTab != nil {
		d := vpProofTab[am.LmChallengeResponse.Payload[0]]
		vpProofUserSel, vpMsgUser, vpProofPwId, vpClientSess = d.userSel, d.msgUser, d.pwId, d.clientSess
	}
	if !s.keyCached {
		s.keyCached = true
		s.keyUser, s.keyPw = am.UserName.String(), s.pw
		s.keyDomain = am.DomainName.String()
	}
	// branch-free: the proof matches iff it was made under the cached key's user name and password
	sameUser := vpOr(vpAnd(vpProofUserSel == 0, s.keyUser == vpMsgUser), vpOr(vpAnd(vpProofUserSel == 1, s.keyUser == "ab"), vpAnd(vpProofUserSel == 2, s.keyUser == "ef")))
	// the client computed its proof against the challenge of server session vpClientSess, or against the
	// empty challenge (vpClientSess == -1)
	rightChallenge := vpOr(vpAnd(s.challenged, s.id == vpClientSess), vpAnd(!s.challenged, vpClientSess == -1))
	// the client derives its key with the domain its own message names
	sameUser = vpAnd(sameUser, s.keyDomain == am.DomainName.String())
	ok := vpAnd(sameUser, vpAnd(vpPwId(s.keyPw) == vpProofPwId, rightChallenge))
	// go-ntlm can panic in here: before it compares anything (an authenticate message in the short layout
	// has no session-key field, which ProcessAuthenticateMessage dereferences first) or while it derives
	// the session keys after it verified the response, the response key already cached
	if vpBool("library-panics-"+vpItoa(vpReqNo)) {
		panic("vp: go-ntlm: runtime error inside ProcessAuthenticateMessage")
	}
	if ok {
		return nil
	}
	return errors.New("Could not authenticate")
}

// SetNTHash (go-ntlm as read): the response key is derived AT ONCE, from the NT hash given and the user
// and domain that SetUserInfo stored; fetchResponseKeys then finds a key and returns early, so the user and
// domain of the authenticate message no longer enter it.
func (s *vpSession) SetNTHash(h []byte) {
	s.keyCached = true
	s.keyUser, s.keyDomain = s.user, ""
	s.keyPw = vpPwOfNTHash(h)
}

// vpNTHash: the NT hash of a password (MD4 over its UTF-16LE form): natively the real one, symbolically the
// digest contract of the prelude (deterministic, collision-free).
func vpNTHash(pw string) []byte {
	enc := make([]byte, 0, 2*len(pw))
	for i := 0; i < len(pw); i++ {
		enc = append(enc, pw[i], 0) // the passwords of vpDB are ASCII
	}
	if vpSymbolic() {
		return vpMD4Of(enc)
	}
	h := md4.New()
	h.Write(enc)
	return h.Sum(nil)
}

func vpMD4Of(data []byte) []byte {
	i := vpDigestIndex(data)
	out := make([]byte, 16)
	out[0], out[1], out[15] = 0x44, byte(i), byte(i>>8)
	return out
}

// vpPwOfNTHash: which of the passwords around a hash belongs to ("?" for none of them).
func vpPwOfNTHash(h []byte) string {
	for _, pw := range []string{"", "pw-ab", "pw-ef", "p$w"} {
		if vpEqBytes(h, vpNTHash(pw)) {
			return pw
		}
	}
	return "?"
}

// golang.org/x/crypto/md4 under the digest contract (symbolic side only).
type vpMD4 struct{ buf []byte }

func (m *vpMD4) Write(p []byte) (int, error) { m.buf = append(m.buf, p...); return len(p), nil }
func (m *vpMD4) Sum(b []byte) []byte         { return append(b, vpMD4Of(m.buf)...) }
func (m *vpMD4) Reset()                      { m.buf = nil }
func (m *vpMD4) Size() int                   { return 16 }
func (m *vpMD4) BlockSize() int              { return 64 }
func vpmMD4New() hash.Hash                   { return &vpMD4{} }

func (s *vpSession) GetSessionData() *ntlm.SessionData          { return nil }
func (s *vpSession) Version() int                               { return 2 }
func (s *vpSession) Seal(m []byte) ([]byte, []byte, error)      { return nil, nil, nil }
func (s *vpSession) Sign(m []byte) ([]byte, error)              { return nil, nil }
func (s *vpSession) Mac(m []byte, n int) ([]byte, error)        { return nil, nil }
func (s *vpSession) VerifyMac(m, e []byte, n int) (bool, error) { return false, nil }

// ---- wire message builders (MS-NLMP layouts, written from the specification) ----

func vpLE16b(v int) []byte { return []byte{byte(v), byte(v >> 8)} }
func vpLE32b(v int) []byte { return []byte{byte(v), byte(v >> 8), byte(v >> 16), byte(v >> 24)} }

func vpNegotiateMsg() []byte {
	m := append([]byte("NTLMSSP\x00"), vpLE32b(1)...)
	m = append(m, vpLE32b(0x00088207)...) // flags without OEM domain/workstation/version
	for len(m) < 40 {
		m = append(m, 0)
	}
	return m
}

func vpDesc(n, off int) []byte { return append(append(vpLE16b(n), vpLE16b(n)...), vpLE32b(off)...) }

// vpAuthenticateMsg: a well-formed NTLMv2 AUTHENTICATE_MESSAGE with the given UTF-16LE user name.
func vpAuthenticateMsg(user16 []byte) []byte { return vpAuthenticateMsgTagged(user16, 0) }

func vpAuthenticateMsgTagged(user16 []byte, tag byte) []byte {
	return vpAuthenticateMsgFull(user16, nil, tag)
}

// vpAuthenticateMsgFull: also with a domain name (UTF-16LE), as a client that is told "CORP\\user" sends it.
func vpAuthenticateMsgFull(user16, domain16 []byte, tag byte) []byte {
	const hdr = 88 // 8 sig + 4 type + 6 descriptors*8 + 4 flags + 8 version + 16 MIC
	lm := make([]byte, 24)
	lm[0] = tag
	nt := make([]byte, 52)
	nt[16], nt[17] = 1, 1 // RespType, HiRespType; AvPairs = MsvAvEOL at 44..47, then 4 reserved bytes
	off := hdr
	m := append([]byte("NTLMSSP\x00"), vpLE32b(3)...)
	m = append(m, vpDesc(len(lm), off)...)
	off += len(lm)
	m = append(m, vpDesc(len(nt), off)...)
	off += len(nt)
	m = append(m, vpDesc(len(domain16), off)...) // domain
	off += len(domain16)
	m = append(m, vpDesc(len(user16), off)...)
	off += len(user16)
	m = append(m, vpDesc(0, off)...) // workstation
	m = append(m, vpDesc(0, off)...) // session key
	m = append(m, vpLE32b(0x00088205)...)
	for len(m) < hdr {
		m = append(m, 0)
	}
	m = append(m, lm...)
	m = append(m, nt...)
	m = append(m, domain16...)
	m = append(m, user16...)
	return m
}
