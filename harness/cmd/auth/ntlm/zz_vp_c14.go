package ntlm

// C14 — the NTLM verifier authenticates only proof of the configured password.

import (
	"github.com/bolkedebruin/rdpgw/cmd/auth/config"
	"github.com/bolkedebruin/rdpgw/cmd/auth/database"
	"github.com/bolkedebruin/rdpgw/shared/auth"
)

func vpDB() database.Database {
	return database.NewConfig([]config.UserConfig{{Username: "ab", Password: "pw-ab"}, {Username: "cd", Password: ""}})
}

//vp:property C14
//vp:set k 3 4
//vp:bounds K requests (quick 3, thorough 4) over two session identifiers; each request is one of {negotiate, authenticate for a 2-character user name with symbolic characters, undecodable base64, a non-NTLM byte string, empty message}; user database {"ab": non-empty password, "cd": empty password}; the client's response was computed from an arbitrary one of {the configured password, another password} for an arbitrary one of the server sessions created so far; cached contexts may or may not expire between requests
//vp:assume ProcessAuthenticateMessage returns nil iff the response was computed from the password given to SetUserInfo and this session's challenge (go-ntlm, Appendix C); go-cache contract
//vp:reach authenticated challenged refused
func VP_C14_history() {
	vpWire = map[string][]byte{}
	vpWireBad = map[string]bool{}
	vpSessions = nil
	vpCreateFails = false
	vpMayExpire = true
	h := NewNTLMAuth(vpDB())
	k := vpParam("k")
	// ghost: per session id, the server session object that most recently answered a negotiate there
	live := map[string]*vpSession{}
	for i := 0; i < k; i++ {
		vpReqNo = i
		is := vpItoa(i)
		sid := []string{"s1", "s2"}[vpIntRange("sid"+is, 0, 1)]
		kind := vpIntRange("kind"+is, 0, 4)
		text := "m" + is
		user := ""
		switch kind {
		case 0:
			vpWire[text] = vpNegotiateMsg()
		case 1:
			c0, c1 := vpU8("u0-"+is), vpU8("u1-"+is)
			vpAssume(vpAnd(c0 < 0x80, c1 < 0x80))
			user = string([]byte{c0, c1})
			vpWire[text] = vpAuthenticateMsg([]byte{c0, 0, c1, 0})
			if vpBool("client-knows-password-" + is) {
				vpClientPw = "pw-ab"
			} else {
				vpClientPw = "other"
			}
			vpClientSess = vpIntRange("client-session-"+is, 0, 3)
		case 2:
			vpWireBad[text] = true
		case 3:
			vpWire[text] = []byte("this is no NTLM!") // arbitrary bytes are explored in VP_C10_ntlm_message
		case 4:
			text = ""
		}
		before := len(vpSessions)
		ctxBefore, hadCtx := vpCacheItems[sid]
		r, err := h.Authenticate(&auth.NtlmRequest{Session: sid, NtlmMessage: text})
		vpAssert(r != nil, "a-response-object-is-always-returned")
		if r == nil {
			return
		}
		vpObserveBool("auth"+is, r.Authenticated)
		if len(vpSessions) > before {
			live[sid] = vpSessions[len(vpSessions)-1]
		}
		if r.Authenticated {
			vpReach("authenticated")
			vpAssert(err == nil && kind == 1, "only-an-authenticate-message-authenticates")
			vpAssert(hadCtx && ctxBefore != nil, "authenticated-only-with-a-context-from-an-earlier-request-of-this-session")
			s := live[sid]
			vpAssert(s != nil && s.negotiated, "authenticated-only-after-a-negotiate-in-the-same-session")
			if s != nil {
				vpAssert(s.pw == "pw-ab" && s.user == "ab", "verified-against-the-configured-password-of-the-named-user")
				vpAssert(vpClientPw == s.pw && vpClientSess == s.id, "client-proved-the-password-against-this-sessions-challenge")
			}
			vpAssert(user == "ab" && r.Username == "ab", "returns-exactly-the-configured-user-name")
			_, still := vpCacheItems[sid]
			vpAssert(!still, "context-dropped-after-success")
			delete(live, sid)
		} else {
			vpAssert(r.Username == "", "no-user-name-without-authentication")
			if err != nil {
				_, still := vpCacheItems[sid]
				vpAssert(!still || sid == "" || text == "", "context-dropped-after-an-error")
				if text != "" {
					delete(live, sid)
				}
			}
			if r.NtlmMessage != "" {
				vpReach("challenged")
				vpAssert(kind == 0 && err == nil, "challenge-only-answers-a-negotiate")
			} else {
				vpReach("refused")
			}
		}
		// completeness: a client that knows the password and follows the exchange is authenticated
		if kind == 1 && user == "ab" && hadCtx {
			if s := live[sid]; s != nil && s.negotiated && vpClientPw == "pw-ab" && vpClientSess == s.id && !vpBool("expired-"+is) {
				vpAssert(r.Authenticated, "correct-proof-is-authenticated")
			}
		}
	}
}
