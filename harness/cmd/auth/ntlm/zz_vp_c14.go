package ntlm

// C14 — the NTLM verifier authenticates only proof of the configured password.

import (
	"github.com/bolkedebruin/rdpgw/cmd/auth/config"
	"github.com/bolkedebruin/rdpgw/cmd/auth/database"
	"github.com/bolkedebruin/rdpgw/shared/auth"
)

func vpDB() database.Database {
	return database.NewConfig([]config.UserConfig{{Username: "ab", Password: "pw-ab"}, {Username: "cd", Password: ""}, {Username: "ef", Password: "pw-ef"}, {Username: "gh", Password: "p$w"}})
}

//vp:all model os.ExpandEnv = vpmExpandEnv

// os.ExpandEnv as documented (os.Expand with os.Getenv), in an environment that defines none of the
// names a password of vpDB could be taken to refer to: $name and ${name} become the empty string, a
// "$" that no name follows stays.
func vpmExpandEnv(s string) string {
	out := []byte{}
	isName := func(c byte) bool {
		return c == '_' || (c >= '0' && c <= '9') || (c >= 'a' && c <= 'z') || (c >= 'A' && c <= 'Z')
	}
	for i := 0; i < len(s); {
		if s[i] != '$' || i+1 >= len(s) {
			out = append(out, s[i])
			i++
			continue
		}
		c := s[i+1]
		switch {
		case c == '{':
			j := i + 2
			for j < len(s) && s[j] != '}' {
				j++
			}
			if j < len(s) {
				i = j + 1
			} else {
				i += 2 // bad syntax: "${" is eaten
			}
		case c == '*' || c == '#' || c == '$' || c == '@' || c == '!' || c == '?' || c == '-':
			i += 2 // shell special variable, undefined
		case isName(c):
			j := i + 1
			for j < len(s) && isName(s[j]) {
				j++
			}
			i = j
		default:
			out = append(out, '$')
			i++
		}
	}
	return string(out)
}

//vp:property C14
//vp:set k 3 4
//vp:set maxpaths 200000 1500000
//vp:set budget 300 1500
//vp:bounds K requests (quick 3, thorough 4) over three session identifiers (two of them differing by a trailing blank only); each request is one of {negotiate, authenticate for a 2-character user name with symbolic characters and with or without a domain name, undecodable base64, a non-NTLM byte string, empty message}; user database {"ab","ef": non-empty passwords, "cd": empty password, "gh": a password with a "$" in it}; the client's proof was computed from an arbitrary password of {empty, ab's, ef's, another, gh's} under the name it sends or under ab's/ef's name, against the challenge of an arbitrary server session created so far or against the empty challenge; the library may panic inside ProcessAuthenticateMessage, before or after it verified the proof; cached contexts may or may not expire between requests
//vp:assume go-ntlm's ProcessAuthenticateMessage compares against the response key it derived at the session's FIRST authenticate message (fetchResponseKeys caches it) and this session's challenge; go-cache contract
//vp:reach authenticated challenged refused
func VP_C14_history() {
	vpWire = map[string][]byte{}
	vpWireBad = map[string]bool{}
	vpSessions = nil
	vpCreateFails = false
	vpMayExpire = true
	h := NewNTLMAuth(vpDB())
	k := vpParam("k")
	// ghost: per session id, the server session object that most recently answered a negotiate there
	live := map[string]*vpSession{}
	for i := 0; i < k; i++ {
		vpReqNo = i
		is := vpItoa(i)
		sid := []string{"s1", "s2", "s1 "}[vpIntRange("sid"+is, 0, 2)] // the third differs from the first by a trailing blank only
		kind := vpIntRange("kind"+is, 0, 4)
		text := "m" + is
		user := ""
		switch kind {
		case 0:
			vpWire[text] = vpNegotiateMsg()
		case 1:
			c0, c1 := vpU8("u0-"+is), vpU8("u1-"+is)
			vpAssume(vpAnd(c0 < 0x80, c1 < 0x80))
			user = string([]byte{c0, c1})
			var domain16 []byte
			if vpBool("clients-name-a-domain") { // (one choice for the whole history: per request it multiplies the paths beyond the budget)
				domain16 = []byte{'C', 0} // mstsc with CORP\user or .\user
			}
			vpWire[text] = vpAuthenticateMsgFull([]byte{c0, 0, c1, 0}, domain16, 0)
			// what the client computed its proof from: any of the passwords around, under the name it
			// sends or under another account's name (an attacker need not be consistent)
			vpMsgUser = user
			vpProofPwId = vpInt("proof-pw-" + is) // 0: the empty password, 1: ab's password, 2: ef's password, 3: some other password, 4: gh's password
			vpProofUserSel = vpInt("proof-user-" + is)
			vpClientSess = vpInt("client-session-" + is)
			vpAssume(vpAnd(vpAnd(vpProofPwId >= 0, vpProofPwId <= 4), vpAnd(vpAnd(vpProofUserSel >= 0, vpProofUserSel <= 2), vpAnd(vpClientSess >= -1, vpClientSess <= 3))))
		case 2:
			vpWireBad[text] = true
		case 3:
			vpWire[text] = []byte("this is no NTLM!") // arbitrary bytes are explored in VP_C10_ntlm_message
		case 4:
			text = ""
		}
		before := len(vpSessions)
		ctxBefore, hadCtx := vpCacheItems[sid]
		r, err := h.Authenticate(&auth.NtlmRequest{Session: sid, NtlmMessage: text})
		vpAssert(r != nil, "a-response-object-is-always-returned")
		if r == nil {
			return
		}
		vpObserveBool("auth"+is, r.Authenticated)
		if len(vpSessions) > before {
			live[sid] = vpSessions[len(vpSessions)-1]
		}
		if r.Authenticated {
			vpReach("authenticated")
			vpAssert(err == nil && kind == 1, "only-an-authenticate-message-authenticates")
			vpAssert(hadCtx && ctxBefore != nil, "authenticated-only-with-a-context-from-an-earlier-request-of-this-session")
			s := live[sid]
			vpAssert(s != nil && s.negotiated, "authenticated-only-after-a-negotiate-in-the-same-session")
			want := map[string]string{"ab": "pw-ab", "ef": "pw-ef", "gh": "p$w"}[user]
			vpAssert(want != "", "authenticated-user-is-configured-with-a-non-empty-password")
			if s != nil {
				vpAssert(s.keyPw == want && s.keyUser == user, "verified-against-the-configured-password-of-the-named-user")
				vpAssert(vpClientSess == s.id, "proof-was-computed-against-this-sessions-challenge")
			}
			vpAssert(vpProofPwId == vpPwId(want), "client-proved-knowledge-of-the-named-users-password")
			vpAssert(r.Username == user, "returns-exactly-the-configured-user-name")
			_, still := vpCacheItems[sid]
			vpAssert(!still, "context-dropped-after-success")
			delete(live, sid)
		} else {
			vpAssert(r.Username == "", "no-user-name-without-authentication")
			if err != nil {
				_, still := vpCacheItems[sid]
				vpAssert(!still || sid == "" || text == "", "context-dropped-after-an-error")
				if text != "" {
					delete(live, sid)
				}
			}
			// a client that starts the exchange gets its challenge, whatever other sessions have left behind
			vpAssert(kind != 0 || (err == nil && r.NtlmMessage != ""), "a-negotiate-message-is-answered-with-a-challenge")
			if r.NtlmMessage != "" {
				vpReach("challenged")
				vpAssert(kind == 0 && err == nil, "challenge-only-answers-a-negotiate")
			} else {
				vpReach("refused")
			}
		}
		// completeness: a client that knows the password and follows the exchange is authenticated
		if kind == 1 && (user == "ab" || user == "gh") && hadCtx {
			if s := live[sid]; s != nil && s.negotiated && s.processed == 1 && vpProofPwId == map[string]int{"ab": 1, "gh": 4}[user] && vpProofUserSel == 0 && vpClientSess == s.id && !vpBool("expired-"+is) {
				vpAssert(r.Authenticated, "correct-proof-right-after-the-challenge-is-authenticated")
			}
		}
	}
}

// vpSlowDB: the user database is I/O — while one request waits for its answer the service handles
// other requests (gRPC serves every call on its own goroutine).
type vpSlowDB struct {
	database.Database // whatever else the interface offers is passed through
	slow              map[string]bool
}

func (d *vpSlowDB) GetPassword(u string) string {
	p := d.Database.GetPassword(u)
	if d.slow[u] {
		vpRunTasks()
	}
	return p
}

//vp:property C14
//vp:bounds one session: a negotiate answered with a challenge, then TWO authenticate messages of that session handled concurrently (gRPC: one goroutine per call) — one by a client that knows ab's or ef's password and names that user, the other naming a 2-character user with symbolic characters and a proof made from any password of {ab's, ef's, another} under the name it sends or under ab's/ef's name; the database lookup of either request may take long enough for the other request to run meanwhile (each combination explored)
//vp:assume cooperative schedules only: a request is overtaken only while it waits for the database; the session contract of VP_C14_history
//vp:reach both-answered one-authenticated
func VP_C14_concurrent() {
	vpWire = map[string][]byte{}
	vpWireBad = map[string]bool{}
	vpSessions = nil
	vpCreateFails = false
	vpMayExpire = false
	vpReqNo = 0
	names := [2]string{}
	db := &vpSlowDB{Database: vpDB(), slow: map[string]bool{}}
	h := NewNTLMAuth(db)
	vpWire["neg"] = vpNegotiateMsg()
	r0, err0 := h.Authenticate(&auth.NtlmRequest{Session: "s1", NtlmMessage: "neg"})
	vpAssume(err0 == nil && r0 != nil && r0.NtlmMessage != "")
	sess := vpSessions[len(vpSessions)-1]
	vpProofTab = map[byte]vpProof{}
	for i := 0; i < 2; i++ {
		is := vpItoa(i)
		c0, c1 := vpU8("u0-"+is), vpU8("u1-"+is)
		vpAssume(vpAnd(c0 < 0x80, c1 < 0x80))
		names[i] = string([]byte{c0, c1})
		vpWire["auth"+is] = vpAuthenticateMsgTagged([]byte{c0, 0, c1, 0}, byte(i))
		d := vpProof{msgUser: names[i], userSel: vpInt("proof-user-" + is), pwId: vpInt("proof-pw-" + is), clientSess: sess.id}
		vpAssume(vpAnd(vpAnd(d.pwId >= 0, d.pwId <= 3), vpAnd(d.userSel >= 0, d.userSel <= 2)))
		vpProofTab[byte(i)] = d
		if vpBool("database-slow-for-request-" + is) {
			db.slow[names[i]] = true
		}
	}
	var rs [2]*auth.NtlmResponse
	done := make(chan bool, 1)
	go func() {
		rs[1], _ = h.Authenticate(&auth.NtlmRequest{Session: "s1", NtlmMessage: "auth1"})
		done <- true
	}()
	rs[0], _ = h.Authenticate(&auth.NtlmRequest{Session: "s1", NtlmMessage: "auth0"})
	<-done
	vpReach("both-answered")
	for i := 0; i < 2; i++ {
		r := rs[i]
		vpAssert(r != nil, "a-response-object-is-always-returned")
		if r == nil || !r.Authenticated {
			continue
		}
		vpReach("one-authenticated")
		d := vpProofTab[byte(i)]
		want := map[string]string{"ab": "pw-ab", "ef": "pw-ef"}[names[i]]
		vpAssert(want != "", "authenticated-user-is-configured-with-a-non-empty-password")
		vpAssert(r.Username == names[i], "returns-exactly-the-configured-user-name")
		// the client proved knowledge of the NAMED user's password: its proof was made from that password
		// under that user's name
		proofUser := names[i]
		if d.userSel == 1 {
			proofUser = "ab"
		} else if d.userSel == 2 {
			proofUser = "ef"
		}
		vpAssert(d.pwId == vpPwId(want) && proofUser == names[i], "concurrent-request-authenticated-only-with-proof-of-the-named-users-password")
	}
	vpProofTab = nil
}
