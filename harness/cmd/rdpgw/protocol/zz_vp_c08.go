package protocol

// C08 — packet boundaries come from length fields, not from transport segmentation.
// C10 — no client input can panic (readHeader / readMessage part).

import (
	"errors"
	"io"
	"strconv"
)

// vpStream builds k well-framed packets with symbolic types and bodies (each body 0..bmax bytes).
func vpStream(k, bmax int) (pkts [][]byte, types []uint16, bodies [][]byte) {
	for i := 0; i < k; i++ {
		is := strconv.Itoa(i)
		pt := vpU16("pt" + is)
		b := vpBytes("b"+is, bmax)
		pkts = append(pkts, vpPacket(pt, b))
		types = append(types, pt)
		bodies = append(bodies, b)
	}
	return
}

// vpExpectPackets reads k packets through Tunnel.Read (readMessage + readHeader) and compares them
// with the originals, then expects the transport's end-of-stream to surface as an error.
func vpExpectPackets(tr *vpTransport, types []uint16, bodies [][]byte, label string) {
	tun := &Tunnel{transportIn: tr, transportOut: tr}
	for i := range types {
		pt, n, msg, err := tun.Read()
		vpAssert(err == nil, label+"-packet-is-delivered")
		if err != nil {
			return
		}
		vpObserve("pt", uint64(pt))
		vpObserveBytes("msg", msg)
		vpAssert(pt == int(types[i]), label+"-type-preserved")
		vpAssert(n == len(bodies[i])+8, label+"-size-preserved")
		vpAssert(vpEqBytes(msg, bodies[i]), label+"-body-preserved")
	}
	_, _, _, err := tun.Read()
	vpAssert(err != nil, label+"-end-of-stream-is-an-error")
}

//vp:property C08
//vp:set k 2 3
//vp:set bmax 2 6
//vp:bounds k packets (quick 2, thorough 3), symbolic types, bodies 0..bmax symbolic bytes, one packet per transport read
func VP_C08_whole() {
	pkts, types, bodies := vpStream(vpParam("k"), vpParam("bmax"))
	tr := &vpTransport{in: pkts}
	vpExpectPackets(tr, types, bodies, "whole")
}

//vp:property C08
//vp:set k 2 3
//vp:set bmax 2 4
//vp:bounds k packets, each delivered in exactly two reads at every cut position 1..len-1, no coalescing
func VP_C08_split2() {
	pkts, types, bodies := vpStream(vpParam("k"), vpParam("bmax"))
	var segs [][]byte
	for i, p := range pkts {
		c := vpIntRange("cut"+strconv.Itoa(i), 1, len(p)-1)
		segs = append(segs, p[:c:c], p[c:])
	}
	tr := &vpTransport{in: segs}
	vpExpectPackets(tr, types, bodies, "split2")
}

//vp:property C08
//vp:set bmax 2 4
//vp:bounds one packet delivered in three reads at every pair of cut positions
func VP_C08_split3() {
	pkts, types, bodies := vpStream(1, vpParam("bmax"))
	p := pkts[0]
	c1 := vpIntRange("cut1", 1, len(p)-2)
	c2 := vpIntRange("cut2", c1+1, len(p)-1)
	tr := &vpTransport{in: [][]byte{p[:c1:c1], p[c1:c2:c2], p[c2:]}}
	vpExpectPackets(tr, types, bodies, "split3")
}

//vp:property C08
//vp:set bmax 2 3
//vp:set k 3 4
//vp:bounds k packets (quick 3, thorough 4; symbolic types, bodies 0..bmax symbolic bytes) delivered in ONE read, so that all but the first are served from bytes buffered by an earlier call
func VP_C08_coalesce() {
	pkts, types, bodies := vpStream(vpParam("k"), vpParam("bmax"))
	var both []byte
	for _, p := range pkts {
		both = append(both, p...)
	}
	tr := &vpTransport{in: [][]byte{both}}
	vpExpectPackets(tr, types, bodies, "coalesce")
}

//vp:property C08
//vp:set k 2 3
//vp:set bmax 1 2
//vp:set cuts 2 3
//vp:set maxpaths 200000 400000
//vp:bounds the byte stream of k packets (symbolic types, bodies 0..bmax symbolic bytes) delivered in cuts+1 transport reads cut at every combination of `cuts` strictly increasing positions of the stream, independent of the packet boundaries (so a read may end inside a header, carry the end of one packet and the start of the next, or several whole packets)
func VP_C08_segments() {
	pkts, types, bodies := vpStream(vpParam("k"), vpParam("bmax"))
	var stream []byte
	for _, p := range pkts {
		stream = append(stream, p...)
	}
	var segs [][]byte
	last := 0
	ncuts := vpParam("cuts")
	for i := 0; i < ncuts; i++ {
		c := vpIntRange("cut"+strconv.Itoa(i), last+1, len(stream)-(ncuts-i))
		segs = append(segs, stream[last:c:c])
		last = c
	}
	segs = append(segs, stream[last:])
	tr := &vpTransport{in: segs}
	vpExpectPackets(tr, types, bodies, "segments")
}

//vp:property C08
//vp:set k 2 3
//vp:set bmax 1 2
//vp:bounds the byte stream of k packets (symbolic types, bodies 0..bmax bytes) in one read or cut at any one position; the LAST read reports the end of the stream (io.EOF) or a transport failure TOGETHER with its bytes (n > 0 and err != nil), as the legacy transport does when the terminating HTTP chunk is already buffered behind the last packet
//vp:assume io.Reader contract: a Read may return n > 0 and a non-nil error; callers process the n bytes before considering the error
func VP_C08_error_with_last_bytes() {
	pkts, types, bodies := vpStream(vpParam("k"), vpParam("bmax"))
	var stream []byte
	for _, p := range pkts {
		stream = append(stream, p...)
	}
	segs := [][]byte{stream}
	if vpBool("cut-once") {
		c := vpIntRange("cut", 1, len(stream)-1)
		segs = [][]byte{stream[:c:c], stream[c:]}
	}
	tr := &vpTransport{in: segs, errWithLast: io.EOF}
	if vpBool("failure-instead-of-eof") {
		tr.errWithLast = errors.New("vp: malformed chunked encoding")
	}
	vpExpectPackets(tr, types, bodies, "lastread")
}

//vp:property C08
//vp:set maxalloc 4096 4096
//vp:bounds a slow path: one packet with a 92-byte body (symbolic type, symbolic first/last body byte) delivered in reads of 1, 2 or 3 bytes each (100, 50 or 34 transport reads), followed by a small packet in one read
func VP_C08_trickle() {
	body := make([]byte, 92)
	for i := range body {
		body[i] = 0x5C
	}
	body[0], body[91] = vpU8("first"), vpU8("last")
	pt := vpU16("pt")
	p := vpPacket(pt, body)
	step := vpIntRange("bytes-per-read", 1, 3)
	var segs [][]byte
	for i := 0; i < len(p); i += step {
		j := i + step
		if j > len(p) {
			j = len(p)
		}
		segs = append(segs, p[i:j:j])
	}
	pt2 := vpU16("pt2")
	b2 := []byte{vpU8("b2")}
	segs = append(segs, vpPacket(pt2, b2))
	tr := &vpTransport{in: segs}
	vpExpectPackets(tr, []uint16{pt, pt2}, [][]byte{body, b2}, "trickle")
}

//vp:property C08 C06 C10
//vp:bounds one 5000-byte packet (symbolic type; symbolic first, middle, last payload bytes, rest constant) delivered in exactly two reads cut at 100, 3000, 4095, 4096 (first fragment fits the 4096-byte scratch buffer, the whole packet does not)
func VP_C08_split2_big() {
	body := make([]byte, 4992)
	for i := range body {
		body[i] = 0xAB
	}
	body[0], body[2500], body[4991] = vpU8("first"), vpU8("mid"), vpU8("last")
	pt := vpU16("pt")
	p := vpPacket(pt, body)
	c := []int{100, 3000, 4095, 4096}[vpIntRange("cut", 0, 3)]
	tr := &vpTransport{in: [][]byte{p[:c:c], p[c:]}}
	vpExpectPackets(tr, []uint16{pt}, [][]byte{body}, "split2big")
}

//vp:property C08
//vp:bounds one 4200-byte packet (symbolic type, symbolic first and last payload bytes, rest zero) whose first fragment is 4100 bytes, i.e. larger than the 4096-byte scratch buffer
func VP_C08_bigfrag() {
	body := make([]byte, 4192)
	body[0] = vpU8("first")
	body[4191] = vpU8("last")
	body[4090] = vpU8("mid")
	pt := vpU16("pt")
	p := vpPacket(pt, body)
	tr := &vpTransport{in: [][]byte{p[:4100:4100], p[4100:]}}
	vpExpectPackets(tr, []uint16{pt}, [][]byte{body}, "bigfrag")
}

//vp:property C08 C10
//vp:set n 16 24
//vp:bounds a single read of every length 0..n with arbitrary bytes (all 2^32 length-field values, all types), then end of stream
//vp:reach framed unframed
func VP_C08_unframeable() {
	data := vpBytes("data", vpParam("n"))
	tr := &vpTransport{in: [][]byte{data}}
	pt, n, msg, err := (&Tunnel{transportIn: tr, transportOut: tr}).Read()
	if err == nil {
		vpReach("framed")
		// whatever is returned as a packet is what the header describes
		size := vpLE32(data, 4)
		vpAssert(len(data) >= 8 && size >= 8 && int(size) <= len(data), "only-well-framed-bytes-are-returned-as-a-packet")
		vpAssert(pt == int(vpLE16(data, 0)) && n == int(size) && len(msg) == int(size)-8, "returned-packet-matches-header")
	} else {
		vpReach("unframed")
	}
}

//vp:property C08 C10
//vp:set n 12 24
//vp:bounds readHeader on every buffer of length 0..n with arbitrary bytes: all 2^32 length-field values including 0..7
//vp:reach ok short
func VP_C10_readHeader() {
	data := vpBytes("data", vpParam("n"))
	pt, size, pkt, err := readHeader(data)
	if err == nil {
		vpReach("ok")
		vpAssert(len(data) >= 8 && size >= 8 && int(size) <= len(data), "accepts-only-complete-packets")
		vpAssert(pt == vpLE16(data, 0) && size == vpLE32(data, 4), "header-fields-decoded")
		vpAssert(len(pkt) == int(size)-8, "payload-is-size-minus-header")
	} else {
		vpReach("short")
	}
}

//vp:property C08 C06
//vp:set npk 3 3
//vp:set loopmax 600000 600000
//vp:bounds websocket transport through handleWebsocketProtocol: the four set-up packets (one per message), then ONE websocket message carrying npk DATA packets of the largest payload (65535 bytes each; first and last byte of each symbolic), then the client drops; whatever read limit the handler configures on the connection is honoured by the transport model
//vp:assume gorilla: a message larger than the configured read limit fails the read; no limit is configured by default
//vp:reach relayed
func VP_C08_ws_coalesced() {
	vpResetHandlers()
	npk := vpParam("npk")
	var msg, want []byte
	for i := 0; i < npk; i++ {
		pl := make([]byte, 65535)
		for j := range pl {
			pl[j] = 0xC3
		}
		pl[0], pl[65534] = vpU8("first"+strconv.Itoa(i)), vpU8("last"+strconv.Itoa(i))
		msg = append(msg, vpPacket(0xA, append([]byte{0xFF, 0xFF}, pl...))...)
		want = append(want, pl...)
	}
	tr := &vpTransport{in: [][]byte{vpSetupPacket(0), vpSetupPacket(1), vpSetupPacket(2), vpSetupPacket(3), msg}}
	vpNextTransports = []*vpTransport{tr}
	g := &Gateway{}
	t := &Tunnel{RDGId: "conn-1", User: vpUser(), RemoteAddr: "10.0.0.1:1"}
	g.handleWebsocketProtocol(vpCtx(), nil, t)
	vpRunTasks()
	vpReach("relayed")
	vpAssume(len(vpDialConns) == 1) // the host accepted the connection
	var got []byte
	for _, w := range vpDialConns[0].written {
		got = append(got, w...)
	}
	vpAssert(len(got) == len(want), "every-coalesced-packet-is-processed")
	vpAssert(vpEqBytes(got, want), "coalesced-payloads-reach-the-host-in-order")
}

//vp:property C08 C10
//vp:set reads 2 2
//vp:set n 10 13
//vp:set budget 300 1200
//vp:set maxalloc 40 40
//vp:bounds an ARBITRARY client byte stream delivered in `reads` transport reads of 0..n arbitrary bytes each, then end of stream; Tunnel.Read is called until it fails. Reference framer written from the property: at offset off, a packet is the next LE32(off+4) bytes if that is >= 8 and wholly present
//vp:reach delivered ended
func VP_C08_arbitrary_stream() {
	nr := vpParam("reads")
	var segs [][]byte
	var stream []byte
	for i := 0; i < nr; i++ {
		b := vpBytes("read"+strconv.Itoa(i), vpParam("n"))
		segs = append(segs, b)
		stream = append(stream, b...)
	}
	tr := &vpTransport{in: segs}
	tun := &Tunnel{transportIn: tr, transportOut: tr}
	off := 0
	for i := 0; i <= len(stream)/8+1; i++ {
		pt, n, msg, err := tun.Read()
		// what the reference framer expects at off
		have := len(stream) - off
		var size int
		if have >= 8 {
			size = int(vpLE32(stream, off+4))
		}
		framed := have >= 8 && size >= 8 && size <= have
		if err != nil {
			vpReach("ended")
			vpAssert(!framed, "a-wholly-present-well-framed-packet-is-delivered")
			return
		}
		vpReach("delivered")
		vpAssert(framed, "only-well-framed-wholly-present-bytes-are-delivered-as-a-packet")
		if !framed {
			return
		}
		vpAssert(pt == int(vpLE16(stream, off)) && n == size && len(msg) == size-8, "delivered-packet-is-what-the-header-at-this-offset-describes")
		if len(msg) == size-8 {
			vpAssert(vpEqBytes(msg, stream[off+8:off+size]), "delivered-body-is-the-stream-bytes-after-the-header")
		}
		off += size
	}
}


//vp:property C08 C11
//vp:bounds a handshake request that arrives in two reads (cut after byte 1..13), then the client stays silent for longer than any timeout the gateway may have armed, then it sends its tunnel-create
//vp:assume the transport model honours a read deadline if the code sets one (the unchanged code sets none)
//vp:reach answered
func VP_C08_pause_after_a_split_packet() {
	vpResetC01()
	hs := vpPacket(PKT_TYPE_HANDSHAKE_REQUEST, []byte{1, 0, 0, 0, 0, 0})
	cut := vpIntRange("cut", 1, len(hs)-1)
	tr := &vpTransport{in: [][]byte{hs[:cut], hs[cut:], vpSetupPacket(1)}}
	tr.pauseAt = 3
	tun := &Tunnel{transportIn: tr, transportOut: tr, User: vpUser()}
	NewProcessor(&Gateway{}, tun).Process(vpCtx())
	vpReach("answered")
	vpAssert(len(tr.out) == 2 && vpLE16(tr.out[0], 0) == 2 && vpLE16(tr.out[1], 0) == 5, "a-packet-that-came-in-pieces-does-not-shorten-the-life-of-the-tunnel")
}
