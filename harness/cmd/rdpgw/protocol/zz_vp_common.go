package protocol

// Shared harness scaffolding for package protocol (overlay only).

import (
	"context"
	"errors"
	"io"
	"net"
	"sync"
	"time"

	"github.com/bolkedebruin/rdpgw/cmd/rdpgw/identity"
	"github.com/google/uuid"
)

//vp:all model github.com/google/uuid.New = vpmUUIDNew
//vp:all stub time.NewTimer = vpNewTimer
//vp:all stub time.After = vpAfter

var vpUUIDCtr byte

// distinct ids, as uuid.New gives (the value itself is irrelevant)
func vpmUUIDNew() uuid.UUID { vpUUIDCtr++; return uuid.UUID{vpUUIDCtr} }

// vpTransport implements transport.Transport: scripted reads, recorded writes.
type vpTransport struct {
	in     [][]byte
	pos    int
	out    [][]byte
	closed bool
	nread  int
	gen    func(i int) []byte // lazy script: packet i is created when it is read
	ngen   int
	accepts, drains, ncloses int
	yieldOnRead bool
	stallWrites bool
	readDeadline bool // SetReadDeadline was called with a non-zero time and not cleared since
	onStall     func() // called once, when the first stalled write of a DATA packet begins
	drainFails  bool
	corrupted   int
	beforeEOF   func()
	onAccept    func() // runs while the accept (HTTP response head) is being written to this connection
	onDrain     func() // runs while the gateway waits for the connection's first bytes (Drain)
	clientGone  bool // DATA writes to this connection block until it is closed (a client that stopped reading)
	isWS        bool // handed out by the NewWS stub: one ReadPacket = one websocket message
	errWithLast error // io.Reader contract: the LAST scripted read returns its bytes together with this error (n > 0, err != nil)
	pauseAt     int  // 1+index of the packet before which the client stays silent for a long time (0: never)
	failWriteAt int  // 1+index of the WritePacket call that fails (the client connection was reset); later ones fail too
	nwrites     int
	countOverlaps bool // keep the two counters below
	inflight    int  // WritePacket calls in progress
	closedCh    chan struct{}
	overlaps    int  // times a WritePacket call began while another was in progress (one writer at a time!)
}

func (t *vpTransport) ReadPacket() (int, []byte, error) {
	if t.yieldOnRead {
		vpRunTasks() // waiting for the client is where the tunnel's other goroutines get to run
	}
	t.nread++
	if t.pauseAt == t.pos+1 {
		t.pauseAt = 0
		vpSleepLong() // longer than any timeout the gateway may have armed
		if t.readDeadline {
			// a read deadline that is still in force has passed by now
			return 0, []byte{0, 0}, errors.New("vp: read: i/o timeout")
		}
	}
	if t.gen != nil {
		if t.pos >= t.ngen {
			return 0, []byte{0, 0}, io.EOF
		}
		p := t.gen(t.pos)
		t.pos++
		return len(p), p, nil
	}
	if t.pos >= len(t.in) {
		if t.beforeEOF != nil {
			t.beforeEOF() // the client drops only after this (e.g. after the host stream was relayed)
		}
		return 0, []byte{0, 0}, io.EOF
	}
	p := t.in[t.pos]
	t.pos++
	if t.isWS && vpWSReadLimit > 0 && int64(len(p)) > vpWSReadLimit {
		return 0, []byte{0, 0}, errors.New("vp: websocket: read limit exceeded")
	}
	if t.errWithLast != nil && t.pos == len(t.in) {
		// the end of the stream (or a failure) is reported together with the last bytes, as net/http's
		// chunked reader does when the terminating chunk is already buffered behind them
		return len(p), p, t.errWithLast
	}
	return len(p), p, nil
}

// SetReadDeadline (for code that bounds the wait for the client, as both real transports could): the zero
// time clears it.
func (t *vpTransport) SetReadDeadline(d time.Time) error {
	t.readDeadline = !d.IsZero()
	return nil
}

func (t *vpTransport) WritePacket(b []byte) (int, error) {
	if t.countOverlaps {
		// (only on request: the bookkeeping synchronises the writers with each other, which would hide an
		// unsynchronised pair of writes from the race detector in the native replay of the lockset harnesses)
		vpMu.Lock()
		t.inflight++
		if t.inflight > 1 {
			t.overlaps++
		}
		vpMu.Unlock()
		defer func() {
			vpMu.Lock()
			t.inflight--
			vpMu.Unlock()
		}()
	}
	t.nwrites++
	if t.failWriteAt > 0 && t.nwrites >= t.failWriteAt {
		return 0, errors.New("vp: write: connection reset by peer")
	}
	c := make([]byte, len(b))
	copy(c, b)
	if t.clientGone && len(b) >= 2 && b[0] == 0xA && b[1] == 0 {
		// the client no longer drains this connection: a DATA write blocks until the connection is
		// closed (by the gateway, or by the operating system once the peer is gone for good)
		<-t.closedChan()
		return 0, errors.New("vp: write on a closed connection")
	}
	if t.stallWrites {
		// a slow client: the write is in flight while the tunnel's other goroutines run
		if t.onStall != nil && len(b) >= 2 && b[0] == 0xA && b[1] == 0 {
			f := t.onStall
			t.onStall = nil
			f()
		}
		vpRunTasks()
		if !vpEqBytes(b, c) {
			t.corrupted++
		}
	}
	t.out = append(t.out, c)
	return len(b), nil
}

func (t *vpTransport) Close() error {
	ch := t.closedChan()
	vpMu.Lock()
	if !t.closed {
		close(ch)
	}
	t.closed = true
	t.ncloses++
	vpMu.Unlock()
	return nil
}

// closedChan is closed when the connection is.
func (t *vpTransport) closedChan() chan struct{} {
	vpMu.Lock()
	defer vpMu.Unlock()
	if t.closedCh == nil {
		t.closedCh = make(chan struct{})
	}
	return t.closedCh
}

// vpConn implements net.Conn: scripted reads, recorded writes, close flag.
type vpConn struct {
	reads    [][]byte
	rpos     int
	written  [][]byte
	closed   bool
	nclose   int
	readsAfterClose int
	block    bool // natively: Read blocks when the script is exhausted (a quiet backend)
	peerStopsReading bool // writes block (send buffer full) until the connection is closed
	writeDeadline    bool // a write deadline is in force
	closedCh         chan struct{}
	halfClosed       bool // CloseWrite was called
	gate             chan struct{} // when set: the host has nothing to say before the gate is closed
	mu       sync.Mutex // net.Conn implementations are safe for concurrent use
}

var vpErrClosed = errors.New("vpConn: use of closed connection")
var vpErrEOF = errors.New("vpConn: EOF")

func (c *vpConn) Read(b []byte) (int, error) {
	if c.gate != nil {
		<-c.gate
	}
	c.mu.Lock()
	defer c.mu.Unlock()
	if c.closed {
		c.readsAfterClose++
		return 0, vpErrClosed
	}
	if c.rpos >= len(c.reads) {
		if c.block {
			c.mu.Unlock()
			vpWaitClosed(c) // quiet backend: the reader waits until the connection is closed
			c.mu.Lock()
			return 0, vpErrClosed
		}
		return 0, vpErrEOF
	}
	n := copy(b, c.reads[c.rpos])
	if n < len(c.reads[c.rpos]) {
		c.reads[c.rpos] = c.reads[c.rpos][n:] // stream semantics: the rest arrives with the next Read
	} else {
		c.rpos++
	}
	return n, nil
}

// vpWaitClosed: the reader of a quiet connection waits until somebody closes it (forever if nobody does).
func vpWaitClosed(c *vpConn) { <-c.closedChan() }

// closedChan is closed when the connection is.
func (c *vpConn) closedChan() chan struct{} {
	c.mu.Lock()
	defer c.mu.Unlock()
	if c.closedCh == nil {
		c.closedCh = make(chan struct{})
		if c.closed {
			close(c.closedCh)
		}
	}
	return c.closedCh
}

func (c *vpConn) Write(b []byte) (int, error) {
	if c.peerStopsReading {
		// the peer's receive window and the local send buffer are full: the write blocks until the
		// connection is closed, or fails once a write deadline set by the caller expires
		if c.writeDeadline {
			return 0, errors.New("vpConn: i/o timeout")
		}
		vpWaitClosed(c)
		return 0, vpErrClosed
	}
	c.mu.Lock()
	defer c.mu.Unlock()
	if c.closed {
		return 0, vpErrClosed
	}
	d := make([]byte, len(b))
	copy(d, b)
	c.written = append(c.written, d)
	return len(b), nil
}

func (c *vpConn) Close() error {
	c.mu.Lock()
	defer c.mu.Unlock()
	if !c.closed && c.closedCh != nil {
		close(c.closedCh)
	}
	c.closed = true
	c.nclose++
	return nil
}

// CloseWrite (as *net.TCPConn has it): the sending direction ends, the host sees end-of-stream. What the
// host does then is its own business — this one keeps its side open (it may have more to say, or be hung),
// so a reader of the connection keeps waiting until somebody closes it.
func (c *vpConn) CloseWrite() error {
	c.mu.Lock()
	defer c.mu.Unlock()
	if c.closed {
		return vpErrClosed
	}
	c.halfClosed = true
	return nil
}
func (c *vpConn) LocalAddr() net.Addr                { return nil }
func (c *vpConn) RemoteAddr() net.Addr               { return nil }
func (c *vpConn) SetDeadline(t time.Time) error      { c.writeDeadline = !t.IsZero(); return nil }
func (c *vpConn) SetReadDeadline(t time.Time) error  { return nil }
func (c *vpConn) SetWriteDeadline(t time.Time) error { c.writeDeadline = !t.IsZero(); return nil }

func vpUser() identity.Identity {
	u := identity.NewUser()
	u.SetAttribute(identity.AttrClientIp, "10.0.0.1")
	u.SetAttribute(identity.AttrRemoteAddr, "10.0.0.1:1234")
	return u
}

func vpCtx() context.Context { return context.Background() }

// vpPacket frames body as an MS-TSGU packet (written from the spec, not via createPacket).
func vpPacket(pt uint16, body []byte) []byte {
	n := uint32(len(body) + 8)
	p := make([]byte, 0, len(body)+8)
	p = append(p, byte(pt), byte(pt>>8), 0, 0, byte(n), byte(n>>8), byte(n>>16), byte(n>>24))
	p = append(p, body...)
	return p
}

func vpLE16(b []byte, off int) uint16 {
	if off+2 > len(b) {
		return 0
	}
	return uint16(b[off]) | uint16(b[off+1])<<8
}

func vpLE32(b []byte, off int) uint32 {
	if off+4 > len(b) {
		return 0
	}
	return uint32(b[off]) | uint32(b[off+1])<<8 | uint32(b[off+2])<<16 | uint32(b[off+3])<<24
}

func vpB2U(b bool) uint16 {
	if b {
		return 1
	}
	return 0
}
