package protocol

// C10 — no client input can panic the packet parsers (protocol part).
// Every implicit runtime panic (index, slice bounds, nil dereference, failed type assertion,
// divide, makeslice) on any path is an obligation of the executor; the harness only has to
// drive the parsers with arbitrary bytes.

//vp:property C10
//vp:set n 12 20
//vp:set maxalloc 32 32
//vp:bounds every request parser (handshake, tunnel-create, tunnel-auth, channel-create, data, UTF-16 decode) on one arbitrary body of every length 0..n; inner declared lengths symbolic up to carried+4; name units beyond the third restricted to ASCII (fork control)
//vp:reach done
func VP_C10_parsers() {
	p := &Processor{gw: &Gateway{}}
	body := vpBytes("body", vpParam("n"))
	lim := uint16(len(body) + 4)
	which := vpIntRange("parser", 0, 5)
	for i := 8; i+1 < len(body); i += 2 {
		vpAssume(vpAnd(body[i] < 0x80, body[i+1] == 0))
	}
	switch which {
	case 0:
		p.handshakeRequest(body)
	case 1:
		vpAssume(vpLE16(body, 8) <= lim)
		p.tunnelRequest(body)
	case 2:
		vpAssume(vpLE16(body, 0) <= lim)
		p.tunnelAuthRequest(body)
	case 3:
		vpAssume(vpLE16(body, 6) <= lim)
		p.channelRequest(body)
	case 4:
		vpAssume(vpLE16(body, 0) <= lim)
		receive(body, &vpConn{})
	case 5:
		DecodeUTF16(body)
	}
	vpReach("done")
	vpAssert(true, "parser-returned")
}

//vp:property C10
//vp:set maxalloc 70000 70000
//vp:bounds extreme declared inner lengths {255, 4096, 65535} against short bodies (0..2 carried payload bytes) for the four length-prefixed parsers; the allocation and decode loops are then concrete in the length
//vp:reach done
func VP_C10_parsers_extreme() {
	p := &Processor{gw: &Gateway{}}
	decl := []uint16{255, 4096, 65535}[vpIntRange("decl", 0, 2)]
	extra := vpBytes("extra", 2)
	lo, hi := byte(decl), byte(decl>>8)
	which := vpIntRange("parser", 1, 4)
	switch which {
	case 1:
		p.tunnelRequest(append([]byte{0, 0, 0, 0, 1, 0, 0, 0, lo, hi}, extra...))
	case 2:
		p.tunnelAuthRequest(append([]byte{lo, hi}, extra...))
	case 3:
		p.channelRequest(append([]byte{1, 0, 0x3d, 0x0d, 3, 0, lo, hi}, extra...))
	case 4:
		receive(append([]byte{lo, hi}, extra...), &vpConn{})
	}
	vpReach("done")
	vpAssert(true, "parser-returned")
}


//vp:property C10 C06
//vp:set maxalloc 70000 70000
//vp:set loopmax 400000 400000
//vp:bounds the largest DATA packets: declared payload length 65533 / 65534 / 65535 with the payload fully carried (first and last byte symbolic) plus 0 or 1 surplus bytes, through the packet loop with an open channel
//vp:reach relayed
func VP_C10_data_largest() {
	vpResetC01()
	n := []int{65533, 65534, 65535}[vpIntRange("declared", 0, 2)]
	pl := make([]byte, n+vpIntRange("surplus", 0, 1))
	for i := range pl {
		pl[i] = 0x3C
	}
	pl[0], pl[n-1] = vpU8("first"), vpU8("last")
	tr := &vpTransport{in: [][]byte{vpPacket(0xA, append([]byte{byte(n), byte(n >> 8)}, pl...))}}
	rwc := &vpConn{block: true}
	tun := &Tunnel{transportIn: tr, transportOut: tr, User: vpUser(), rwc: rwc}
	p := NewProcessor(&Gateway{}, tun)
	p.state = SERVER_STATE_CHANNEL_CREATE
	p.Process(vpCtx())
	vpDropTasks()
	vpReach("relayed")
	total := 0
	for _, w := range rwc.written {
		total += len(w)
	}
	vpAssert(total == n, "host-receives-exactly-the-declared-payload")
	if total == n && len(rwc.written) == 1 {
		vpAssert(rwc.written[0][0] == pl[0] && rwc.written[0][n-1] == pl[n-1], "payload-bytes-unchanged")
	}
}
