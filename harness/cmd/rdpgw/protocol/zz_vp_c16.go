package protocol

// C16 — responses are well-formed MS-TSGU packets reporting true outcome and policy.
// (Per-step response layout and status clauses are asserted in VP_C01_step.)

//vp:property C16
//vp:bounds all 2^7 redirect switch combinations and all 2^32 idle-timeout values (int32 range), symbolically
//vp:reach neg nonneg
func VP_C16_tunnelAuthPolicy() {
	f := RedirectFlags{
		Clipboard: vpBool("clip"), Port: vpBool("port"), Drive: vpBool("drive"), Printer: vpBool("printer"),
		Pnp: vpBool("pnp"), DisableAll: vpBool("disableAll"), EnableAll: vpBool("enableAll"),
	}
	idle := int(int32(vpU32("idle")))
	gw := &Gateway{RedirectFlags: f, IdleTimeout: idle}
	p := &Processor{gw: gw}
	code := vpU32("code")
	r := p.tunnelAuthResponse(int(code))

	// oracle: MS-TSGU 2.2.10.18 HTTP_TUNNEL_AUTH_RESPONSE + 2.2.5.3.6 redirection flags
	var want uint64
	want |= vpIte(!f.Drive, 0x1, 0)
	want |= vpIte(!f.Printer, 0x2, 0)
	want |= vpIte(!f.Port, 0x4, 0)
	want |= vpIte(!f.Clipboard, 0x8, 0)
	want |= vpIte(!f.Pnp, 0x10, 0)
	want = vpIte(f.EnableAll, 0x80000000, want)
	want = vpIte(f.DisableAll, 0x40000000, want)

	vpAssert(len(r) == 24, "tunnel-auth-resp-24-bytes")
	if len(r) != 24 {
		return
	}
	vpObserveBytes("resp", r)
	vpAssert(vpLE16(r, 0) == 7 && vpLE16(r, 2) == 0 && vpLE32(r, 4) == 24, "header")
	vpAssert(vpLE32(r, 8) == code, "status-field-is-the-outcome")
	vpAssert(vpLE16(r, 12) == 3 && vpLE16(r, 14) == 0, "fields-present-mask")
	vpAssert(uint64(vpLE32(r, 16)) == want, "redirect-flags-encode-the-configured-policy")
	if idle < 0 {
		vpReach("neg")
		vpAssert(vpLE32(r, 20) == 0, "negative-idle-timeout-reported-as-zero")
	} else {
		vpReach("nonneg")
		vpAssert(vpLE32(r, 20) == uint32(idle), "idle-timeout-reported")
	}
}

//vp:property C16
//vp:bounds every status word (2^32), version bytes (2^16), capability word (2^16), symbolically, for each of the five response builders
func VP_C16_builders() {
	p := &Processor{gw: &Gateway{}}
	code := vpU32("code")
	maj, min := vpU8("maj"), vpU8("min")
	caps := vpU16("caps")

	h := p.handshakeResponse(maj, min, caps, int(code))
	vpAssert(len(h) == 18, "handshake-18")
	if len(h) == 18 {
		vpAssert(vpLE16(h, 0) == 2 && vpLE16(h, 2) == 0 && vpLE32(h, 4) == 18, "handshake-header")
		vpAssert(vpLE32(h, 8) == code && h[12] == maj && h[13] == min && vpLE16(h, 14) == 0 && vpLE16(h, 16) == caps, "handshake-fields")
	}
	t := p.tunnelResponse(int(code))
	vpAssert(len(t) == 26, "tunnel-26")
	if len(t) == 26 {
		vpAssert(vpLE16(t, 0) == 5 && vpLE16(t, 2) == 0 && vpLE32(t, 4) == 26, "tunnel-header")
		vpAssert(vpLE16(t, 8) == 0 && vpLE32(t, 10) == code && vpLE16(t, 14) == 3 && vpLE16(t, 16) == 0, "tunnel-fixed-fields")
		vpAssert(vpLE32(t, 22) == 2, "tunnel-caps-idle-timeout")
	}
	c := p.channelResponse(int(code))
	vpAssert(len(c) == 20, "channel-20")
	if len(c) == 20 {
		vpAssert(vpLE16(c, 0) == 9 && vpLE16(c, 2) == 0 && vpLE32(c, 4) == 20, "channel-header")
		vpAssert(vpLE32(c, 8) == code && vpLE16(c, 12) == 1 && vpLE16(c, 14) == 0 && vpLE32(c, 16) == 1, "channel-fields")
	}
	x := p.channelCloseResponse(int(code))
	vpAssert(len(x) >= 12, "close-min")
	if len(x) >= 12 {
		vpAssert(vpLE16(x, 0) == 0x11 && vpLE16(x, 2) == 0 && vpLE32(x, 4) == uint32(len(x)), "close-header")
		vpAssert(vpLE32(x, 8) == code, "close-status")
	}
	vpObserveBytes("h", h)
	vpObserveBytes("t", t)
	vpObserveBytes("c", c)
	vpObserveBytes("x", x)
}

// vpLogYields stands in for log.Printf in VP_C16_answer_before_host_bytes: writing a log line takes
// time (a busy log sink, a loaded machine), the other goroutines of the tunnel run meanwhile.
// (A stub rewrites the package's call sites, so it is in force for every harness of the package: the
// switch keeps log lines inert everywhere else.)
var vpLogLinesYield bool

func vpLogYields(format string, a ...interface{}) {
	if vpLogLinesYield {
		vpRunTasks()
	}
}

//vp:property C16 C06
//vp:stub log.Printf = vpLogYields
//vp:bounds one tunnel, full set-up sequence, then the client drops; the host talks first (it has a chunk for the client as soon as it is connected: a banner, a load balancer's greeting); every log line the packet loop writes is a point at which the other goroutines of the tunnel run
//vp:assume cooperative schedules in which goroutines switch at log lines and where the running one waits
//vp:reach answered
func VP_C16_answer_before_host_bytes() {
	vpResetC01()
	vpResetHandlers()
	vpLogLinesYield = true
	defer func() { vpLogLinesYield = false }()
	vpBackendChunk = []byte{0x5A, 0x5B}
	vpAssume(!vpBool("dialfail1"))
	tr := vpScript(4, 0)
	tr.yieldOnRead = true
	tun := &Tunnel{transportIn: tr, transportOut: tr, User: vpUser()}
	NewProcessor(&Gateway{}, tun).Process(vpCtx())
	vpRunTasks()
	vpReach("answered")
	// the packet that follows the client's channel-create is its answer; the host's bytes come after it
	want := []uint16{2, 5, 7, 9}
	vpAssert(len(tr.out) >= 4, "every-step-answered")
	for i := 0; i < 4 && i < len(tr.out); i++ {
		vpAssert(len(tr.out[i]) >= 2 && vpLE16(tr.out[i], 0) == want[i], "each-request-is-answered-by-its-response-type-before-anything-else-is-sent")
	}
	nData := 0
	for _, p := range tr.out {
		if len(p) >= 2 && p[0] == 0xA {
			nData++
		}
	}
	vpAssert(nData <= 1, "host-bytes-relayed-once")
}
