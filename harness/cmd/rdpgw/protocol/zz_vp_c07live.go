package protocol

// C07 / C09 / C01 — a THIRD connection that carries the connection identifier of a LIVE legacy
// tunnel (a second RDG_OUT_DATA request, a websocket upgrade, or a second RDG_IN_DATA request),
// possibly from another client. A legacy tunnel pairs one inbound and one outbound connection; a
// further connection must neither receive the live tunnel's stream, nor replace the tunnel's
// transports under the relay goroutine, nor end or re-run the tunnel.

import (
	"context"
	"net/http"

	"github.com/bolkedebruin/rdpgw/cmd/rdpgw/identity"
)

//vp:property C07 C01 C03 C11
//vp:bounds one legacy tunnel of client alice (RDG_OUT_DATA then RDG_IN_DATA, connection id "conn-1", full set-up, one DATA packet, then the client drops; its host has one chunk for the client); between the two requests (at = 0) or while the packet loop waits for its at-th packet (at = 1..5) a third request with the same connection id arrives from another address, authenticated as another user (bob) or as alice again: a second legacy RDG_OUT_DATA, a websocket upgrade (handshake, tunnel-create, then drops), a second RDG_IN_DATA (handshake, then drops; not at 0, where it would simply BE the tunnel's inbound connection), a websocket upgrade whose Connection header is a token list ("keep-alive, Upgrade"), or an RDG_OUT_DATA request with only one of the two upgrade headers (Upgrade: websocket without Connection: upgrade, or the reverse), which cannot be upgraded
//vp:assume one cooperative schedule per choice of `at` (the third request is served in full at that moment); the relay goroutine runs whenever the packet loop waits for the client; the token callback notes on the tunnel of its context who presented the token (as the security package's callback does)
//vp:reach ended third-served
func VP_C07_live_takeover() {
	vpResetHandlers()
	g := &Gateway{}
	idA, idB := vpUser(), vpUser()
	idA.SetUserName("alice")
	idB.SetUserName([]string{"bob", "alice"}[vpIntRange("third-request-by-the-same-user", 0, 1)]) // another user, or the same user from elsewhere
	idB.SetAttribute(identity.AttrClientIp, "10.0.0.2")
	idB.SetAttribute(identity.AttrRemoteAddr, "10.0.0.2:4321")
	noted := map[*Tunnel]string{}
	g.CheckPAACookie = func(ctx context.Context, cookie string) (bool, error) {
		if t, ok := ctx.Value(CtxTunnel).(*Tunnel); ok && t != nil {
			ip, _ := identity.FromCtx(ctx).GetAttribute(identity.AttrClientIp).(string)
			noted[t] = identity.FromCtx(ctx).UserName() + "@" + ip
		}
		return true, nil
	}
	mk := func(id identity.Identity, method string, hdrs int) *http.Request {
		hdr := http.Header{"Rdg-Connection-Id": {"conn-1"}}
		if hdrs&1 != 0 {
			hdr["Connection"] = []string{"upgrade"}
		}
		if hdrs&2 != 0 {
			hdr["Upgrade"] = []string{"websocket"}
		}
		if hdrs&4 != 0 {
			hdr["Connection"] = []string{"keep-alive, Upgrade"} // a token list, as proxies and some clients send it
		}
		return identity.AddToRequestCtx(id, &http.Request{Method: method, Header: hdr})
	}
	out1 := &vpTransport{}
	in1 := vpScript(5, 0) // set-up (4), DATA, then the connection drops
	in1.yieldOnRead = true
	third := vpScript(2, 0) // what the third connection sends if it is read from: handshake, tunnel-create, then it drops
	vpBackendChunk = []byte{0x5A, 0x5B}
	vpAssume(!vpBool("dialfail1")) // the host is reachable
	kind := vpIntRange("third-request-kind", 0, 5) // 0 legacy OUT, 1 websocket upgrade, 2 legacy IN, 3 / 4 half an upgrade, 5 websocket upgrade whose Connection header is a token list
	at := vpIntRange("third-request-arrives-before-packet", 0, 5)
	vpAssume(!(at == 0 && kind == 2))
	served := false
	serveThird := func() {
		served = true
		w := &vpHTTPW{hdr: http.Header{}, tr: third}
		switch kind {
		case 0:
			g.HandleGatewayProtocol(w, mk(idB, MethodRDGOUT, 0))
		case 1:
			vpNextTransportFor(third)
			g.HandleGatewayProtocol(&vpHTTPW{hdr: http.Header{}}, mk(idB, MethodRDGOUT, 3))
		case 2:
			g.HandleGatewayProtocol(w, mk(idB, MethodRDGIN, 0))
		case 3:
			g.HandleGatewayProtocol(w, mk(idB, MethodRDGOUT, 2))
		case 4:
			g.HandleGatewayProtocol(w, mk(idB, MethodRDGOUT, 1))
		case 5:
			vpNextTransportFor(third)
			g.HandleGatewayProtocol(&vpHTTPW{hdr: http.Header{}}, mk(idB, MethodRDGOUT, 2|4))
		}
	}
	inner := in1.gen
	in1.ngen = 5
	in1.gen = func(i int) []byte {
		if i == at && !served {
			serveThird()
		}
		return inner(i)
	}
	g.HandleGatewayProtocol(&vpHTTPW{hdr: http.Header{}, tr: out1}, mk(idA, MethodRDGOUT, 0))
	live, _ := vpCache["conn-1"].(*Tunnel)
	if at == 0 {
		serveThird()
	}
	g.HandleGatewayProtocol(&vpHTTPW{hdr: http.Header{}, tr: in1}, mk(idA, MethodRDGIN, 0))
	vpRunTasks()
	vpReach("ended")
	if served {
		vpReach("third-served")
	}
	vpObserve("answers-on-out1", uint64(len(out1.out)))
	vpObserve("answers-on-third", uint64(len(third.out)))
	// the live tunnel is served as if the third connection had never come: four set-up responses and the
	// host's chunk, all on ITS outbound connection, every packet of the inbound connection consumed
	nData, nResp := 0, 0
	for _, p := range out1.out {
		if len(p) >= 2 && p[0] == 0xA {
			nData++
			vpAssert(len(p) == 12 && p[10] == 0x5A && p[11] == 0x5B, "live-tunnel-client-receives-its-hosts-bytes")
		} else {
			nResp++
		}
	}
	vpAssert(nResp == 4 && nData == 1, "live-tunnel-keeps-its-own-outbound-connection")
	vpAssert(in1.pos == 5, "live-tunnel-keeps-reading-its-own-inbound-connection")
	vpAssert(len(vpDialLog) == 1, "one-backend-connection-for-the-one-tunnel")
	if len(vpDialConns) == 1 {
		w := vpDialConns[0].written
		vpAssert(len(w) == 1 && len(w[0]) == 1, "live-tunnel-host-receives-its-clients-payload-only")
	}
	// what the callbacks note on "the tunnel of this request" lands on the live tunnel for its own client only
	vpAssert(live != nil, "outbound-request-remembers-its-tunnel")
	if live != nil {
		vpAssert(noted[live] == "alice@10.0.0.1", "another-connections-callbacks-do-not-see-the-live-tunnel")
	}
	// when everything has ended, the live tunnel's connections are closed (nobody else would close them)
	vpAssert(out1.closed && in1.closed, "live-tunnels-own-connections-are-closed-when-it-has-ended")
	// the third connection gets nothing of the live tunnel: no packet at all for a legacy request (it has
	// no packet loop of its own), at most the answers to its own packets for a websocket
	for _, p := range third.out {
		vpAssert(!(len(p) >= 2 && p[0] == 0xA), "third-connection-receives-nothing-of-the-live-tunnels-host-stream")
	}
	if kind == 1 || kind == 5 {
		vpAssert(len(third.out) <= 2, "websocket-connection-receives-only-answers-to-its-own-packets")
	} else {
		vpAssert(len(third.out) == 0, "further-legacy-connection-receives-nothing-of-the-live-tunnel")
	}
}

//vp:property C01 C07 C09
//vp:bounds legacy transport: RDG_OUT_DATA, then an RDG_IN_DATA request whose client is slow to send its first bytes; while the gateway takes that connection over from the http server (hijack), waits for the first bytes (Drain) or for the first / second packet, a SECOND RDG_IN_DATA request with the same connection id arrives and sends a complete set-up sequence; then the first connection sends its complete set-up sequence too
//vp:assume one cooperative schedule per arrival point; hosts reachable
//vp:reach ended
func VP_C01_legacy_second_in() {
	vpResetHandlers()
	g := &Gateway{}
	id := vpUser()
	mk := func(method string) *http.Request {
		r := &http.Request{Method: method, Header: http.Header{"Rdg-Connection-Id": {"conn-1"}}}
		return identity.AddToRequestCtx(id, r)
	}
	vpAssume(!vpBool("dialfail1"))
	vpAssume(!vpBool("dialfail2"))
	out, in1, in2 := &vpTransport{}, vpScript(4, 0), vpScript(4, 0)
	at := vpIntRange("second-in-arrives-at", -2, 1) // -2: while the first connection is being hijacked; -1: while the first waits for its first bytes; 0/1: before its first/second packet
	served := false
	second := func() {
		if !served {
			served = true
			g.HandleGatewayProtocol(&vpHTTPW{hdr: http.Header{}, tr: in2}, mk(MethodRDGIN))
		}
	}
	if at == -1 {
		in1.onDrain = second
	}
	inner := in1.gen
	in1.gen = func(i int) []byte {
		if i == at {
			second()
		}
		return inner(i)
	}
	g.HandleGatewayProtocol(&vpHTTPW{hdr: http.Header{}, tr: out}, mk(MethodRDGOUT))
	w1 := &vpHTTPW{hdr: http.Header{}, tr: in1}
	if at == -2 {
		w1.onHijack = second
	}
	g.HandleGatewayProtocol(w1, mk(MethodRDGIN))
	vpDropTasks()
	vpReach("ended")
	vpObserve("dials", uint64(len(vpDialLog)))
	vpObserve("answers", uint64(len(out.out)))
	// one tunnel: one sequence answered, one connection to a host
	vpAssert(len(vpDialLog) <= 1, "at-most-one-dial-per-tunnel-with-two-inbound-connections")
	nOK := 0
	for _, p := range out.out {
		if len(p) >= 2 && p[0] != 0xA {
			nOK++
		}
	}
	vpAssert(nOK <= 4, "only-one-inbound-connections-sequence-is-answered")
	vpAssert(in1.pos == 0 || in2.pos == 0, "only-one-inbound-connection-is-read-from")
}

//vp:property C04 C07
//vp:bounds one legacy tunnel whose two requests come from different addresses: RDG_OUT_DATA from 10.0.0.1, RDG_IN_DATA — the connection that carries the packets and with them the token — from 10.0.0.2, same user, same connection id; full set-up sequence; also the websocket transport (one request) for comparison
//vp:assume the callbacks record the identity they find in their context (that is where the security package's session check reads the presenting client's address); hosts reachable
//vp:reach token-presented host-checked
func VP_C04_legacy_presenting_identity() {
	vpResetHandlers()
	g := &Gateway{}
	idOut, idIn := vpUser(), vpUser()
	idOut.SetUserName("carol")
	idIn.SetUserName("carol")
	idIn.SetAttribute(identity.AttrClientIp, "10.0.0.2")
	idIn.SetAttribute(identity.AttrRemoteAddr, "10.0.0.2:4321")
	var cookieFrom, hostFrom, authFrom []string
	addrOf := func(ctx context.Context) string {
		id := identity.FromCtx(ctx)
		if id == nil {
			return "<none>"
		}
		s, _ := id.GetAttribute(identity.AttrClientIp).(string)
		return id.UserName() + "@" + s
	}
	g.CheckPAACookie = func(ctx context.Context, cookie string) (bool, error) {
		cookieFrom = append(cookieFrom, addrOf(ctx))
		return true, nil
	}
	g.CheckClientName = func(ctx context.Context, name string) (bool, error) {
		authFrom = append(authFrom, addrOf(ctx))
		return true, nil
	}
	g.CheckHost = func(ctx context.Context, host string) (bool, error) {
		hostFrom = append(hostFrom, addrOf(ctx))
		return true, nil
	}
	vpAssume(!vpBool("dialfail1"))
	mk := func(id identity.Identity, method string, ws bool) *http.Request {
		hdr := http.Header{"Rdg-Connection-Id": {"conn-1"}}
		if ws {
			hdr["Connection"] = []string{"upgrade"}
			hdr["Upgrade"] = []string{"websocket"}
		}
		return identity.AddToRequestCtx(id, &http.Request{Method: method, Header: hdr})
	}
	in := vpScript(4, 0)
	if vpBool("websocket-transport") {
		vpNextTransportFor(in)
		g.HandleGatewayProtocol(&vpHTTPW{hdr: http.Header{}}, mk(idIn, MethodRDGOUT, true))
	} else {
		g.HandleGatewayProtocol(&vpHTTPW{hdr: http.Header{}, tr: &vpTransport{}}, mk(idOut, MethodRDGOUT, false))
		g.HandleGatewayProtocol(&vpHTTPW{hdr: http.Header{}, tr: in}, mk(idIn, MethodRDGIN, false))
	}
	vpDropTasks()
	vpObserve("cookie-checks", uint64(len(cookieFrom)))
	vpObserve("host-checks", uint64(len(hostFrom)))
	vpAssert(len(cookieFrom) == 1 && len(hostFrom) == 1 && len(authFrom) == 1, "each-callback-runs-once-for-the-sequence")
	for _, a := range cookieFrom {
		vpReach("token-presented")
		vpAssert(a == "carol@10.0.0.2", "token-check-sees-the-client-that-presents-the-token")
	}
	for _, a := range authFrom {
		vpAssert(a == "carol@10.0.0.2", "client-name-check-sees-the-client-that-presents-the-token")
	}
	for _, a := range hostFrom {
		vpReach("host-checked")
		vpAssert(a == "carol@10.0.0.2", "host-check-sees-the-client-that-presents-the-token")
	}
}

//vp:property C05 C07 C03
//vp:bounds one legacy RDG_OUT_DATA request of user alice, then an RDG_IN_DATA request with the same connection id whose credentials the backend confirmed for alice again or for bob (the identity the authentication middleware put on the request); full set-up sequence on the inbound connection
//vp:assume the callbacks record the user name of the tunnel in their context: that is the name the security package evaluates the host policy for; hosts reachable
//vp:reach served refused
func VP_C05_legacy_pair_users() {
	vpResetHandlers()
	g := &Gateway{}
	confirmed := []string{"alice", "bob"}[vpIntRange("inbound-request-confirmed-for", 0, 1)]
	idOut, idIn := vpUser(), vpUser()
	idOut.SetUserName("alice")
	idIn.SetUserName(confirmed)
	var policyFor []string
	note := func(ctx context.Context) {
		if t, ok := ctx.Value(CtxTunnel).(*Tunnel); ok && t != nil && t.User != nil {
			policyFor = append(policyFor, t.User.UserName())
		} else {
			policyFor = append(policyFor, "<none>")
		}
	}
	g.CheckPAACookie = func(ctx context.Context, cookie string) (bool, error) { note(ctx); return true, nil }
	g.CheckClientName = func(ctx context.Context, name string) (bool, error) { note(ctx); return true, nil }
	g.CheckHost = func(ctx context.Context, host string) (bool, error) { note(ctx); return true, nil }
	vpAssume(!vpBool("dialfail1"))
	mk := func(id identity.Identity, method string) *http.Request {
		return identity.AddToRequestCtx(id, &http.Request{Method: method, Header: http.Header{"Rdg-Connection-Id": {"conn-1"}}})
	}
	out, in := &vpTransport{}, vpScript(4, 0)
	wIn := &vpHTTPW{hdr: http.Header{}, tr: in}
	g.HandleGatewayProtocol(&vpHTTPW{hdr: http.Header{}, tr: out}, mk(idOut, MethodRDGOUT))
	g.HandleGatewayProtocol(wIn, mk(idIn, MethodRDGIN))
	vpDropTasks()
	vpObserve("packets-read", uint64(in.pos))
	vpObserve("status", uint64(wIn.status))
	if in.pos == 0 {
		vpReach("refused")
		vpAssert(confirmed != "alice", "the-tunnels-own-user-is-not-refused")
		vpAssert(len(out.out) == 0 && len(vpDialLog) == 0 && len(policyFor) == 0, "a-refused-request-causes-nothing")
		return
	}
	vpReach("served")
	// the request reached the tunnel handler: the tunnel it is served on is a tunnel of the user the
	// backend confirmed for THIS request
	for _, u := range policyFor {
		vpAssert(u == confirmed, "the-tunnels-user-is-the-user-confirmed-for-the-request-that-reached-it")
	}
	if confirmed == "alice" {
		vpAssert(in.pos == 4 && len(out.out) == 4 && len(vpDialLog) == 1, "the-users-own-two-connections-are-paired-and-served")
	}
}

//vp:property C07 C06 C09
//vp:bounds two tunnels with an open channel at the same time; both hosts send a chunk (A: 4 bytes, B: 2 bytes, symbolic) at the moment both relay goroutines can run; client A is slow: while its DATA packet is in flight the other tunnel's relay builds and sends its own packet
//vp:assume one cooperative schedule: relay A is overtaken by relay B exactly while A's packet is being written
//vp:reach both-relayed
func VP_C07_relays_at_once() {
	vpResetC01()
	vpResetHandlers()
	g := &Gateway{}
	vpAssume(!vpBool("dialfail1"))
	vpAssume(!vpBool("dialfail2"))
	chunkA := []byte{vpU8("a0"), vpU8("a1"), vpU8("a2"), vpU8("a3")}
	chunkB := []byte{vpU8("b0"), vpU8("b1")}
	trA, trB := vpScript(4, 0), vpScript(4, 0)
	trA.stallWrites = true
	// host A speaks once both channels are open; host B speaks at the moment A's packet is in flight
	gateA, gateB := make(chan struct{}), make(chan struct{})
	trA.onStall = func() { close(gateB) }
	innerB := trB.gen
	trB.ngen = 5
	trB.gen = func(i int) []byte {
		if i >= 4 {
			if i == 4 {
				close(gateA)
			}
			vpRunTasks()
			return vpPacket(0xD, []byte{})
		}
		return innerB(i)
	}
	innerA := trA.gen
	trA.ngen = 5
	servedB := false
	trA.gen = func(i int) []byte {
		if i == 4 && !servedB {
			// A's channel is open and its packet loop waits for the client: B sets its tunnel up meanwhile
			servedB = true
			vpBackendChunk, vpBackendGate = chunkB, gateB
			tB := &Tunnel{RDGId: "conn-B", User: vpUser(), RemoteAddr: "10.0.0.2:1", transportIn: trB, transportOut: trB}
			NewProcessor(g, tB).Process(vpCtx())
		}
		if i >= 4 {
			return vpPacket(0xD, []byte{}) // a keep-alive, then the client drops
		}
		return innerA(i)
	}
	vpBackendChunk, vpBackendGate = chunkA, gateA
	tA := &Tunnel{RDGId: "conn-A", User: vpUser(), RemoteAddr: "10.0.0.1:1", transportIn: trA, transportOut: trA}
	NewProcessor(g, tA).Process(vpCtx())
	vpRunTasks()
	vpReach("both-relayed")
	vpAssert(trA.corrupted == 0 && trB.corrupted == 0, "no-packet-changes-while-it-is-being-written-to-its-client")
	check := func(tr *vpTransport, chunk []byte, who string) {
		for _, p := range tr.out {
			if len(p) >= 2 && p[0] == 0xA {
				vpAssert(len(p) == 10+len(chunk) && vpEqBytes(p[10:], chunk), who+"-receives-the-bytes-of-its-own-host")
			}
		}
	}
	check(trA, chunkA, "client-a")
	check(trB, chunkB, "client-b")
}
