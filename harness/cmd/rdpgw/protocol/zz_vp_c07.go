package protocol

// C07 — concurrent tunnels are isolated from each other.

import (
	"net/http"

	"github.com/bolkedebruin/rdpgw/cmd/rdpgw/identity"
)

//vp:property C07
//vp:set bodymax 8 12
//vp:set maxalloc 24 24
//vp:bounds two tunnels A and B (own Tunnel, Processor, identity, transports, backend connection) on one Gateway, both registered; B in an arbitrary phase 0..5 with arbitrary token host / client address / user (2 symbolic bytes each); ONE arbitrary packet (all types, body 0..bodymax symbolic bytes) processed on A from an arbitrary phase with callbacks wired and answering arbitrarily; then B's state is compared with its state before
//vp:assume steps of different tunnels commute given disjoint footprints, so any interleaving equals a sequential one (paper argument)
//vp:reach stepped
func VP_C07_isolation() {
	vpResetHandlers()
	gw := &Gateway{SmartCardAuth: vpBool("sc"), TokenAuth: vpBool("paa"), IdleTimeout: int(int32(vpU32("idle")))}
	gw.CheckPAACookie = vpCallback("cookie")
	gw.CheckClientName = vpCallback("client")
	gw.CheckHost = vpCallback("host")
	// tunnel B
	trB := &vpTransport{}
	idB := identity.NewUser()
	idB.SetUserName(vpStringN("b-user", 2))
	idB.SetAttribute(identity.AttrClientIp, "203.0.113.2")
	tB := &Tunnel{Id: "id-B", RDGId: "conn-B", transportIn: trB, transportOut: trB, User: idB, TargetServer: vpStringN("b-host", 2), RemoteAddr: vpStringN("b-addr", 2)}
	pB := NewProcessor(gw, tB)
	stB := vpInt("b-state")
	vpAssume(vpAnd(stB >= 0, stB <= 5))
	pB.state = stB
	var rwcB *vpConn
	if stB >= 4 {
		rwcB = &vpConn{block: true}
		tB.rwc = rwcB
	}
	RegisterTunnel(tB, pB)
	// tunnel A
	pre := vpInt("a-state")
	vpAssume(vpAnd(pre >= 0, pre <= 5))
	pt := vpU16("pt")
	body := vpBytes("body", vpParam("bodymax"))
	lim := uint16(len(body) + 4)
	vpAssume(vpImplies(pt == 0xA, vpLE16(body, 0) <= lim))
	vpAssume(vpImplies(pt == 6, vpLE16(body, 0) <= lim))
	vpAssume(vpImplies(pt == 8, vpLE16(body, 6) <= lim))
	vpAssume(vpImplies(pt == 4, vpLE16(body, 8) <= lim))
	for i := 2; i+1 < len(body); i += 2 {
		vpAssume(vpImplies(pt == 6, vpAnd(body[i] < 0x80, body[i+1] == 0)))
	}
	trA := &vpTransport{in: [][]byte{vpPacket(pt, body)}}
	tA := &Tunnel{Id: "id-A", RDGId: "conn-A", transportIn: trA, transportOut: trA, User: vpUser()}
	if pre >= 4 {
		tA.rwc = &vpConn{block: true}
	}
	pA := NewProcessor(gw, tA)
	pA.state = pre
	RegisterTunnel(tA, pA)
	idle0, flags0, sc0, paa0 := gw.IdleTimeout, gw.RedirectFlags, gw.SmartCardAuth, gw.TokenAuth

	pA.Process(vpCtx())
	vpDropTasks()
	vpReach("stepped")

	// B is untouched
	vpAssert(pB.state == stB, "other-tunnels-phase-unchanged")
	vpAssert(tB.TargetServer == vpStringN("b-host", 2) && tB.RemoteAddr == vpStringN("b-addr", 2), "other-tunnels-token-host-and-address-unchanged")
	vpAssert(idB.UserName() == vpStringN("b-user", 2) && !idB.Authenticated(), "other-tunnels-identity-unchanged")
	vpAssert(len(trB.out) == 0 && trB.nread == 0 && !trB.closed, "nothing-sent-to-or-read-from-the-other-client")
	if rwcB != nil {
		vpAssert(len(rwcB.written) == 0 && !rwcB.closed && tB.rwc == rwcB, "other-tunnels-backend-untouched")
	} else {
		vpAssert(tB.rwc == nil, "other-tunnel-gets-no-backend")
	}
	m, ok := Connections["id-B"]
	vpAssert(ok && m != nil && m.Tunnel == tB && m.Processor == pB, "other-tunnels-registry-entry-unchanged")
	// shared gateway configuration is not modified by a tunnel's packets
	vpAssert(gw.IdleTimeout == idle0 && gw.RedirectFlags == flags0 && gw.SmartCardAuth == sc0 && gw.TokenAuth == paa0, "shared-gateway-configuration-unchanged")
	// every backend connection opened by this step belongs to A
	for _, c := range vpDialConns {
		vpAssert(tA.rwc == c, "a-new-backend-connection-belongs-to-the-tunnel-that-asked")
	}
}

//vp:property C07
//vp:set s 2 3
//vp:bounds two legacy/websocket requests whose connection ids are a common constant prefix of 0, 36, 38 or 64 characters followed by 0..s symbolic bytes each (equal or different; non-empty) or that carry no Rdg-Connection-Id header at all, each RDG_OUT_DATA (legacy or websocket upgrade) or RDG_IN_DATA; cache entries may expire at any lookup; IN connections deliver a handshake and drop
//vp:reach paired separate
func VP_C07_pairing() {
	vpResetHandlers()
	vpCacheMayExpire = true
	g := &Gateway{}
	n := vpParam("s")
	var ids [2]string
	var kinds [2]int
	var trs [2]*vpTransport
	for i := 0; i < 2; i++ {
		is := itoa(i)
		// a common prefix of GUID-like length (0, 36, 38 or 64 characters) followed by a symbolic suffix
		ids[i] = vpIDPrefix[:[]int{0, 36, 38, 64}[vpIntRange("idprefix", 0, 3)]] + vpString("id"+is, n)
		noID := vpBool("no-connection-id-header-" + is) // the request carries no identifier at all
		if noID {
			ids[i] = ""
		} else {
			vpAssume(len(ids[i]) >= 1)
		}
		kinds[i] = vpIntRange("kind"+is, 0, 2) // 0 legacy OUT, 1 legacy IN, 2 websocket
		trs[i] = vpScript(1, 0)
		vpNextTransports = []*vpTransport{trs[i]}
		hdr := http.Header{"Rdg-Connection-Id": {ids[i]}}
		if noID {
			hdr = http.Header{}
		}
		m := MethodRDGOUT
		switch kinds[i] {
		case 1:
			m = MethodRDGIN
		case 2:
			hdr["Connection"] = []string{"upgrade"}
			hdr["Upgrade"] = []string{"websocket"}
		}
		id := identity.NewUser()
		id.SetAttribute(identity.AttrRemoteAddr, "peer-"+is)
		id.SetAttribute(identity.AttrClientIp, "ip-"+is)
		r := &http.Request{Method: m, Header: hdr}
		g.HandleGatewayProtocol(&vpHTTPW{hdr: http.Header{}}, identity.AddToRequestCtx(id, r))
	}
	// which tunnels ended up with which connections?
	shared := false
	for _, v := range vpCacheSetLog {
		t, ok := v.(*Tunnel)
		if !ok || t == nil {
			continue
		}
		// identify the connections behind the tunnel's transports by sending a probe through them
		n0, n1 := len(trs[0].out), len(trs[1].out)
		if t.transportIn != nil {
			t.transportIn.WritePacket([]byte{0xEE})
		}
		if t.transportOut != nil {
			t.transportOut.WritePacket([]byte{0xEE})
		}
		has0 := len(trs[0].out) > n0
		has1 := len(trs[1].out) > n1
		if has0 && has1 {
			shared = true
		}
	}
	if shared {
		vpReach("paired")
		vpAssert(ids[0] == ids[1], "connections-are-paired-only-under-the-same-connection-id")
		vpAssert(ids[0] != "" && ids[1] != "", "requests-that-carry-no-connection-id-are-never-paired")
		vpAssert(kinds[0] != 2 && kinds[1] != 2, "websocket-tunnels-are-never-paired")
	} else {
		vpReach("separate")
	}
	// the pairing works at all: OUT then IN with the same id and no expiry share a tunnel
	if kinds[0] == 0 && kinds[1] == 1 && ids[0] == ids[1] && ids[0] != "" && !vpExpiredAny {
		vpAssert(shared, "legacy-out-then-in-with-the-same-id-form-one-tunnel")
	}
}

const vpIDPrefix = "{01234567-89ab-cdef-0123-456789abcdef}-0123456789abcdef012345678"

//vp:property C07 C06
//vp:set maxalloc 16 16
//vp:bounds two tunnels with open channels (own backends); tunnel A relays one DATA packet (payload of 1..4 symbolic bytes), then tunnel B's client sends one DATA packet with an arbitrary body of 0..6 bytes (length field symbolic, up to carried+4); and the same with the roles swapped by symmetry of the harness
//vp:reach relayed
func VP_C07_data_isolation() {
	vpResetHandlers()
	gw := &Gateway{}
	mk := func(tr *vpTransport) (*Tunnel, *Processor, *vpConn) {
		c := &vpConn{block: true}
		t := &Tunnel{transportIn: tr, transportOut: tr, User: vpUser(), rwc: c}
		p := NewProcessor(gw, t)
		p.state = SERVER_STATE_OPENED
		return t, p, c
	}
	pa := vpBytes("payload-a", 4)
	vpAssume(len(pa) >= 1)
	trA := &vpTransport{in: [][]byte{vpPacket(0xA, append([]byte{byte(len(pa)), 0}, pa...))}}
	bodyB := vpBytes("body-b", 6)
	vpAssume(vpLE16(bodyB, 0) <= uint16(len(bodyB)+4))
	trB := &vpTransport{in: [][]byte{vpPacket(0xA, bodyB)}}
	_, pA, cA := mk(trA)
	_, pB, cB := mk(trB)
	pA.Process(vpCtx())
	pB.Process(vpCtx())
	vpReach("relayed")
	var gotA, gotB []byte
	for _, w := range cA.written {
		gotA = append(gotA, w...)
	}
	for _, w := range cB.written {
		gotB = append(gotB, w...)
	}
	vpAssert(vpEqBytes(gotA, pa), "host-a-receives-exactly-client-as-payload")
	// host B receives only bytes client B sent: a prefix of what its packet carried
	var carried []byte
	if len(bodyB) > 2 {
		carried = bodyB[2:]
	}
	vpAssert(len(gotB) <= len(carried), "host-b-receives-no-more-than-client-b-sent")
	if len(gotB) <= len(carried) {
		vpAssert(vpEqBytes(gotB, carried[:len(gotB)]), "host-b-receives-only-bytes-of-its-own-client")
	}
}
