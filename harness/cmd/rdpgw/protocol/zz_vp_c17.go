package protocol

// C17 — authentication capability negotiation follows the configured requirements.

//vp:property C17
//vp:bounds all 2^16 client capability words x 4 server settings (symbolic, one solver run)
//vp:reach ok err
func VP_C17_matchAuth() {
	sc, paa := vpBool("sc"), vpBool("paa")
	client := vpU16("client")
	p := &Processor{gw: &Gateway{SmartCardAuth: sc, TokenAuth: paa}}
	caps, err := p.matchAuth(client)
	server := vpB2U(sc)*1 | vpB2U(paa)*2
	accept := (client == 0 && server == 0) || client&server != 0
	vpObserveBool("accepted", err == nil)
	vpObserve("caps", uint64(caps))
	vpAssert((err == nil) == accept, "accept-iff-both-empty-or-common-bit")
	if err == nil {
		vpReach("ok")
		vpAssert(caps == server, "advertises-exactly-enabled-mechanisms")
	} else {
		vpReach("err")
	}
}

//vp:property C17
//vp:bounds handshake body length 0..8 with symbolic content (all client words, all version bytes), 4 server settings, one arbitrary follow-up packet (type symbolic, body <= 4 bytes)
//vp:reach accept refuse advanced
func VP_C17_handshake() {
	sc, paa := vpBool("sc"), vpBool("paa")
	gw := &Gateway{SmartCardAuth: sc, TokenAuth: paa}
	body := vpBytes("body", 8)
	t2 := vpU16("t2")
	b2 := vpBytes("b2", 4)
	tr := &vpTransport{in: [][]byte{vpPacket(PKT_TYPE_HANDSHAKE_REQUEST, body), vpPacket(t2, b2)}}
	tun := &Tunnel{transportIn: tr, transportOut: tr, User: vpUser()}
	p := NewProcessor(gw, tun)
	err := p.Process(vpCtx())

	// oracle from MS-TSGU 2.2.10.10/11 (HTTP_HANDSHAKE_REQUEST / RESPONSE layouts)
	var client uint16
	var major, minor byte
	if len(body) >= 1 {
		major = body[0]
	}
	if len(body) >= 2 {
		minor = body[1]
	}
	if len(body) >= 6 {
		client = vpLE16(body, 4)
	}
	server := vpB2U(sc)*1 | vpB2U(paa)*2
	accept := (client == 0 && server == 0) || client&server != 0

	vpAssert(len(tr.out) >= 1, "a-response-is-sent")
	if len(tr.out) < 1 {
		return
	}
	r := tr.out[0]
	vpObserveBytes("resp0", r)
	vpAssert(len(r) == 18 && vpLE16(r, 0) == 2 && vpLE16(r, 2) == 0 && vpLE32(r, 4) == 18, "response-header")
	if len(r) != 18 {
		return
	}
	status := vpLE32(r, 8)
	vpAssert((status == 0) == accept, "status0-iff-accept")
	if accept {
		vpReach("accept")
		vpAssert(r[12] == major && r[13] == minor, "version-bytes-echoed")
		vpAssert(vpLE16(r, 14) == 0, "server-version-zero")
		vpAssert(vpLE16(r, 16) == server, "caps-field-is-server-mask")
		vpAssert(p.state >= SERVER_STATE_HANDSHAKE, "phase-advanced")
		if t2 == PKT_TYPE_TUNNEL_CREATE {
			// the next step is served: with no cookie callback configured it succeeds
			vpReach("advanced")
			vpAssert(len(tr.out) == 2 && vpLE16(tr.out[1], 0) == 5 && vpLE32(tr.out[1], 10) == 0, "following-tunnel-create-served")
		}
	} else {
		vpReach("refuse")
		vpAssert(status == 0x800759E9, "capability-mismatch-status")
		vpAssert(err != nil, "tunnel-ends-with-error")
		vpAssert(len(tr.out) == 1, "nothing-further-answered")
		vpAssert(tr.pos <= 1, "nothing-further-read")
	}
}
