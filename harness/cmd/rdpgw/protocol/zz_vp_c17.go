package protocol

import "context"

// C17 — authentication capability negotiation follows the configured requirements.

//vp:property C17
//vp:bounds all 2^16 client capability words x 4 server settings (symbolic, one solver run)
//vp:reach ok err
func VP_C17_matchAuth() {
	sc, paa := vpBool("sc"), vpBool("paa")
	client := vpU16("client")
	p := &Processor{gw: &Gateway{SmartCardAuth: sc, TokenAuth: paa}}
	caps, err := p.matchAuth(client)
	server := vpB2U(sc)*1 | vpB2U(paa)*2
	accept := (client == 0 && server == 0) || client&server != 0
	vpObserveBool("accepted", err == nil)
	vpObserve("caps", uint64(caps))
	vpAssert((err == nil) == accept, "accept-iff-both-empty-or-common-bit")
	if err == nil {
		vpReach("ok")
		vpAssert(caps == server, "advertises-exactly-enabled-mechanisms")
	} else {
		vpReach("err")
	}
}

//vp:property C17
//vp:bounds handshake body length 0..8 with symbolic content (all client words, all version bytes), 4 server settings, one arbitrary follow-up packet (type symbolic, body <= 4 bytes) arriving in a read of its own or in the same read as the handshake
//vp:reach accept refuse advanced
func VP_C17_handshake() {
	sc, paa := vpBool("sc"), vpBool("paa")
	gw := &Gateway{SmartCardAuth: sc, TokenAuth: paa}
	body := vpBytes("body", 8)
	t2 := vpU16("t2")
	b2 := vpBytes("b2", 4)
	tr := &vpTransport{in: [][]byte{vpPacket(PKT_TYPE_HANDSHAKE_REQUEST, body), vpPacket(t2, b2)}}
	onePiece := vpBool("both-packets-arrive-in-one-read")
	if onePiece {
		// a client that does not wait for the handshake answer: both packets in one websocket message / chunk
		tr.in = [][]byte{append(append([]byte{}, tr.in[0]...), tr.in[1]...)}
	}
	tun := &Tunnel{transportIn: tr, transportOut: tr, User: vpUser()}
	p := NewProcessor(gw, tun)
	err := p.Process(vpCtx())

	// oracle from MS-TSGU 2.2.10.10/11 (HTTP_HANDSHAKE_REQUEST / RESPONSE layouts)
	var client uint16
	var major, minor byte
	if len(body) >= 1 {
		major = body[0]
	}
	if len(body) >= 2 {
		minor = body[1]
	}
	if len(body) >= 6 {
		client = vpLE16(body, 4)
	}
	server := vpB2U(sc)*1 | vpB2U(paa)*2
	accept := (client == 0 && server == 0) || client&server != 0

	vpAssert(len(tr.out) >= 1, "a-response-is-sent")
	if len(tr.out) < 1 {
		return
	}
	r := tr.out[0]
	vpObserveBytes("resp0", r)
	vpAssert(len(r) == 18 && vpLE16(r, 0) == 2 && vpLE16(r, 2) == 0 && vpLE32(r, 4) == 18, "response-header")
	if len(r) != 18 {
		return
	}
	status := vpLE32(r, 8)
	vpAssert((status == 0) == accept, "status0-iff-accept")
	if accept {
		vpReach("accept")
		vpAssert(r[12] == major && r[13] == minor, "version-bytes-echoed")
		vpAssert(vpLE16(r, 14) == 0, "server-version-zero")
		vpAssert(vpLE16(r, 16) == server, "caps-field-is-server-mask")
		vpAssert(p.state >= SERVER_STATE_HANDSHAKE, "phase-advanced")
		if t2 == PKT_TYPE_TUNNEL_CREATE {
			// the next step is served: with no cookie callback configured it succeeds
			vpReach("advanced")
			vpAssert(len(tr.out) == 2 && vpLE16(tr.out[1], 0) == 5 && vpLE32(tr.out[1], 10) == 0, "following-tunnel-create-served")
		} else {
			// anything else at this point — a further handshake request included, whatever it offers — is out
			// of order: it is not answered with a success status and the tunnel ends
			if len(tr.out) >= 2 && len(tr.out[1]) >= 12 {
				vpAssert(vpLE32(tr.out[1], 8) != 0, "a-further-handshake-or-other-out-of-order-packet-is-not-answered-with-success")
			}
			vpAssert(err != nil || (!onePiece && tr.pos < 2), "tunnel-ends-on-an-out-of-order-packet-after-the-handshake")
		}
	} else {
		vpReach("refuse")
		vpAssert(status == 0x800759E9, "capability-mismatch-status")
		vpAssert(err != nil, "tunnel-ends-with-error")
		vpAssert(len(tr.out) == 1, "nothing-further-answered")
		vpAssert(tr.pos <= 1, "nothing-further-read")
	}
}


//vp:property C17 C07
//vp:bounds two tunnels on one Gateway handshake at the same time: A's response is in flight to a slow client while B (other version bytes, other capability word; all values symbolic) completes its own handshake; 4 server settings
//vp:assume one cooperative schedule: B's handshake is served in full while A's response is being written
//vp:reach both
func VP_C17_two_tunnels() {
	sc, paa := vpBool("sc"), vpBool("paa")
	gw := &Gateway{SmartCardAuth: sc, TokenAuth: paa}
	server := vpB2U(sc)*1 | vpB2U(paa)*2
	mk := func(tag string) (*vpTransport, []byte) {
		body := []byte{vpU8("major-" + tag), vpU8("minor-" + tag), 0, 0, vpU8("caps-lo-" + tag), vpU8("caps-hi-" + tag)}
		return &vpTransport{in: [][]byte{vpPacket(PKT_TYPE_HANDSHAKE_REQUEST, body)}}, body
	}
	trA, bodyA := mk("a")
	trB, bodyB := mk("b")
	trA.stallWrites = true
	run := func(tr *vpTransport) {
		tun := &Tunnel{transportIn: tr, transportOut: tr, User: vpUser()}
		NewProcessor(gw, tun).Process(vpCtx())
	}
	done := make(chan bool, 1)
	go func() {
		run(trB)
		done <- true
	}()
	run(trA)
	<-done
	vpReach("both")
	check := func(tr *vpTransport, body []byte, who string) {
		vpAssert(len(tr.out) == 1, who+"-gets-one-response")
		if len(tr.out) != 1 {
			return
		}
		r := tr.out[0]
		vpAssert(len(r) == 18 && vpLE16(r, 0) == 2 && vpLE32(r, 4) == 18, who+"-response-header")
		if len(r) != 18 {
			return
		}
		client := vpLE16(body, 4)
		accept := (client == 0 && server == 0) || client&server != 0
		status := vpLE32(r, 8)
		vpAssert((status == 0) == accept, who+"-status0-iff-its-own-offer-is-acceptable")
		if accept {
			vpAssert(r[12] == body[0] && r[13] == body[1], who+"-own-version-bytes-echoed")
			vpAssert(vpLE16(r, 16) == server, who+"-caps-field-is-server-mask")
		} else {
			vpAssert(status == 0x800759E9, who+"-capability-mismatch-status")
		}
	}
	check(trA, bodyA, "slow-client")
	check(trB, bodyB, "other-client")
	// what the slow client reads is what was built for it: the bytes handed to its connection do not change
	// while they are being sent
	vpAssert(trA.corrupted == 0 && trB.corrupted == 0, "a-response-does-not-change-while-it-is-in-flight-to-its-client")
}

//vp:property C02 C07 C10
//vp:bounds two tunnels on one Gateway, one after the other: client A presents the access cookie "AB" (accepted by the cookie check); client B then sends a tunnel-create that announces a cookie of the same length but carries only 0..2 of its four bytes (symbolic)
//vp:assume the cookie callback accepts exactly "AB"
//vp:reach second-checked
func VP_C02_cookie_comes_from_the_packet() {
	vpResetC01()
	var cookies []string
	gw := &Gateway{TokenAuth: true}
	gw.CheckPAACookie = func(ctx context.Context, c string) (bool, error) {
		cookies = append(cookies, c)
		return c == "AB", nil
	}
	run := func(tunnelCreate []byte) *vpTransport {
		tr := &vpTransport{in: [][]byte{vpPacket(PKT_TYPE_HANDSHAKE_REQUEST, []byte{1, 0, 0, 0, 2, 0}), vpPacket(PKT_TYPE_TUNNEL_CREATE, tunnelCreate)}}
		tun := &Tunnel{transportIn: tr, transportOut: tr, User: vpUser()}
		NewProcessor(gw, tun).Process(vpCtx())
		return tr
	}
	trA := run([]byte{0, 0, 0, 0, 1, 0, 0, 0, 4, 0, 'A', 0, 'B', 0})
	vpAssert(len(cookies) == 1 && cookies[0] == "AB" && len(trA.out) == 2 && vpLE32(trA.out[1], 10) == 0, "first-client-is-accepted-with-its-cookie")
	k := vpIntRange("cookie-bytes-carried", 0, 2)
	body := []byte{0, 0, 0, 0, 1, 0, 0, 0, 4, 0}
	for i := 0; i < k; i++ {
		body = append(body, vpU8("carried-"+string([]byte{byte(0x30 + i)})))
	}
	trB := run(body)
	vpReach("second-checked")
	// what the cookie check sees for B is made of B's own bytes: with at most two of four bytes carried it
	// cannot be A's cookie, and B is refused
	for i := 1; i < len(cookies); i++ {
		vpAssert(cookies[i] != "AB", "cookie-shown-to-the-check-comes-from-this-clients-packet")
	}
	vpAssert(len(trB.out) == 2 && len(trB.out[1]) >= 14 && vpLE32(trB.out[1], 10) != 0, "a-client-that-carries-no-cookie-is-refused")
}

//vp:property C01 C03
//vp:bounds token authentication on; the cookie check accepts and binds the tunnel to the host the token names (as the security package's check does); handshake, tunnel-create and tunnel-auth succeed; then the client stops (drops), or asks for a channel to the token's host or to another host, which the host check allows or refuses
//vp:assume goroutines the packet loop may have started run whenever it waits and after it has ended
//vp:reach no-channel channel
func VP_C01_dial_needs_channel_create() {
	vpResetC01()
	vpResetHandlers()
	gw := &Gateway{TokenAuth: true}
	gw.CheckPAACookie = func(ctx context.Context, c string) (bool, error) {
		if t, ok := ctx.Value(CtxTunnel).(*Tunnel); ok && t != nil {
			t.TargetServer = "h:3389"
		}
		return true, nil
	}
	allow := vpBool("host-check-allows")
	var checked []string
	gw.CheckHost = func(ctx context.Context, h string) (bool, error) {
		checked = append(checked, h)
		return allow, nil
	}
	vpAssume(!vpBool("dialfail1"))
	in := [][]byte{
		vpPacket(PKT_TYPE_HANDSHAKE_REQUEST, []byte{1, 0, 0, 0, 2, 0}),
		vpPacket(PKT_TYPE_TUNNEL_CREATE, []byte{0, 0, 0, 0, 1, 0, 0, 0, 4, 0, 'A', 0, 'B', 0}),
		vpSetupPacket(2),
	}
	next := vpIntRange("after-tunnel-auth", 0, 2) // 0 the client drops, 1 channel to the token's host, 2 channel to another host
	switch next {
	case 1:
		in = append(in, vpPacket(PKT_TYPE_CHANNEL_CREATE, []byte{1, 0, 0x3d, 0x0d, 3, 0, 2, 0, 'h', 0}))
	case 2:
		in = append(in, vpPacket(PKT_TYPE_CHANNEL_CREATE, []byte{1, 0, 0x3d, 0x0d, 3, 0, 2, 0, 'z', 0}))
	}
	tr := &vpTransport{in: in, yieldOnRead: true}
	tun := &Tunnel{transportIn: tr, transportOut: tr, User: vpUser()}
	ctx := context.WithValue(vpCtx(), CtxTunnel, tun)
	NewProcessor(gw, tun).Process(ctx)
	vpRunTasks()
	vpObserve("dials", uint64(len(vpDialLog)))
	if next == 0 || !allow {
		vpReach("no-channel")
		vpAssert(len(vpDialLog) == 0, "no-connection-to-any-host-without-an-accepted-channel-create")
	} else {
		vpReach("channel")
		want := []string{"", "h:3389", "z:3389"}[next]
		vpAssert(len(vpDialLog) == 1 && vpDialLog[0] == want && len(checked) == 1 && checked[0] == want, "the-one-connection-goes-to-the-host-that-was-asked-for-and-checked")
	}
	for _, c := range vpDialConns {
		vpAssert(c.closed, "every-host-connection-is-closed-when-the-tunnel-has-ended")
	}
}
