package protocol

import (
	"net/http"

	"github.com/bolkedebruin/rdpgw/cmd/rdpgw/identity"
)

// C09 — no data races or interleaved writes under concurrent use.
// Decided by a lockset analysis over the executor's access logs: the harness runs the logical
// threads one after the other; every heap access is logged with thread, locks held and spawn
// order. Natively the same harness runs the threads concurrently under the race detector (replay).

//vp:property C09 C06 C16
//vp:flag lockset
//vp:bounds two websocket tunnels A and B on one Gateway: each does the full set-up (4 packets), one DATA packet and then ends by an out-of-order packet (error response) while its backend has sent one chunk and then either stays open or hangs up first (so the relay goroutine ends while the packet loop is still serving the client); idle timeout arbitrary (incl. negative); client writes may stall (the tunnel's other goroutines run while a packet is in flight); logical threads: handler A, handler B, relay goroutine of A, relay goroutine of B
//vp:assume websocket/hijacked connections allow one concurrent writer (gorilla docs): the client transport's write log is the contended location; net.Conn, prometheus gauges and go-cache are safe for concurrent use
//vp:reach done
func VP_C09_ws() {
	vpThread("setup")
	vpResetHandlers()
	g := &Gateway{IdleTimeout: int(int32(vpU32("idle")))}
	// A errs right after the channel opened (its relay is mid-write), B after one DATA packet
	trA, trB := vpScript(4, 2), vpScript(6, 2) // B: set-up, DATA, KEEPALIVE, then the out-of-order packet
	trA.yieldOnRead, trB.yieldOnRead = true, true
	trA.stallWrites, trB.stallWrites = true, true
	tA := &Tunnel{RDGId: "conn-A", User: vpUser(), RemoteAddr: "10.0.0.1:1"}
	tB := &Tunnel{RDGId: "conn-B", User: vpUser(), RemoteAddr: "10.0.0.2:1"}
	vpBackendChunk = []byte{1, 2, 3}
	vpBackendHangsUp = vpBool("hosts-hang-up-after-their-chunk")
	vpPar(func() {
		vpThread("A")
		vpNextTransportFor(trA)
		g.handleWebsocketProtocol(vpCtx(), nil, tA)
	}, func() {
		vpThread("B")
		vpNextTransportFor(trB)
		g.handleWebsocketProtocol(vpCtx(), nil, tB)
	})
	vpRunTasks()
	vpThread("setup")
	vpReach("done")
	vpAssert(trA.corrupted == 0 && trB.corrupted == 0, "no-packet-changes-while-the-client-connection-is-writing-it")
	// frame integrity as seen by the clients
	for _, tr := range []*vpTransport{trA, trB} {
		for _, p := range tr.out {
			vpAssert(len(p) >= 8 && vpLE32(p, 4) == uint32(len(p)), "every-frame-sent-to-a-client-is-whole")
			if len(p) >= 10 && vpLE16(p, 0) == 0xA {
				vpAssert(vpEqBytes(p[10:], vpBackendChunk), "data-frames-carry-the-hosts-bytes")
			}
		}
	}
}

//vp:property C09
//vp:flag lockset
//vp:bounds one legacy tunnel A (RDG_OUT_DATA request, then RDG_IN_DATA request running the packet loop: full set-up, one DATA packet, then CLOSE_CHANNEL while the backend has sent one chunk and stays open) concurrent with one websocket tunnel B (full set-up, DATA, then the client drops) and with a further RDG_OUT_DATA or RDG_IN_DATA request C that carries A's connection id (another client, or a retry); idle timeout arbitrary
//vp:assume as VP_C09_ws; A's RDG_OUT_DATA request has completed before the others start (a client opens IN after OUT was accepted; the third request needs the id to be remembered)
//vp:reach done
func VP_C09_mixed() {
	vpThread("setup")
	vpResetHandlers()
	g := &Gateway{IdleTimeout: int(int32(vpU32("idle")))}
	outA, inA, trB, outC := &vpTransport{}, vpScript(5, 1), vpScript(5, 0), &vpTransport{}
	inA.yieldOnRead, trB.yieldOnRead = true, true
	idA, idB, idC := vpUser(), vpUser(), vpUser()
	tB := &Tunnel{RDGId: "conn-B", User: idB, RemoteAddr: "10.0.0.2:1"}
	vpBackendChunk = []byte{9, 8, 7}
	mk := func(id identity.Identity, method string) *http.Request {
		r := &http.Request{Method: method, Header: http.Header{"Rdg-Connection-Id": {"conn-A"}}}
		return identity.AddToRequestCtx(id, r)
	}
	g.HandleGatewayProtocol(&vpHTTPW{hdr: http.Header{}, tr: outA}, mk(idA, MethodRDGOUT))
	methodC := MethodRDGOUT
	if vpBool("third-request-is-rdg-in-data") {
		methodC = MethodRDGIN
	}
	vpPar(func() {
		vpThread("C")
		g.HandleGatewayProtocol(&vpHTTPW{hdr: http.Header{}, tr: outC}, mk(idC, methodC))
	}, func() {
		vpPar(func() {
			vpThread("A")
			g.HandleGatewayProtocol(&vpHTTPW{hdr: http.Header{}, tr: inA}, mk(idA, MethodRDGIN))
		}, func() {
			vpThread("B")
			vpNextTransportFor(trB)
			g.handleWebsocketProtocol(vpCtx(), nil, tB)
		})
	})
	vpRunTasks()
	vpThread("setup")
	vpReach("done")
	vpAssert(true, "scenario-completed")
}


//vp:property C09 C06
//vp:bounds one websocket tunnel: full set-up, then the client neither reads (host-to-client DATA writes block until the connection is closed) nor sends anything for a long time — longer than any timeout the gateway arms — before it drops; meanwhile the host sends two chunks
//vp:assume virtual time: a timer fires only when every goroutine of the tunnel waits (the shortest pending one first); gorilla/hijacked connections support ONE writer at a time
//vp:reach ended
func VP_C09_stalled_client() {
	vpResetHandlers()
	g := &Gateway{}
	tr := vpScript(4, 0)
	tr.yieldOnRead = true
	tr.clientGone = true
	tr.countOverlaps = true
	tr.pauseAt = 5 // before the read that finds the connection dropped
	vpBackendReads = [][]byte{{1, 2}, {3, 4}}
	vpAssume(!vpBool("dialfail1"))
	vpNextTransports = []*vpTransport{tr}
	t := &Tunnel{RDGId: "conn-1", User: vpUser(), RemoteAddr: "10.0.0.1:1"}
	g.handleWebsocketProtocol(vpCtx(), nil, t)
	vpRunTasks()
	vpReach("ended")
	vpAssert(tr.overlaps == 0, "one-writer-at-a-time-on-the-client-connection")
	vpAssert(tr.closed, "stalled-client-connection-closed")
}


//vp:property C09
//vp:bounds legacy transport: while the gateway is still writing the accept (HTTP 200 and seed) of an RDG_OUT_DATA request to the client, the client's RDG_IN_DATA request with the same connection id arrives and sends a handshake (a client that does not wait for the OUT response), then drops
//vp:assume the hijacked connection supports ONE writer at a time; one cooperative schedule (the IN request is served in full while the accept is in flight)
//vp:reach ended
func VP_C09_accept_in_flight() {
	vpResetHandlers()
	g := &Gateway{}
	id := vpUser()
	mk := func(method string) *http.Request {
		r := &http.Request{Method: method, Header: http.Header{"Rdg-Connection-Id": {"conn-1"}}}
		return identity.AddToRequestCtx(id, r)
	}
	out, in := &vpTransport{countOverlaps: true}, vpScript(1, 0)
	out.onAccept = func() {
		g.HandleGatewayProtocol(&vpHTTPW{hdr: http.Header{}, tr: in}, mk(MethodRDGIN))
	}
	g.HandleGatewayProtocol(&vpHTTPW{hdr: http.Header{}, tr: out}, mk(MethodRDGOUT))
	vpReach("ended")
	vpAssert(out.overlaps == 0, "nothing-else-is-written-to-the-out-connection-while-its-accept-is-in-flight")
}
