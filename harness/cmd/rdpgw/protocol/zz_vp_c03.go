package protocol

// C03 — the host dialed is exactly the host that was requested (decode part).

// vpUTF16Oracle decodes UTF-16LE code units to UTF-8 independently of utf16.go:
// lone surrogates become U+FFFD, one trailing NUL is stripped.
func vpUTF16Oracle(b []byte) []byte {
	var out []byte
	for i := 0; i+1 < len(b); i += 2 {
		u := uint32(b[i]) | uint32(b[i+1])<<8
		if u >= 0xD800 && u <= 0xDFFF {
			u = 0xFFFD // units are decoded one at a time, so every surrogate is lone
		}
		switch {
		case u < 0x80:
			out = append(out, byte(u))
		case u < 0x800:
			out = append(out, byte(0xC0|u>>6), byte(0x80|u&0x3F))
		default:
			out = append(out, byte(0xE0|u>>12), byte(0x80|(u>>6)&0x3F), byte(0x80|u&0x3F))
		}
	}
	if len(out) > 0 && out[len(out)-1] == 0 {
		out = out[:len(out)-1]
	}
	return out
}

//vp:property C03 C10
//vp:set units 3 5
//vp:set maxalloc 24 24
//vp:bounds CHANNEL_CREATE bodies: 8-byte fixed part + 0..units UTF-16 code units (all values incl. surrogates, NUL), declared name size symbolic (may disagree with the bytes present, odd sizes included, up to carried+4); shorter bodies 0..7 bytes
//vp:reach full short odd
func VP_C03_decode() {
	p := &Processor{gw: &Gateway{}}
	body := vpBytes("body", 8+2*vpParam("units"))
	declared := int(vpLE16(body, 6))
	vpAssume(declared <= len(body)+4)
	server, port := p.channelRequest(body)
	vpObserveStr("server", server)
	vpObserve("port", uint64(port))

	vpAssert(port == vpLE16(body, 2), "port-is-the-requested-port")
	if len(body) < 8 {
		vpReach("short")
		vpAssert(server == "", "truncated-request-has-no-server-name")
		return
	}
	present := len(body) - 8
	if declared%2 != 0 {
		vpReach("odd")
		vpAssert(server == "", "odd-name-size-yields-no-server-name")
		return
	}
	if declared <= present {
		vpReach("full")
		want := vpUTF16Oracle(body[8 : 8+declared])
		vpAssert(server == string(want), "server-name-is-the-decoded-request-name")
	} else {
		// fewer bytes than declared: the name must not contain bytes the client did not send
		// (the parser leaves the buffer zero-filled; zeros decode to NULs, which are not host characters)
		for i := 0; i < len(server); i++ {
			vpAssert(server[i] == 0, "over-long-name-size-yields-no-host-characters")
		}
	}
}
