package protocol

// C03 — the host dialed is exactly the host that was requested (decode part).

// vpUTF16Oracle decodes UTF-16LE code units to UTF-8 independently of utf16.go:
// lone surrogates become U+FFFD, one trailing NUL is stripped.
func vpUTF16Oracle(b []byte) []byte {
	var out []byte
	for i := 0; i+1 < len(b); i += 2 {
		u := uint32(b[i]) | uint32(b[i+1])<<8
		if u >= 0xD800 && u <= 0xDFFF {
			u = 0xFFFD // units are decoded one at a time, so every surrogate is lone
		}
		switch {
		case u < 0x80:
			out = append(out, byte(u))
		case u < 0x800:
			out = append(out, byte(0xC0|u>>6), byte(0x80|u&0x3F))
		default:
			out = append(out, byte(0xE0|u>>12), byte(0x80|(u>>6)&0x3F), byte(0x80|u&0x3F))
		}
	}
	if len(out) > 0 && out[len(out)-1] == 0 {
		out = out[:len(out)-1]
	}
	return out
}

//vp:property C03 C10
//vp:set units 3 5
//vp:set maxalloc 24 24
//vp:bounds CHANNEL_CREATE bodies: 8-byte fixed part + 0..units UTF-16 code units (all values incl. surrogates, NUL), declared name size symbolic (may disagree with the bytes present, odd sizes included, up to carried+4); shorter bodies 0..7 bytes
//vp:reach full short odd
func VP_C03_decode() {
	p := &Processor{gw: &Gateway{}}
	body := vpBytes("body", 8+2*vpParam("units"))
	declared := int(vpLE16(body, 6))
	vpAssume(declared <= len(body)+4)
	server, port := p.channelRequest(body)
	vpObserveStr("server", server)
	vpObserve("port", uint64(port))

	vpAssert(port == vpLE16(body, 2), "port-is-the-requested-port")
	if len(body) < 8 {
		vpReach("short")
		vpAssert(server == "", "truncated-request-has-no-server-name")
		return
	}
	present := len(body) - 8
	if declared%2 != 0 {
		vpReach("odd")
		vpAssert(server == "", "odd-name-size-yields-no-server-name")
		return
	}
	if declared <= present {
		vpReach("full")
		want := vpUTF16Oracle(body[8 : 8+declared])
		vpAssert(server == string(want), "server-name-is-the-decoded-request-name")
	} else {
		// fewer bytes than declared: the name must not contain bytes the client did not send
		// (the parser leaves the buffer zero-filled; zeros decode to NULs, which are not host characters)
		for i := 0; i < len(server); i++ {
			vpAssert(server[i] == 0, "over-long-name-size-yields-no-host-characters")
		}
	}
}


//vp:property C03 C01
//vp:set maxalloc 64 64
//vp:bounds a CHANNEL_CREATE request in the phase that allows it, as MS-TSGU lays it out: one resource name (1 symbolic UTF-16 unit) and 0..2 ALTERNATE resource names (1 symbolic unit each), port symbolic; the host policy answers arbitrarily each time it is asked; every connection attempt succeeds or fails arbitrarily
//vp:reach dialed refused
func VP_C03_channel_alternates() {
	vpResetC01()
	gw := &Gateway{CheckHost: vpCallback("host")}
	nalt := vpIntRange("alternate-names", 0, 2)
	name := func(tag string) []byte {
		c := vpU8(tag)
		vpAssume(vpAnd(c >= 'a', c <= 'z'))
		return []byte{2, 0, c, 0}
	}
	body := []byte{1, byte(nalt), vpU8("port-lo"), vpU8("port-hi"), 3, 0}
	body = append(body, name("name")...)
	for i := 0; i < nalt; i++ {
		body = append(body, name("alt"+string(rune('0'+i)))...)
	}
	tr := &vpTransport{in: [][]byte{vpPacket(PKT_TYPE_CHANNEL_CREATE, body)}}
	tun := &Tunnel{transportIn: tr, transportOut: tr, User: vpUser()}
	p := NewProcessor(gw, tun)
	p.state = SERVER_STATE_TUNNEL_AUTHORIZE
	p.Process(vpCtx())
	vpDropTasks()
	vpObserve("ndial", uint64(len(vpDialLog)))
	// every address a connection was attempted to was put to the policy, and the policy allowed it
	for _, d := range vpDialLog {
		allowed := false
		for i, h := range vpHostArgs {
			if h == d && vpHostVerdictAt[i] < len(vpCbRes) && vpCbRes[vpHostVerdictAt[i]] {
				allowed = true
			}
		}
		vpAssert(allowed, "every-address-dialed-was-allowed-by-the-host-policy")
	}
	if len(vpDialLog) > 0 {
		vpReach("dialed")
	} else {
		vpReach("refused")
	}
	ok := len(tr.out) >= 1 && len(tr.out[0]) >= 12 && vpLE32(tr.out[0], 8) == 0
	if ok {
		vpAssert(len(vpDialConns) >= 1 && tun.rwc == vpDialConns[len(vpDialConns)-1], "success-means-a-connection-to-an-allowed-address")
	}
}
