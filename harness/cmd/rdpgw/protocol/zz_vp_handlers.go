package protocol

// Environment of the HTTP-level tunnel handlers (gateway.go): transports, websocket upgrade,
// connection cache, gauges. Overlay only.

import (
	"errors"
	"net"
	"net/http"
	"strings"
	"sync"
	"time"
	"unsafe"

	"github.com/bolkedebruin/rdpgw/cmd/rdpgw/transport"
	"github.com/gorilla/websocket"
	"github.com/patrickmn/go-cache"
	"github.com/prometheus/client_golang/prometheus"
	dto "github.com/prometheus/client_model/go"
)

// Native side: the constructors return the harness transports directly (the handlers only use
// them through inferred types). Symbolic side: the SSA still names *transport.WSPKT /
// *transport.LegacyPKT, so their methods are redirected to the same harness objects.
//vp:all stub github.com/bolkedebruin/rdpgw/cmd/rdpgw/transport.NewWS = vpNewWS
//vp:all stub github.com/bolkedebruin/rdpgw/cmd/rdpgw/transport.NewLegacy = vpNewLegacy
//vp:all model (*github.com/bolkedebruin/rdpgw/cmd/rdpgw/transport.WSPKT).ReadPacket = vpmWSRead
//vp:all model (*github.com/bolkedebruin/rdpgw/cmd/rdpgw/transport.WSPKT).WritePacket = vpmWSWrite
//vp:all model (*github.com/bolkedebruin/rdpgw/cmd/rdpgw/transport.WSPKT).Close = vpmWSClose
//vp:all model (*github.com/bolkedebruin/rdpgw/cmd/rdpgw/transport.LegacyPKT).ReadPacket = vpmLGRead
//vp:all model (*github.com/bolkedebruin/rdpgw/cmd/rdpgw/transport.LegacyPKT).WritePacket = vpmLGWrite
//vp:all model (*github.com/bolkedebruin/rdpgw/cmd/rdpgw/transport.LegacyPKT).Close = vpmLGClose
//vp:all model (*github.com/bolkedebruin/rdpgw/cmd/rdpgw/transport.LegacyPKT).SendAccept = vpmLGSendAccept
//vp:all model (*github.com/bolkedebruin/rdpgw/cmd/rdpgw/transport.LegacyPKT).Drain = vpmLGDrainE
//vp:all stub (*github.com/gorilla/websocket.Upgrader).Upgrade = vpUpgrade
//vp:all model time.Since = vpmSinceAny
//vp:all model github.com/gorilla/websocket.IsWebSocketUpgrade = vpIsWSUpgrade
//vp:all stub (*github.com/gorilla/websocket.Conn).Close = vpWSConnClose
//vp:all stub (*github.com/gorilla/websocket.Conn).SetReadLimit = vpWSSetReadLimit
//vp:all stub (*github.com/gorilla/websocket.Conn).UnderlyingConn = vpWSUnderlying
//vp:all model github.com/patrickmn/go-cache.New = vpmCacheNew
//vp:all stub (*github.com/patrickmn/go-cache.Cache).Get = vpCacheGet
//vp:all stub (*github.com/patrickmn/go-cache.Cache).Set = vpCacheSet
//vp:all stub (*github.com/patrickmn/go-cache.Cache).ItemCount = vpCacheCount
//vp:all stub (*github.com/patrickmn/go-cache.Cache).OnEvicted = vpCacheOnEvicted
//vp:all model (*github.com/patrickmn/go-cache.cache).OnEvicted = vpCacheOnEvicted
//vp:all model (*github.com/patrickmn/go-cache.cache).Get = vpCacheGet
//vp:all model (*github.com/patrickmn/go-cache.cache).Set = vpCacheSet
//vp:all model (*github.com/patrickmn/go-cache.cache).ItemCount = vpCacheCount

// vpNextTransport is what the next NewWS/NewLegacy call hands out.
var vpNextTransports []*vpTransport
var vpMadeTransports []*vpTransport
var vpHijackFails bool

// vpMu guards the harness's own bookkeeping (the native build runs handlers concurrently).
var vpMu sync.Mutex

func vpTakeTransport() *vpTransport {
	vpMu.Lock()
	defer vpMu.Unlock()
	var t *vpTransport
	if len(vpNextTransports) > 0 {
		t = vpNextTransports[0]
		vpNextTransports = vpNextTransports[1:]
	} else {
		t = &vpTransport{}
	}
	vpMadeTransports = append(vpMadeTransports, t)
	return t
}

// vpNextTransportFor queues tr for the calling logical thread's next NewWS/NewLegacy.
func vpNextTransportFor(tr *vpTransport) {
	vpMu.Lock()
	vpNextTransports = append(vpNextTransports, tr)
	vpMu.Unlock()
}

func vpNewWS(c *websocket.Conn) (*vpTransport, error) {
	t := vpTakeTransport()
	t.isWS = true
	return t, nil
}

// gorilla: SetReadLimit(n) makes a read of a MESSAGE larger than n bytes fail (and closes the connection).
var vpWSReadLimit int64

func vpWSSetReadLimit(c *websocket.Conn, n int64) { vpWSReadLimit = n }
func vpNewLegacy(w http.ResponseWriter) (*vpTransport, error) {
	if vpHijackFails {
		return nil, errors.New("cannot hijack connection")
	}
	// a request may bring its own connection (independent of the order in which concurrent requests are served)
	if hw, ok := w.(*vpHTTPW); ok && hw.onHijack != nil {
		// taking the connection over from the http server takes time: other requests are served meanwhile
		f := hw.onHijack
		hw.onHijack = nil
		f()
	}
	if hw, ok := w.(*vpHTTPW); ok && hw.tr != nil {
		vpMu.Lock()
		vpMadeTransports = append(vpMadeTransports, hw.tr)
		vpMu.Unlock()
		return hw.tr, nil
	}
	return vpTakeTransport(), nil
}

// SendAccept writes the HTTP response head (and the seed) to the hijacked connection: it is a write on
// the client connection like any packet, and other requests are served while it is in flight.
func (t *vpTransport) SendAccept(seed bool) {
	t.accepts++
	if !t.countOverlaps {
		return
	}
	vpMu.Lock()
	t.inflight++
	if t.inflight > 1 {
		t.overlaps++
	}
	f := t.onAccept
	t.onAccept = nil
	vpMu.Unlock()
	if f != nil {
		f()
	}
	vpMu.Lock()
	t.inflight--
	vpMu.Unlock()
}

// Drain reads the client's first bytes; it fails when the connection is dropped before any arrive.
// (It returns an error so that callers may or may not look at it.)
func (t *vpTransport) Drain() error {
	t.drains++
	if t.onDrain != nil {
		f := t.onDrain
		t.onDrain = nil
		f() // the client has not sent anything yet: other requests are served meanwhile
	}
	if t.drainFails {
		return errors.New("vp: connection closed before the first byte")
	}
	return nil
}

func vpmWSRead(w *transport.WSPKT) (int, []byte, error) {
	return (*vpTransport)(unsafe.Pointer(w)).ReadPacket()
}
func vpmWSWrite(w *transport.WSPKT, b []byte) (int, error) {
	return (*vpTransport)(unsafe.Pointer(w)).WritePacket(b)
}
func vpmWSClose(w *transport.WSPKT) error { return (*vpTransport)(unsafe.Pointer(w)).Close() }
func vpmLGRead(w *transport.LegacyPKT) (int, []byte, error) {
	return (*vpTransport)(unsafe.Pointer(w)).ReadPacket()
}
func vpmLGWrite(w *transport.LegacyPKT, b []byte) (int, error) {
	return (*vpTransport)(unsafe.Pointer(w)).WritePacket(b)
}
func vpmLGClose(w *transport.LegacyPKT) error { return (*vpTransport)(unsafe.Pointer(w)).Close() }
func vpmLGSendAccept(w *transport.LegacyPKT, seed bool) {
	(*vpTransport)(unsafe.Pointer(w)).SendAccept(seed)
}
func vpmLGDrain(w *transport.LegacyPKT) { (*vpTransport)(unsafe.Pointer(w)).Drain() }
func vpmLGDrainE(w *transport.LegacyPKT) error {
	return (*vpTransport)(unsafe.Pointer(w)).Drain()
}

var vpUpgradeFails bool
var vpWSConnCloses int

func vpUpgrade(u *websocket.Upgrader, w http.ResponseWriter, r *http.Request, h http.Header) (*websocket.Conn, error) {
	if vpUpgradeFails || !vpIsWSUpgrade(r) {
		return nil, errors.New("vp: not a websocket handshake")
	}
	return nil, nil
}

// gorilla's IsWebSocketUpgrade: "Connection" lists the token upgrade AND "Upgrade" lists the token
// websocket (tokens compared without regard to case, lists separated by commas).
func vpIsWSUpgrade(r *http.Request) bool {
	return vpTokenListHas(r.Header, "Connection", "upgrade") && vpTokenListHas(r.Header, "Upgrade", "websocket")
}

func vpTokenListHas(h http.Header, name, token string) bool {
	for _, v := range h[name] {
		for _, part := range strings.Split(v, ",") {
			if strings.EqualFold(strings.TrimSpace(part), token) {
				return true
			}
		}
	}
	return false
}
func vpWSConnClose(c *websocket.Conn) error      { vpWSConnCloses++; return nil }
// the connection below the websocket (nil unless a harness sets it)
var vpWSUnder net.Conn

func vpWSUnderlying(c *websocket.Conn) net.Conn { return vpWSUnder }

// go-cache contract: Get returns the latest Set for the key, unless expired (any time).
var vpCache map[string]interface{}
var vpCacheMayExpire bool
var vpCacheGets int
var vpExpiredAny bool
var vpCacheSetLog []interface{}

// the package-level connection cache is created at package initialisation (its methods are stubbed)
func vpmCacheNew(d, cl time.Duration) *cache.Cache { return &cache.Cache{} }

func vpCacheGet(c interface{}, k string) (interface{}, bool) {
	vpMu.Lock()
	defer vpMu.Unlock()
	vpCacheGets++
	v, ok := vpCache[k]
	if !ok {
		return nil, false
	}
	if vpCacheMayExpire && vpBool("cache-expired-"+itoa(vpCacheGets)) {
		vpExpiredAny = true
		return nil, false
	}
	return v, true
}
func vpCacheSet(c interface{}, k string, v interface{}, d time.Duration) {
	vpMu.Lock()
	defer vpMu.Unlock()
	if vpCache == nil {
		vpCache = map[string]interface{}{}
	}
	vpCache[k] = v
	vpCacheSetLog = append(vpCacheSetLog, v)
}
// go-cache calls the function registered with OnEvicted for every entry that expires (janitor) or is
// deleted. It is registered once (package initialisation) and survives the harness resets.
var vpEvicted func(string, interface{})

func vpCacheOnEvicted(c interface{}, f func(string, interface{})) { vpEvicted = f }

// vpCacheExpireAll: enough time passes for every remembered entry to expire and be swept.
func vpCacheExpireAll() {
	vpMu.Lock()
	old := vpCache
	vpCache = map[string]interface{}{}
	f := vpEvicted
	vpMu.Unlock()
	for k, v := range old {
		if f != nil {
			f(k, v)
		}
	}
}

func vpCacheCount(c interface{}) int {
	vpMu.Lock()
	defer vpMu.Unlock()
	return len(vpCache)
}

func itoa(i int) string {
	if i == 0 {
		return "0"
	}
	s := ""
	for i > 0 {
		s = string(rune('0'+i%10)) + s
		i /= 10
	}
	return s
}

// vpGauge implements prometheus.Gauge as a ghost counter.
type vpGauge struct {
	v  int
	mu sync.Mutex
}

func (g *vpGauge) Desc() *prometheus.Desc                 { return nil }
func (g *vpGauge) Write(*dto.Metric) error                { return nil }
func (g *vpGauge) Describe(chan<- *prometheus.Desc)       {}
func (g *vpGauge) Collect(chan<- prometheus.Metric)       {}
func (g *vpGauge) Set(float64)                            {}
func (g *vpGauge) Inc() {
	g.mu.Lock()
	g.v++
	g.mu.Unlock()
}
func (g *vpGauge) Dec() {
	g.mu.Lock()
	g.v--
	g.mu.Unlock()
}
func (g *vpGauge) Add(float64)                            {}
func (g *vpGauge) Sub(float64)                            {}
func (g *vpGauge) SetToCurrentTime()                      {}

var vpWSGauge, vpLegacyGauge, vpCacheGauge *vpGauge

func vpResetHandlers() {
	vpResetC01()
	vpNextTransports, vpMadeTransports, vpHijackFails = nil, nil, false
	vpUpgradeFails, vpWSConnCloses = false, 0
	vpWSReadLimit = 0
	vpWSUnder = nil
	vpCache, vpCacheMayExpire, vpCacheGets = map[string]interface{}{}, false, 0
	vpExpiredAny, vpCacheSetLog = false, nil
	vpWSGauge, vpLegacyGauge, vpCacheGauge = &vpGauge{}, &vpGauge{}, &vpGauge{}
	websocketConnections, legacyConnections, connectionCache = vpWSGauge, vpLegacyGauge, vpCacheGauge
	Connections = nil
	vpUUIDCtr = 0
}

type vpHTTPW struct {
	hdr http.Header
	onHijack func()
	tr  *vpTransport // the connection behind this response writer (nil: next queued transport)
	status int
}

func (w *vpHTTPW) Header() http.Header         { return w.hdr }
func (w *vpHTTPW) WriteHeader(c int) {
	if w.status == 0 {
		w.status = c
	}
}
func (w *vpHTTPW) Write(b []byte) (int, error) { return len(b), nil }
