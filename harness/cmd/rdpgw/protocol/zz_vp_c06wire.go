package protocol

// C06 — the bytes that reach the client's socket through the REAL legacy transport
// (transport.LegacyPKT over a modelled net.Conn) are a prefix of the well-formed framing of the
// host stream, and the whole of it while the connection lives.

import (
	"errors"
	"net"
	"strconv"
	"time"

	"github.com/bolkedebruin/rdpgw/cmd/rdpgw/transport"
)

// vpWireConn models the client-facing TCP connection as documented by net.Conn: a Write either takes
// all bytes, or — when the peer stops draining — takes a strict prefix and then
//   - without a write deadline: blocks until the peer resumes (the write completes) or the connection
//     breaks (error; every later Write fails too),
//   - with a write deadline in force: returns the short count with a timeout error and the connection
//     stays usable ("the connection can be refreshed by setting a deadline in the future").
type vpWireConn struct {
	wire      []byte
	broken    bool
	wdeadline bool
	nwrites   int
	closed    bool
	calm      int // the first `calm` writes find a draining peer (keeps set-up responses out of the case split)
}

type vpTimeoutErr struct{}

func (vpTimeoutErr) Error() string   { return "vpWireConn: i/o timeout" }
func (vpTimeoutErr) Timeout() bool   { return true }
func (vpTimeoutErr) Temporary() bool { return true }

var vpErrReset = errors.New("vpWireConn: connection reset by peer")

func (c *vpWireConn) Write(b []byte) (int, error) {
	c.nwrites++
	if c.broken || c.closed {
		return 0, vpErrReset
	}
	is := strconv.Itoa(c.nwrites)
	if len(b) > 0 && c.nwrites > c.calm && vpBool("peer-stalls"+is) {
		n := vpIntRange("taken"+is, 0, len(b)-1)
		c.wire = append(c.wire, b[:n]...)
		if c.wdeadline {
			return n, vpTimeoutErr{}
		}
		if vpBool("peer-resumes" + is) {
			c.wire = append(c.wire, b[n:]...)
			return len(b), nil
		}
		c.broken = true
		return n, vpErrReset
	}
	c.wire = append(c.wire, b...)
	return len(b), nil
}
func (c *vpWireConn) Read(b []byte) (int, error)         { return 0, vpErrEOF }
func (c *vpWireConn) Close() error                       { c.closed = true; return nil }
func (c *vpWireConn) LocalAddr() net.Addr                { return nil }
func (c *vpWireConn) RemoteAddr() net.Addr               { return nil }
func (c *vpWireConn) SetDeadline(t time.Time) error      { c.wdeadline = !t.IsZero(); return nil }
func (c *vpWireConn) SetReadDeadline(t time.Time) error  { return nil }
func (c *vpWireConn) SetWriteDeadline(t time.Time) error { c.wdeadline = !t.IsZero(); return nil }

//vp:property C06 C16
//vp:set reads 2 2
//vp:set chunk 2 5
//vp:bounds backend->client over the real legacy OUT transport: a host stream delivered in `reads` socket reads of 0..chunk symbolic bytes each; at every socket write after the channel response the client either drains, or stalls after any strict prefix and then resumes, resets the connection, or (if the code armed a write deadline) lets the deadline expire
//vp:assume net.Conn contract as modelled by vpWireConn (short count only together with an error; an error without a deadline is permanent, a deadline error is transient)
//vp:real (*github.com/bolkedebruin/rdpgw/cmd/rdpgw/transport.LegacyPKT).WritePacket
//vp:reach complete cut-short
func VP_C06_legacy_wire() {
	vpResetC01()
	nreads := vpParam("reads")
	host := &vpConn{}
	var ideal []byte
	for i := 0; i < nreads; i++ {
		chunk := vpBytes("chunk"+strconv.Itoa(i), vpParam("chunk"))
		host.reads = append(host.reads, chunk)
		ideal = append(ideal, vpPacket(PKT_TYPE_DATA, append([]byte{byte(len(chunk)), 0}, chunk...))...)
	}
	wire := &vpWireConn{calm: 1}
	out := &transport.LegacyPKT{Conn: wire}
	// the relay is started by the packet loop itself (channel-create on the IN side); the OUT side is the real transport
	vpBackendReads, vpBackendHangsUp = host.reads, true
	in := &vpTransport{in: [][]byte{vpSetupPacket(3)}, yieldOnRead: true}
	in.beforeEOF = func() {
		if len(vpDialConns) == 1 {
			vpWaitClosed(vpDialConns[0])
		}
	}
	tun := &Tunnel{transportIn: in, transportOut: out, User: vpUser()}
	p := NewProcessor(&Gateway{}, tun)
	p.state = SERVER_STATE_TUNNEL_AUTHORIZE
	p.Process(vpCtx())
	vpRunTasks()
	vpAssume(len(vpDialConns) == 1)
	// the 20-byte channel response precedes the data packets on the wire (its content is C16's subject)
	w := wire.wire
	if len(w) > 20 {
		w = w[20:]
	} else {
		w = nil
	}
	vpObserveBytes("wire", w)
	vpAssert(len(w) <= len(ideal), "client-socket-never-carries-more-than-the-framed-host-stream")
	if len(w) <= len(ideal) {
		vpAssert(vpEqBytes(w, ideal[:len(w)]), "client-socket-carries-a-prefix-of-the-well-formed-framing-of-the-host-stream")
	}
	if !wire.broken {
		vpReach("complete")
		vpAssert(len(wire.wire) == 20+len(ideal), "nothing-dropped-while-the-client-connection-lives")
	} else {
		vpReach("cut-short")
	}
}
