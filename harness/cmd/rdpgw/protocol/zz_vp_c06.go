package protocol

// C06 — relayed byte streams are exact, ordered and complete in both directions.

import "strconv"

//vp:property C06
//vp:set bmax 8 14
//vp:set maxalloc 20 20
//vp:bounds client->backend: one DATA body of every length 0..bmax with symbolic bytes whose declared payload length fits the carried bytes
//vp:reach wrote
func VP_C06_receive() {
	body := vpBytes("body", vpParam("bmax"))
	cblen := int(vpLE16(body, 0))
	vpAssume(len(body) >= 2 && cblen+2 <= len(body)) // declared payload is carried
	conn := &vpConn{}
	receive(body, conn)
	vpAssert(len(conn.written) == 1, "exactly-one-write-per-data-packet")
	if len(conn.written) != 1 {
		return
	}
	vpReach("wrote")
	vpObserveBytes("w", conn.written[0])
	vpAssert(len(conn.written[0]) == cblen, "declared-length-is-forwarded")
	vpAssert(vpEqBytes(conn.written[0], body[2:2+cblen]), "declared-payload-is-forwarded-exactly")
}

//vp:property C06
//vp:set bmax 6 12
//vp:set maxalloc 20 20
//vp:bounds client->backend: one DATA body of every length 0..bmax whose declared payload length exceeds the carried bytes (by at most 4), or that is too short to carry a length
//vp:reach short
func VP_C06_receive_short() {
	body := vpBytes("body", vpParam("bmax"))
	cblen := int(vpLE16(body, 0))
	vpAssume(len(body) < 2 || cblen+2 > len(body))
	vpAssume(cblen <= len(body)+4)
	conn := &vpConn{}
	receive(body, conn)
	vpReach("short")
	// nothing the client did not send may reach the host: whatever is written is a prefix of the carried payload
	var carried []byte
	if len(body) > 2 {
		carried = body[2:]
	}
	for _, w := range conn.written {
		vpObserveBytes("w", w)
		vpAssert(len(w) <= len(carried), "no-bytes-invented-for-truncated-data-packet")
		if len(w) <= len(carried) {
			vpAssert(vpEqBytes(w, carried[:len(w)]), "forwarded-bytes-are-the-carried-bytes")
		}
	}
}

//vp:property C06 C08
//vp:set k 3 4
//vp:set maxalloc 16 16
//vp:bounds client->backend through the packet loop: with an open channel, K packets each DATA (payload of 0..2 symbolic bytes, length field exact), KEEPALIVE (an 8-byte packet) or — once — a repeated CHANNEL_CREATE request, one packet per read, then the client drops; the host must receive exactly the concatenation of the DATA payloads
//vp:reach relayed
func VP_C06_stream() {
	vpResetC01()
	k := vpParam("k")
	var want []byte
	cut := -1 // index of a repeated CHANNEL_CREATE request, if the client sends one
	tr := &vpTransport{ngen: k}
	tr.gen = func(i int) []byte {
		is := strconv.Itoa(i)
		if vpBool("keepalive" + is) {
			return vpPacket(0xD, []byte{})
		}
		if cut < 0 && vpBool("channel-create-again"+is) {
			// out of order: the tunnel has its channel; the request must not be served
			cut = i
			return vpSetupPacket(3)
		}
		pl := vpBytes("payload"+is, 2)
		if cut < 0 {
			want = append(want, pl...)
		}
		return vpPacket(0xA, append([]byte{byte(len(pl)), 0}, pl...))
	}
	rwc := &vpConn{block: true}
	tun := &Tunnel{transportIn: tr, transportOut: tr, User: vpUser(), rwc: rwc}
	p := NewProcessor(&Gateway{}, tun)
	p.state = SERVER_STATE_CHANNEL_CREATE
	p.Process(vpCtx())
	vpDropTasks()
	var got []byte
	for _, w := range rwc.written {
		got = append(got, w...)
	}
	vpReach("relayed")
	if cut < 0 {
		vpAssert(tr.pos == k, "every-packet-of-the-stream-is-processed")
	} else {
		vpAssert(tr.pos == cut+1 && len(vpDialLog) == 0, "a-repeated-channel-create-ends-the-tunnel-and-opens-no-second-host-connection")
	}
	vpAssert(len(got) == len(want), "host-receives-exactly-as-many-bytes-as-the-client-declared")
	vpAssert(vpEqBytes(got, want), "host-stream-equals-the-concatenated-data-payloads")
}

//vp:property C06 C08
//vp:bounds client->backend from the very start of a tunnel: the full set-up sequence (channel-create processed for real: policy allowing, dial succeeding), one DATA packet in a read of its own, then ONE read that carries two DATA packets and what ends the packet loop right behind them (CLOSE_CHANNEL, an out-of-order handshake, or nothing more: the client drops); payloads of 1..2 symbolic bytes
//vp:assume hosts reachable; the relay goroutine runs when the packet loop waits
//vp:reach relayed
func VP_C06_last_payloads_before_the_end() {
	vpResetC01()
	vpResetHandlers()
	vpAssume(!vpBool("dialfail1"))
	p1, p2, p3 := vpBytes("payload1", 2), vpBytes("payload2", 2), vpBytes("payload3", 2)
	vpAssume(len(p1) >= 1 && len(p2) >= 1 && len(p3) >= 1)
	data := func(pl []byte) []byte { return vpPacket(0xA, append([]byte{byte(len(pl)), 0}, pl...)) }
	last := append(data(p2), data(p3)...)
	switch vpIntRange("what-ends-the-loop", 0, 2) {
	case 1:
		last = append(last, vpPacket(0x10, []byte{})...)
	case 2:
		last = append(last, vpPacket(1, []byte{1, 0, 0, 0, 0, 0})...)
	}
	tr := &vpTransport{in: [][]byte{vpSetupPacket(0), vpSetupPacket(1), vpSetupPacket(2), vpSetupPacket(3), data(p1), last}}
	tr.yieldOnRead = true
	tun := &Tunnel{transportIn: tr, transportOut: tr, User: vpUser()}
	NewProcessor(&Gateway{}, tun).Process(vpCtx())
	vpRunTasks()
	vpReach("relayed")
	vpAssert(len(vpDialConns) == 1, "one-host-connection")
	if len(vpDialConns) != 1 {
		return
	}
	var got []byte
	for _, w := range vpDialConns[0].written {
		got = append(got, w...)
	}
	want := append(append(append([]byte{}, p1...), p2...), p3...)
	vpAssert(len(got) == len(want) && vpEqBytes(got, want), "host-receives-every-payload-the-client-sent-before-the-tunnel-ended")
}

//vp:property C06
//vp:set reads 2 3
//vp:set sizes 9 13
//vp:set loopmax 3000000 3000000
//vp:set maxsteps 30000000 80000000
//vp:set budget 300 1500
//vp:bounds backend->client through the packet loop (the relay function is reached only through Process, so its name and signature are free to change): a channel-create is processed (host policy allowing, dial succeeding) and the relay goroutine it starts carries a host stream delivered in `reads` socket reads of a size drawn from {0,1,2,255,4085,4086,4087,65536,300000 (a burst that saturates every read, whatever the buffer grows to),(thorough: 65535,256,70000,131072)} (first/middle/last byte symbolic), after which the host hangs up; the gateway's configured socket buffer sizes are drawn from {0, 65536, 262144}
//vp:reach relayed
func VP_C06_relay_via_process() {
	vpResetC01()
	sizes := []int{0, 1, 2, 255, 4085, 4086, 4087, 65536, 300000, 65535, 256, 70000, 131072}
	bufs := []int{0, 65536, 262144}
	var stream []byte
	for i := 0; i < vpParam("reads"); i++ {
		is := strconv.Itoa(i)
		n := sizes[vpIntRange("size"+is, 0, vpParam("sizes")-1)]
		chunk := make([]byte, n)
		for j := range chunk {
			chunk[j] = 0xEE
		}
		if n > 0 {
			chunk[0], chunk[n/2], chunk[n-1] = vpU8("first"+is), vpU8("mid"+is), vpU8("last"+is)
		}
		vpBackendReads = append(vpBackendReads, chunk)
		stream = append(stream, chunk...)
	}
	if vpBackendReads == nil {
		vpBackendReads = [][]byte{}
	}
	vpBackendHangsUp = true
	gw := &Gateway{SendBuf: bufs[vpIntRange("sendbuf", 0, len(bufs)-1)], ReceiveBuf: bufs[vpIntRange("receivebuf", 0, len(bufs)-1)]}
	tr := &vpTransport{in: [][]byte{vpSetupPacket(3)}, yieldOnRead: true}
	// the client stays until the host has hung up and the relay goroutine has passed everything on
	tr.beforeEOF = func() {
		if len(vpDialConns) == 1 {
			vpWaitClosed(vpDialConns[0])
		}
	}
	tun := &Tunnel{transportIn: tr, transportOut: tr, User: vpUser()}
	p := NewProcessor(gw, tun)
	p.state = SERVER_STATE_TUNNEL_AUTHORIZE
	p.Process(vpCtx())
	vpRunTasks()
	vpAssume(len(vpDialConns) == 1 && len(tr.out) >= 1 && vpLE16(tr.out[0], 0) == 9 && vpStatusOf(tr.out[0]) == 0) // the channel opened

	var got []byte
	for _, pk := range tr.out[1:] {
		vpAssert(len(pk) >= 10 && vpLE16(pk, 0) == 0xA && vpLE16(pk, 2) == 0, "data-packet-type")
		if len(pk) < 10 {
			return
		}
		vpAssert(vpLE32(pk, 4) == uint32(len(pk)), "header-length-equals-bytes-sent")
		vpAssert(int(vpLE16(pk, 8)) == len(pk)-10, "payload-length-field-equals-payload")
		got = append(got, pk[10:]...)
	}
	vpReach("relayed")
	vpAssert(len(got) == len(stream), "client-receives-exactly-as-many-bytes-as-the-host-produced")
	vpAssert(vpEqBytes(got, stream), "client-stream-equals-host-stream")
	vpAssert(vpDialConns[0].closed, "backend-closed-after-read-error")
	vpObserve("npkts", uint64(len(tr.out)-1))
	vpObserve("nbytes", uint64(len(got)))
}
