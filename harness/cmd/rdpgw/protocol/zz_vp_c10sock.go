package protocol

// C10 — "in every supported configuration, including TLS on or off and socket-buffer tuning":
// the websocket upgrade path of HandleGatewayProtocol tunes the socket buffers of the client
// connection by walking it with package reflect (Gateway.setSendReceiveBuffers). The walk is
// executed on the connection objects net/http hands out: a *tls.Conn over a *net.TCPConn (TLS on),
// a bare *net.TCPConn (TLS off, e.g. behind a reverse proxy), a *tls.Conn over some other net.Conn
// (a listener wrapper), and a net.Conn of another type.

import (
	"crypto/tls"
	"net"
	"net/http"
	"os"

	"github.com/bolkedebruin/rdpgw/cmd/rdpgw/identity"
)

// Native side of the engine primitives vpNewTCPConn / vpNewTLSConn (symbolically the executor builds
// the same objects from the library's type declarations).
var vpSockListeners []net.Listener

func vpNewTCPConn(fd int) *net.TCPConn {
	l, err := net.Listen("tcp", "127.0.0.1:0")
	if err != nil {
		panic(vpAssumeFalse{})
	}
	vpSockListeners = append(vpSockListeners, l)
	go func() {
		if c, err := l.Accept(); err == nil {
			buf := make([]byte, 1)
			c.Read(buf)
			c.Close()
		}
	}()
	c, err := net.Dial("tcp", l.Addr().String())
	if err != nil {
		panic(vpAssumeFalse{})
	}
	return c.(*net.TCPConn)
}

func vpNewTLSConn(inner net.Conn) *tls.Conn {
	return tls.Client(inner, &tls.Config{InsecureSkipVerify: true})
}

type vpSockopt struct{ fd, level, opt, value int }

var vpSockopts []vpSockopt
var vpSockoptFails bool

func vpSetsockoptInt(fd, level, opt, value int) error {
	vpSockopts = append(vpSockopts, vpSockopt{fd, level, opt, value})
	if vpSockoptFails {
		return vpErrEOF
	}
	return nil
}

// the same tuning through the exported API of net (a gateway that does not use reflection)
func vpTCPSetReadBuffer(c *net.TCPConn, n int) error  { return vpSetsockoptInt(-1, 1, 8, n) }
func vpTCPSetWriteBuffer(c *net.TCPConn, n int) error { return vpSetsockoptInt(-1, 1, 7, n) }

// a gateway that duplicates the descriptor to tune it (TCPConn.File) owns the duplicate: the kernel socket
// stays open until the duplicate is closed too
var vpDupFilesOpen, vpDupFilesClosed int

func vpTCPFile(c *net.TCPConn) (*os.File, error) {
	vpDupFilesOpen++
	return &os.File{}, nil
}

// os.File.Fd (as documented and as the release in use implements it): it switches the descriptor to
// blocking mode. O_NONBLOCK belongs to the open file description, which the duplicate shares with the
// tunnel's own socket: from then on every Read on that socket sits in a system call and holds an OS thread,
// deadlines stop working, and at the runtime's thread limit (10000 idle tunnels) the process aborts with
// "thread exhaustion" — which nothing recovers from.
var vpSocketBlocking bool

func vpFileFd(f *os.File) uintptr {
	vpSocketBlocking = true
	return 7
}
func vpFileClose(f *os.File) error {
	vpDupFilesClosed++
	return nil
}

//vp:property C10 C11
//vp:stub (*net.conn).File = vpTCPFile
//vp:stub (*os.File).Fd = vpFileFd
//vp:stub (*os.File).Close = vpFileClose
//vp:stub syscall.SetsockoptInt = vpSetsockoptInt
//vp:stub (*net.conn).SetReadBuffer = vpTCPSetReadBuffer
//vp:stub (*net.conn).SetWriteBuffer = vpTCPSetWriteBuffer
//vp:bounds one websocket upgrade request through HandleGatewayProtocol with symbolic SendBuf/ReceiveBuf (all int values) and the client connection being each of: *tls.Conn over *net.TCPConn, bare *net.TCPConn, *tls.Conn over a non-TCP net.Conn, a non-TCP net.Conn, nil; the setsockopt call succeeds or fails; the client then drops the websocket
//vp:assume package reflect is answered from the static types of net.TCPConn / net.conn / net.netFD / poll.FD / tls.Conn as declared in the Go release in use (engine model of ValueOf, Indirect, Kind, IsValid, FieldByName, Elem, Int with their documented panics)
//vp:reach served tuned untuned
func VP_C10_sockbuf() {
	vpResetHandlers()
	vpSockopts, vpSockoptFails = nil, vpBool("setsockopt-fails")
	vpDupFilesOpen, vpDupFilesClosed = 0, 0
	vpSocketBlocking = false
	tr := vpScript(0, 0)
	vpNextTransports = []*vpTransport{tr}
	g := &Gateway{}
	g.SendBuf, g.ReceiveBuf = vpInt("sendbuf"), vpInt("receivebuf")
	kind := vpIntRange("conn-kind", 0, 4)
	switch kind {
	case 0:
		vpWSUnder = vpNewTLSConn(vpNewTCPConn(7))
	case 1:
		vpWSUnder = vpNewTCPConn(7)
	case 2:
		vpWSUnder = vpNewTLSConn(&vpConn{})
	case 3:
		vpWSUnder = &vpConn{}
	case 4:
		vpWSUnder = nil
	}
	r := &http.Request{Method: MethodRDGOUT, Header: http.Header{"Rdg-Connection-Id": {"conn-1"}, "Connection": {"upgrade"}, "Upgrade": {"websocket"}}}
	r = identity.AddToRequestCtx(vpUser(), r)
	g.HandleGatewayProtocol(&vpHTTPW{hdr: http.Header{}}, r)
	vpReach("served")
	if len(vpSockopts) > 0 {
		vpReach("tuned")
	} else {
		vpReach("untuned")
	}
	vpObserve("sockopts", uint64(len(vpSockopts)))
	// the tunnel was served: its transport was read until the client dropped, then closed
	vpAssert(tr.closed, "websocket-tunnel-served-and-closed-whatever-the-socket-tuning-did")
	vpAssert(vpDupFilesOpen == vpDupFilesClosed, "no-duplicate-of-the-client-socket-is-left-open-when-the-tunnel-has-ended")
	vpAssert(!vpSocketBlocking, "the-client-socket-stays-in-non-blocking-mode")
	for _, l := range vpSockListeners {
		l.Close()
	}
	vpSockListeners = nil
}
