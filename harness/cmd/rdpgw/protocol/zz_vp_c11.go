package protocol

// C11 — ending a tunnel releases the backend connection and all per-tunnel resources.

import (
	"context"
	"net/http"
	"strconv"

	"github.com/bolkedebruin/rdpgw/cmd/rdpgw/identity"
)

// vpSetupPackets: the well-formed packets of the set-up sequence, then DATA packets.
func vpSetupPacket(i int) []byte {
	switch i {
	case 0:
		return vpPacket(1, []byte{1, 0, 0, 0, 0, 0})
	case 1:
		return vpPacket(4, []byte{0, 0, 0, 0, 0, 0, 0, 0})
	case 2:
		return vpPacket(6, []byte{2, 0, 'c', 0})
	case 3:
		return vpPacket(8, []byte{1, 0, 0x3d, 0x0d, 3, 0, 2, 0, 'h', 0})
	case 5:
		return vpPacket(0xD, []byte{}) // a keep-alive while the channel is open
	}
	return vpPacket(0xA, []byte{1, 0, byte(i)})
}

// vpEnding: how the client side ends after `good` well-formed packets.
//   0 connection drops (read error)   1 CLOSE_CHANNEL   2 out-of-order packet (handshake again)
//   3 unframeable bytes (length field 3)   4 unknown packet type then drop   5 another CHANNEL_CREATE (other host)
//   6 a DATA packet that consists of its header only, then drop
func vpScript(good, ending int) *vpTransport {
	tr := &vpTransport{}
	n := good
	if ending != 0 {
		n++
	}
	tr.ngen = n
	tr.gen = func(i int) []byte {
		if i < good {
			return vpSetupPacket(i)
		}
		switch ending {
		case 1:
			return vpPacket(0x10, []byte{})
		case 2:
			return vpPacket(1, []byte{1, 0, 0, 0, 0, 0})
		case 3:
			return []byte{0xA, 0, 0, 0, 3, 0, 0, 0, 1, 2}
		case 5:
			return vpPacket(8, []byte{1, 0, 0x3d, 0x0d, 3, 0, 2, 0, 'z', 0})
		case 6:
			return vpPacket(0xA, []byte{}) // a DATA packet that is only a header, then the connection drops
		}
		return vpPacket(0x77, []byte{})
	}
	return tr
}

func vpCheckReleased(t *Tunnel, trs []*vpTransport, label string) {
	// backend connection closed (if one was opened)
	for _, c := range vpDialConns {
		vpAssert(c.closed, label+"-backend-connection-closed")
	}
	for _, tr := range trs {
		vpAssert(tr.closed, label+"-client-facing-transport-closed")
	}
	_, still := Connections[t.Id]
	vpAssert(!still, label+"-removed-from-the-connection-registry")
	vpAssert(len(Connections) == 0, label+"-registry-holds-nothing-of-the-ended-tunnel")
	vpAssert(vpWSGauge.v == 0 && vpLegacyGauge.v == 0, label+"-connection-gauges-restored")
}

//vp:property C11
//vp:set good 6 8
//vp:bounds websocket transport; 0..good well-formed packets (handshake, tunnel-create, tunnel-auth, channel-create, then DATA) followed by each of seven ways the client side can end: connection drop, CLOSE_CHANNEL, out-of-order handshake, unframeable bytes, unknown packet type + drop, a further CHANNEL_CREATE for another host, a header-only DATA packet + drop; the backend is quiet or has one chunk in flight towards the client, and stays open or hangs up first (the relay goroutine runs whenever the packet loop waits for the client); dial succeeding or failing; writes to the client failing from the n-th response on (n = 1..5) or never
//vp:assume one cooperative schedule (goroutines switch where the running one waits; the rest run to completion after the handler returns); "bounded time" is reduced to "no goroutine of the tunnel is left parked forever"
//vp:reach ended
func VP_C11_ws() {
	vpResetHandlers()
	good := vpIntRange("good", 0, vpParam("good"))
	ending := vpIntRange("ending", 0, 6)
	tr := vpScript(good, ending)
	vpNextTransports = []*vpTransport{tr}
	// the host side: quiet, or one chunk in flight towards the client; it stays open or hangs up first
	if vpBool("host-sends-a-chunk") {
		vpBackendChunk = []byte{7}
	}
	vpBackendHangsUp = vpBool("host-hangs-up-first")
	tr.yieldOnRead = true // the relay goroutine runs while the packet loop waits for the client
	// the client's connection may be reset under the gateway's feet: from some response on, writes to it fail
	tr.failWriteAt = vpIntRange("client-write-fails-from-response", 0, 5)
	g := &Gateway{}
	id := vpUser()
	t := &Tunnel{RDGId: "conn-1", User: id, RemoteAddr: "10.0.0.1:1"}
	g.handleWebsocketProtocol(vpCtx(), nil, t)
	vpReach("ended")
	vpObserve("dials", uint64(len(vpDialLog)))
	vpCheckReleased(t, []*vpTransport{tr}, "ws")
	// every goroutine serving the tunnel stops: run the relay goroutine now
	vpRunTasks()
	vpAssert(true, "ws-relay-goroutine-terminated")
}

//vp:property C11 C10
//vp:set good 6 8
//vp:bounds legacy transport pair: RDG_OUT_DATA request then RDG_IN_DATA request with the same connection id; same client behaviours as VP_C11_ws on the IN connection, plus the IN connection being dropped before its first byte; a duplicate RDG_IN_DATA request arriving while the tunnel is live (before its first or second packet); with the client dropping IN: optionally a host chunk in flight to a client that stopped reading OUT (the relay goroutine is blocked in that write when the tunnel ends)
//vp:reach ended
func VP_C11_legacy() {
	vpResetHandlers()
	good := vpIntRange("good", 0, vpParam("good"))
	ending := vpIntRange("ending", 0, 6)
	out := &vpTransport{}
	in := vpScript(good, ending)
	// the IN connection may be dropped right after it was accepted, before its first byte
	in.drainFails = vpBool("in-dropped-before-first-byte")
	dup := &vpTransport{}
	vpNextTransports = []*vpTransport{out, in, dup}
	g := &Gateway{}
	id := vpUser()
	mk := func(method string) *http.Request {
		r := &http.Request{Method: method, Header: http.Header{"Rdg-Connection-Id": {"conn-1"}}}
		return identity.AddToRequestCtx(id, r)
	}
	// the host may have a chunk in flight while the client has stopped reading its OUT connection and
	// then drops the IN connection: the relay goroutine is blocked in a client write when the tunnel ends
	if ending == 0 && vpBool("client-stopped-reading-out") {
		vpBackendChunk = []byte{7}
		out.clientGone = true
		in.yieldOnRead = true
	}
	// a retry of the RDG_IN_DATA request (same connection id) may arrive while the tunnel is live: it is
	// served at the moment the first IN handler waits for its dupAt-th packet
	dupAt := vpIntRange("duplicate-in-request-at", -1, 1)
	inner := in.gen
	in.gen = func(i int) []byte {
		if i == dupAt {
			g.HandleGatewayProtocol(&vpHTTPW{hdr: http.Header{}}, mk(MethodRDGIN))
		}
		return inner(i)
	}
	g.HandleGatewayProtocol(&vpHTTPW{hdr: http.Header{}}, mk(MethodRDGOUT))
	vpAssert(out.accepts == 1 && len(vpCache) == 1, "legacy-out-channel-accepted-and-remembered")
	g.HandleGatewayProtocol(&vpHTTPW{hdr: http.Header{}}, mk(MethodRDGIN))
	vpReach("ended")
	x, ok := vpCache["conn-1"].(*Tunnel)
	vpAssert(ok && x != nil, "tunnel-remembered-under-its-connection-id")
	if !ok || x == nil {
		return
	}
	vpAssert(x.transportIn != nil && x.transportOut != nil, "both-legacy-channels-attached-to-one-tunnel")
	vpObserve("dials", uint64(len(vpDialLog)))
	vpCheckReleased(x, vpMadeTransports, "legacy") // OUT, IN and the connection of a duplicate IN request
	vpRunTasks()
	vpAssert(true, "legacy-relay-goroutine-terminated")
}

var _ = strconv.Itoa

//vp:property C10 C07
//vp:bounds every ordering of up to three legacy requests (each RDG_IN_DATA or RDG_OUT_DATA, same connection id) — IN alone, IN before OUT, repeated IN, repeated OUT — each IN connection delivering a handshake packet and then dropping; hijack succeeding
//vp:reach served
func VP_C10_legacy_order() {
	vpResetHandlers()
	g := &Gateway{}
	id := vpUser()
	n := vpIntRange("nreq", 1, 3)
	for i := 0; i < n; i++ {
		isIn := vpBool("req-is-in-" + strconv.Itoa(i))
		tr := vpScript(1, 0)
		vpNextTransports = []*vpTransport{tr}
		m := MethodRDGOUT
		if isIn {
			m = MethodRDGIN
		}
		r := &http.Request{Method: m, Header: http.Header{"Rdg-Connection-Id": {"conn-1"}}}
		g.HandleGatewayProtocol(&vpHTTPW{hdr: http.Header{}}, identity.AddToRequestCtx(id, r))
	}
	vpReach("served")
	vpAssert(vpWSGauge.v == 0 && vpLegacyGauge.v == 0, "gauges-restored")
}

//vp:property C01 C07
//vp:bounds legacy transport: an OUT/IN pair runs a tunnel that ends (rejected cookie -> error response, or a full set-up followed by CLOSE_CHANNEL); then, while the tunnel is still remembered under its connection id, the client opens a new OUT/IN pair with the SAME id and sends a complete set-up sequence on it
//vp:reach second-pair
func VP_C01_legacy_dead_tunnel() {
	vpResetHandlers()
	g := &Gateway{TokenAuth: true}
	refuse := vpBool("first-tunnel-ends-by-rejected-cookie")
	g.CheckPAACookie = func(ctx context.Context, c string) (bool, error) { return !refuse, nil }
	id := vpUser()
	mk := func(method string) *http.Request {
		r := &http.Request{Method: method, Header: http.Header{"Rdg-Connection-Id": {"conn-1"}}}
		return identity.AddToRequestCtx(id, r)
	}
	hs := func() []byte { return vpPacket(1, []byte{1, 0, 0, 0, 2, 0}) } // client offers PAA
	out1, in1 := &vpTransport{}, &vpTransport{}
	if refuse {
		in1.in = [][]byte{hs(), vpSetupPacket(1)}
	} else {
		in1.in = [][]byte{hs(), vpSetupPacket(1), vpSetupPacket(2), vpSetupPacket(3), vpSetupPacket(4), vpPacket(0x10, []byte{})}
	}
	vpNextTransports = []*vpTransport{out1, in1}
	g.HandleGatewayProtocol(&vpHTTPW{hdr: http.Header{}}, mk(MethodRDGOUT))
	g.HandleGatewayProtocol(&vpHTTPW{hdr: http.Header{}}, mk(MethodRDGIN))
	dials1, answered1 := len(vpDialLog), len(out1.out)
	vpAssert(answered1 >= 1, "first-tunnel-was-answered")
	// the same connection id again
	refuse = false
	out2, in2 := &vpTransport{}, &vpTransport{}
	in2.in = [][]byte{hs(), vpSetupPacket(1), vpSetupPacket(2), vpSetupPacket(3), vpSetupPacket(4)}
	vpNextTransports = []*vpTransport{out2, in2}
	g.HandleGatewayProtocol(&vpHTTPW{hdr: http.Header{}}, mk(MethodRDGOUT))
	g.HandleGatewayProtocol(&vpHTTPW{hdr: http.Header{}}, mk(MethodRDGIN))
	vpReach("second-pair")
	vpDropTasks()
	// after the error response / channel close nothing further on THAT tunnel is answered or causes a connection
	vpAssert(len(out1.out) == answered1, "nothing-more-sent-on-the-ended-tunnels-out-channel")
	vpAssert(len(out2.out) == 0 && in2.pos == 0, "packets-for-an-ended-tunnel-are-not-answered")
	vpAssert(len(vpDialLog) == dials1, "an-ended-tunnel-opens-no-further-backend-connection")
}


//vp:property C11
//vp:bounds legacy transport: a client opens RDG_OUT_DATA (accepted, remembered under its connection id) and goes away before it ever opens RDG_IN_DATA; then enough time passes for the connection cache to expire and sweep its entries. Variant: the RDG_IN_DATA request does come, but its connection cannot be hijacked
//vp:assume go-cache: an entry is dropped after its lifetime (5 min, swept every 10 min) and the function registered with OnEvicted is called for it; "bounded time" = by then
//vp:reach forgotten
func VP_C11_orphaned_out() {
	vpResetHandlers()
	g := &Gateway{}
	id := vpUser()
	mk := func(method string) *http.Request {
		r := &http.Request{Method: method, Header: http.Header{"Rdg-Connection-Id": {"conn-1"}}}
		return identity.AddToRequestCtx(id, r)
	}
	out := &vpTransport{}
	g.HandleGatewayProtocol(&vpHTTPW{hdr: http.Header{}, tr: out}, mk(MethodRDGOUT))
	vpAssert(out.accepts == 1, "legacy-out-channel-accepted")
	if vpBool("in-request-comes-but-cannot-be-hijacked") {
		vpHijackFails = true
		g.HandleGatewayProtocol(&vpHTTPW{hdr: http.Header{}}, mk(MethodRDGIN))
		vpHijackFails = false
	}
	// the client is gone; nothing else will ever arrive for this connection id
	vpCacheExpireAll()
	vpReach("forgotten")
	vpAssert(out.closed, "out-connection-of-a-tunnel-that-never-got-its-in-channel-is-closed-once-the-tunnel-is-forgotten")
	vpAssert(len(Connections) == 0 && vpLegacyGauge.v == 0, "nothing-registered-for-it")
}


//vp:property C11
//vp:bounds websocket tunnel, full set-up; the remote desktop host then stops reading (its receive window and the gateway's send buffer are full) while the client uploads one DATA packet, after which the client drops
//vp:assume a write to a peer that does not read blocks until the connection is closed or a write deadline set by the writer expires
//vp:reach uploading
func VP_C11_host_stops_reading() {
	vpResetHandlers()
	vpBackendStopsReading = true
	vpAssume(!vpBool("dialfail1"))
	tr := vpScript(5, 0) // set-up, one DATA packet, then the connection drops
	inner := tr.gen
	tr.gen = func(i int) []byte {
		if i == 4 {
			vpReach("uploading")
			vpAssert(len(vpDialConns) == 1, "channel-open-when-the-upload-starts")
		}
		return inner(i)
	}
	vpNextTransports = []*vpTransport{tr}
	g := &Gateway{}
	t := &Tunnel{RDGId: "conn-1", User: vpUser(), RemoteAddr: "10.0.0.1:1"}
	g.handleWebsocketProtocol(vpCtx(), nil, t)
	vpRunTasks()
	vpCheckReleased(t, []*vpTransport{tr}, "stalled-host")
}
