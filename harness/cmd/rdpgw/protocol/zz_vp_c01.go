package protocol

// C01 — no backend connection or relay before the full authorization sequence.
// C16 (response layout/status) and C03 (host flow) assertions ride on the same step.

import (
	"context"
	"errors"
	"net"
	"strconv"
	"time"
)

//vp:all stub net.DialTimeout = vpDial
//vp:all stub net.Dial = vpDial2
//vp:all stub (*net.Dialer).Dial = vpDialerDial
//vp:all stub (*net.Dialer).DialContext = vpDialerDialContext
//vp:all stub net.LookupHost = vpLookupHost
//vp:all stub net.LookupIP = vpLookupIP
//vp:all stub (*net.Resolver).LookupHost = vpResolverLookupHost
//vp:all stub (*net.Resolver).LookupIPAddr = vpResolverLookupIPAddr

// ghost state of the environment stubs (reset by every harness)
var (
	vpDialLog   []string
	vpDialConns []*vpConn
	vpCbLog     []string // "cookie:<arg>", "client:<arg>", "host:<arg>" in call order
	vpCbRes     []bool
	vpHostArg   string
	vpHostArgs  []string // every host the policy was asked about, in order
	vpHostVerdictAt []int // index into vpCbRes of the verdict for vpHostArgs[i]
	vpCookieArg string
)

var vpBackendChunk []byte
var vpBackendStopsReading bool // the host no longer reads what the gateway sends it
var vpBackendHangsUp bool // after its chunk the host closes the connection (otherwise it stays quiet)
var vpBackendReads [][]byte // when set: what the host's successive reads deliver (instead of one chunk)
var vpStepTunnel *Tunnel
var vpSeenTarget, vpSeenAddr string

func vpResetC01() {
	vpBackendChunk = nil
	vpBackendHangsUp = false
	vpBackendStopsReading = false
	vpLookups = 0
	vpBackendReads = nil
	vpBackendGate = nil
	vpStepTunnel, vpSeenTarget, vpSeenAddr = nil, "", ""
	vpDialLog = nil
	vpDialConns = nil
	vpCbLog = nil
	vpCbRes = nil
	vpHostArg = ""
	vpHostArgs, vpHostVerdictAt = nil, nil
	vpCookieArg = ""
}

// vpDial stands in for net.DialTimeout: arbitrary success/failure, address logged.
func vpDial(network, address string, timeout time.Duration) (net.Conn, error) {
	vpMu.Lock()
	defer vpMu.Unlock()
	vpDialLog = append(vpDialLog, address)
	if vpBool("dialfail" + strconv.Itoa(len(vpDialLog))) {
		return nil, errors.New("vpDial: connection refused")
	}
	c := &vpConn{block: !vpBackendHangsUp, peerStopsReading: vpBackendStopsReading}
	if vpBackendChunk != nil {
		c.reads = [][]byte{vpBackendChunk} // the host sends one chunk and then stays quiet
	}
	if vpBackendReads != nil {
		c.reads = append([][]byte{}, vpBackendReads...)
	}
	c.gate = vpBackendGate
	vpDialConns = append(vpDialConns, c)
	return c, nil
}

// vpBackendGate: the next dialled host stays quiet until this channel is closed.
var vpBackendGate chan struct{}

// Name resolution (for code that resolves the host itself): a name has one or two addresses, or does not
// resolve; an address literal is its own single address.
var vpLookups int

func vpLookupHost(name string) ([]string, error) {
	vpMu.Lock()
	vpLookups++
	k := strconv.Itoa(vpLookups)
	vpMu.Unlock()
	switch vpIntRange("addresses-of-the-name-"+k, 0, 2) {
	case 0:
		return nil, errors.New("vp: lookup: no such host")
	case 1:
		return []string{"192.0.2.1"}, nil
	}
	return []string{"192.0.2.1", "192.0.2.2"}, nil
}
func vpLookupIP(name string) ([]net.IP, error) {
	hs, err := vpLookupHost(name)
	var out []net.IP
	for _, h := range hs {
		out = append(out, net.ParseIP(h))
	}
	return out, err
}
func vpResolverLookupHost(r *net.Resolver, ctx context.Context, name string) ([]string, error) {
	return vpLookupHost(name)
}
func vpResolverLookupIPAddr(r *net.Resolver, ctx context.Context, name string) ([]net.IPAddr, error) {
	hs, err := vpLookupHost(name)
	var out []net.IPAddr
	for _, h := range hs {
		out = append(out, net.IPAddr{IP: net.ParseIP(h)})
	}
	return out, err
}

// equivalent ways of opening the backend connection share the same environment model
func vpDial2(network, address string) (net.Conn, error) { return vpDial(network, address, 0) }
func vpDialerDial(d *net.Dialer, network, address string) (net.Conn, error) {
	return vpDial(network, address, d.Timeout)
}
func vpDialerDialContext(d *net.Dialer, ctx context.Context, network, address string) (net.Conn, error) {
	return vpDial(network, address, d.Timeout)
}

func vpCallback(kind string) func(context.Context, string) (bool, error) {
	return func(ctx context.Context, s string) (bool, error) {
		vpCbLog = append(vpCbLog, kind)
		if kind == "host" {
			vpHostArg = s
			vpHostArgs = append(vpHostArgs, s)
			vpHostVerdictAt = append(vpHostVerdictAt, len(vpCbRes))
			if vpStepTunnel != nil {
				// what a policy that reads the tunnel (security.CheckSession) sees at this moment
				vpSeenTarget, vpSeenAddr = vpStepTunnel.TargetServer, vpStepTunnel.RemoteAddr
			}
		}
		if kind == "cookie" {
			vpCookieArg = s
		}
		r := vpBool("cb-" + kind + strconv.Itoa(len(vpCbLog)))
		vpCbRes = append(vpCbRes, r)
		if !r && vpBool("cb-refuses-with-error-"+kind+strconv.Itoa(len(vpCbLog))) {
			// the repository's own policies refuse with (false, error): security.CheckHost, CheckPAACookie
			return false, errors.New("vp: refused by policy")
		}
		return r, nil
	}
}

// vpGateway: arbitrary capability switches; callbacks either all wired (each answering an
// arbitrary bool when consulted) or all nil. A nil callback behaves like one that accepts, so
// the mixed wirings add no behaviour; the all-nil variant keeps the nil guards honest.
// TokenAuth with a nil cookie callback is excluded: main() wires CheckPAACookie iff TokenAuth.
func vpGateway() *Gateway {
	gw := &Gateway{SmartCardAuth: vpBool("sc"), TokenAuth: vpBool("paa")}
	if vpBool("callbacks-wired") {
		gw.CheckPAACookie = vpCallback("cookie")
		gw.CheckClientName = vpCallback("client")
		gw.CheckHost = vpCallback("host")
	} else {
		vpAssume(!gw.TokenAuth)
	}
	return gw
}

func vpCbAccepted(kind string) bool {
	// no callback call of that kind returned false
	for i, k := range vpCbLog {
		if k == kind && !vpCbRes[i] {
			return false
		}
	}
	return true
}

func vpIsResponseType(t uint16) bool {
	return t == 2 || t == 5 || t == 7 || t == 9 || t == 0x11
}

// vpStatusOf extracts the status of a response per the MS-TSGU layouts (tunnel response
// carries serverVersion first).
func vpStatusOf(r []byte) uint32 {
	if vpLE16(r, 0) == 5 {
		return vpLE32(r, 10)
	}
	return vpLE32(r, 8)
}

// vpCheckLayout asserts the C16 framing/layout clauses for one response.
func vpCheckLayout(r []byte) {
	vpAssert(len(r) >= 12, "resp-min-size")
	if len(r) < 12 {
		return
	}
	t := vpLE16(r, 0)
	vpAssert(vpIsResponseType(t), "resp-type-is-a-response-type")
	vpAssert(vpLE16(r, 2) == 0, "resp-reserved-zero")
	vpAssert(vpLE32(r, 4) == uint32(len(r)), "resp-length-field-equals-bytes-sent")
	switch t {
	case 2:
		vpAssert(len(r) == 18, "handshake-resp-18-bytes")
	case 5:
		vpAssert(len(r) == 26, "tunnel-resp-26-bytes")
		if len(r) == 26 {
			vpAssert(vpLE16(r, 14) == 3 && vpLE32(r, 18) != 0 && vpLE32(r, 22) == 2, "tunnel-resp-fields-match-mask")
		}
	case 7:
		vpAssert(len(r) == 24, "tunnel-auth-resp-24-bytes")
		if len(r) == 24 {
			vpAssert(vpLE16(r, 12) == 3 && vpLE16(r, 14) == 0, "tunnel-auth-resp-fields-match-mask")
		}
	case 9:
		vpAssert(len(r) == 20, "channel-resp-20-bytes")
		if len(r) == 20 {
			vpAssert(vpLE16(r, 12) == 1 && vpLE32(r, 16) != 0, "channel-resp-fields-match-mask")
		}
	case 0x11:
		vpAssert(len(r) >= 12, "close-resp-has-status")
	}
}

// request type that a given response type answers
func vpAnswers(resp uint16) uint16 { return resp - 1 }

//vp:property C01 C02 C16 C03 C10
//vp:set bodymax 10 14
//vp:set budget 300 900
//vp:set maxalloc 40 40
//vp:bounds ONE packet (type: all 2^16 values; body: every length 0..bodymax (10 quick, 14 thorough) with symbolic bytes; inner length fields symbolic up to carried+4) from EVERY protocol phase 0..5, every capability setting, every callback present/absent and accepting/refusing, dial succeeding/failing; histories of any length follow by induction over the loop invariant (paper argument)
//vp:assume TokenAuth implies a cookie callback is wired (checked separately on main())
//vp:assume declared inner lengths (cookie, client name, server name, data) exceed the carried bytes by at most the allocation bound
//vp:reach accept-handshake accept-tunnel accept-auth accept-channel relay close refused out-of-order unknown
func VP_C01_step() {
	vpResetC01()
	gw := vpGateway()
	gw.IdleTimeout = int(int32(vpU32("idle")))
	pre := vpInt("state")
	vpAssume(vpAnd(pre >= 0, pre <= 5)) // Inv: the loop head is only reached in phases 0..5
	pt := vpU16("pt")
	body := vpBytes("body", vpParam("bodymax"))
	// allocation bound: declared inner lengths exceed the carried bytes by at most 4
	lim := uint16(len(body) + 4)
	vpAssume(vpImplies(pt == 0xA, vpLE16(body, 0) <= lim))
	vpAssume(vpImplies(pt == 6, vpLE16(body, 0) <= lim))
	vpAssume(vpImplies(pt == 8, vpLE16(body, 6) <= lim))
	vpAssume(vpImplies(pt == 4, vpLE16(body, 8) <= lim))
	if len(body) > 1 {
		// a channel request announces at most two alternate resource names (allocation bound; the names
		// themselves are the subject of VP_C03_channel_alternates)
		vpAssume(vpImplies(pt == 8, body[1] <= 2))
	}
	// client-name content is irrelevant to this property: beyond the first UTF-16 unit assume ASCII
	// (the decoder forks 4 ways per unit; arbitrary content is covered by VP_C10_parsers)
	for i := 4; i+1 < len(body); i += 2 {
		vpAssume(vpImplies(pt == 6, vpAnd(body[i] < 0x80, body[i+1] == 0)))
	}
	tr := &vpTransport{in: [][]byte{vpPacket(pt, body)}}
	tun := &Tunnel{transportIn: tr, transportOut: tr, User: vpUser()}
	// what the accepted token bound the tunnel to (security.CheckPAACookie writes these fields and
	// security.CheckSession compares the requested host and the client address against them)
	tokHost, tokAddr := vpStringN("token-host", 2), vpStringN("token-addr", 2)
	tun.TargetServer, tun.RemoteAddr = tokHost, tokAddr
	vpStepTunnel = tun
	var rwc *vpConn
	if pre >= 4 {
		rwc = &vpConn{block: true}
		tun.rwc = rwc
	}
	p := NewProcessor(gw, tun)
	vpAssert(p.state == 0, "base-case-initial-state")
	p.state = pre

	err := p.Process(vpCtx())
	vpDropTasks()
	post := p.state
	vpObserve("post", uint64(post))
	vpObserve("nresp", uint64(len(tr.out)))
	vpObserve("ndial", uint64(len(vpDialLog)))

	// ---- what happened ----
	ok0 := false // a status-0 response was sent
	bad := false // an error-status or close response was sent
	for _, r := range tr.out {
		vpCheckLayout(r)
		if len(r) < 12 {
			continue
		}
		vpObserveBytes("resp", r)
		if vpStatusOf(r) == 0 && vpLE16(r, 0) != 0x11 {
			ok0 = true
		} else {
			bad = true
		}
		vpAssert(vpAnswers(vpLE16(r, 0)) == pt, "response-type-matches-request")
	}
	vpAssert(len(tr.out) <= 1, "at-most-one-response-per-packet")
	relayed := rwc != nil && len(rwc.written) > 0

	// ---- C01: success only in order, with the callback's consent ----
	if ok0 {
		inOrder := vpOr(vpOr(vpAnd(pre == 0, pt == 1), vpAnd(pre == 1, pt == 4)), vpOr(vpAnd(pre == 2, pt == 6), vpAnd(pre == 3, pt == 8)))
		vpAssert(inOrder, "success-response-only-in-order")
		vpAssert(post == pre+1, "success-advances-exactly-one-phase")
		switch pt {
		case 1:
			vpReach("accept-handshake")
		case 4:
			vpReach("accept-tunnel")
			vpAssert(gw.CheckPAACookie == nil || (len(vpCbLog) == 1 && vpCbLog[0] == "cookie" && vpCbRes[0]), "tunnel-success-only-with-accepted-cookie")
			vpAssert(!gw.TokenAuth || len(vpCbLog) == 1, "token-auth-consults-cookie-check")
		case 6:
			vpReach("accept-auth")
			vpAssert(gw.CheckClientName == nil || (len(vpCbLog) == 1 && vpCbLog[0] == "client" && vpCbRes[0]), "auth-success-only-with-accepted-client")
		case 8:
			vpReach("accept-channel")
			vpAssert(gw.CheckHost == nil || (len(vpCbLog) == 1 && vpCbLog[0] == "host" && vpCbRes[0]), "channel-success-only-with-accepted-host")
			vpAssert(len(vpDialLog) == 1 && len(vpDialConns) == 1, "channel-success-only-after-successful-dial")
		}
	}
	// ---- dial only from phase 3 on CHANNEL_CREATE after the host check, at most once ----
	if len(vpDialLog) > 0 {
		vpAssert(vpAnd(pre == 3, pt == 8), "dial-only-on-channel-create-in-phase-3")
		vpAssert(len(vpDialLog) == 1, "at-most-one-dial-per-step")
		vpAssert(gw.CheckHost == nil || (len(vpCbLog) == 1 && vpCbRes[0]), "dial-only-after-host-accepted")
		if gw.CheckHost != nil && len(vpCbLog) == 1 {
			// C03 flow: the string checked is the string dialed
			vpAssert(vpHostArg == vpDialLog[0], "checked-host-equals-dialed-host")
		}
	}
	if pre >= 4 {
		vpAssert(len(vpDialLog) == 0, "no-second-dial-once-a-channel-exists")
	}
	// ---- relay only on DATA with an open channel ----
	if relayed {
		vpReach("relay")
		vpAssert(vpAnd(pre >= 4, pt == 0xA), "relay-only-on-data-in-phase-4-or-5")
	}
	for _, c := range vpDialConns {
		vpAssert(len(c.written) == 0, "nothing-relayed-in-the-step-that-dials")
	}
	// ---- C03/C04: the host policy is consulted with the tunnel's token-bound fields intact ----
	for _, k := range vpCbLog {
		if k == "host" {
			vpAssert(vpSeenTarget == tokHost && vpSeenAddr == tokAddr, "token-bound-host-and-address-intact-when-the-host-policy-is-consulted")
		}
	}
	if len(vpDialLog) == 0 {
		vpAssert(tun.TargetServer == tokHost, "token-host-unchanged-without-a-connection")
	}
	vpAssert(tun.RemoteAddr == tokAddr, "token-address-never-changed-by-packets")
	// ---- refusals ----
	if len(vpCbLog) > 0 && !vpCbRes[0] {
		vpReach("refused")
		vpAssert(!ok0 && len(vpDialLog) == 0 && post == pre && err != nil, "callback-refusal-is-final")
		if len(tr.out) == 1 && len(tr.out[0]) >= 14 {
			st := vpStatusOf(tr.out[0])
			switch vpCbLog[0] {
			case "cookie":
				vpAssert(st == 0x800759F8, "cookie-refusal-status")
			case "host":
				vpAssert(st == 0x800759DA, "host-refusal-status")
			case "client":
				vpAssert(st != 0, "client-refusal-status-nonzero")
			}
		}
		vpAssert(len(tr.out) == 1, "refusal-is-answered")
	}
	// ---- C16: specific status codes ----
	if len(tr.out) == 1 && len(tr.out[0]) >= 14 && !ok0 {
		st := vpStatusOf(tr.out[0])
		vpAssert(st != 0 || vpLE16(tr.out[0], 0) == 0x11, "non-success-response-has-nonzero-status")
		if vpLE16(tr.out[0], 0) == 2 && vpStatusOf(tr.out[0]) != 0 {
			vpAssert(vpImplies(pre == 0, st == 0x800759E9), "capability-mismatch-status")
		}
	}
	if len(vpDialLog) == 1 && len(vpDialConns) == 0 {
		vpAssert(!ok0 && len(tr.out) == 1 && post == pre, "unreachable-host-is-an-error")
	}
	// ---- out-of-order / unknown ----
	known := vpOr(vpOr(vpOr(pt == 1, pt == 4), vpOr(pt == 6, pt == 8)), vpOr(vpOr(pt == 0xA, pt == 0xD), pt == 0x10))
	expectedNow := vpOr(vpOr(vpOr(vpAnd(pre == 0, pt == 1), vpAnd(pre == 1, pt == 4)), vpOr(vpAnd(pre == 2, pt == 6), vpAnd(pre == 3, pt == 8))),
		vpOr(vpAnd(pre >= 4, vpOr(pt == 0xA, pt == 0xD)), vpAnd(pre == 5, pt == 0x10)))
	if !known {
		vpReach("unknown")
	}
	if !expectedNow {
		if known {
			vpReach("out-of-order")
		}
		vpAssert(!ok0 && len(vpDialLog) == 0 && !relayed && post == pre, "out-of-order-or-unknown-has-no-effect")
	}
	// ---- after an error response or a close: the loop returned, nothing further is read ----
	if bad {
		vpAssert(tr.nread == 1, "after-error-or-close-nothing-further-is-read")
	}
	if pt == 0x10 && pre == 5 {
		vpReach("close")
		vpAssert(len(tr.out) == 1 && vpLE16(tr.out[0], 0) == 0x11 && post == 6 && err == nil, "close-answered-and-tunnel-ends")
	}
	// ---- loop invariant re-established whenever the loop is re-entered ----
	if tr.nread == 2 {
		vpAssert(post >= 0 && post <= 5, "inv-state-in-range-at-loop-head")
		vpAssert((post >= 4) == (tun.rwc != nil), "inv-backend-conn-iff-phase-at-least-4")
		vpAssert(vpAnd(post >= pre, post <= pre+1), "inv-phase-monotone")
		if pre < 4 {
			vpAssert((post >= 4) == (len(vpDialLog) == 1), "inv-one-dial-iff-channel-phase")
		}
	} else {
		vpAssert(post >= 0 && post <= 6, "state-in-range-on-return")
	}
}

//vp:property C01 C16
//vp:set k 5 7
//vp:set budget 300 1200
//vp:set maxalloc 24 24
//vp:bounds K packets (quick 4, thorough 6) from the initial state; types drawn from the 8 classes {1,4,6,8,0xA,0xD,0x10,other}; bodies: fixed well-formed skeletons with symbolic fields (handshake and tunnel capability bytes, port, server name 1 UTF-16 unit, data byte), callbacks symbolic; every response checked against the documented layout
//vp:reach dialed relayed
func VP_C01_bmc() {
	vpResetC01()
	gw := vpGateway()
	k := vpParam("k")
	tr := &vpTransport{ngen: k}
	tr.gen = func(i int) []byte {
		is := strconv.Itoa(i)
		pt := vpU16("pt" + is)
		var body []byte
		switch pt {
		case 1:
			body = []byte{1, 0, 0, 0, vpU8("caps" + is), 0}
		case 4:
			body = []byte{vpU8("tcaps" + is), 0, 0, 0, 0, 0, 0, 0} // the client's capability word is arbitrary
		case 6:
			body = []byte{2, 0, 'c', 0}
		case 8:
			body = []byte{1, 0, vpU8("port" + is), 0, 3, 0, 2, 0, vpU8("srv" + is), 0}
		case 0xA:
			body = []byte{1, 0, vpU8("data" + is)}
		default:
			body = []byte{}
		}
		return vpPacket(pt, body)
	}
	tun := &Tunnel{transportIn: tr, transportOut: tr, User: vpUser()}
	p := NewProcessor(gw, tun)
	p.Process(vpCtx())
	vpDropTasks()

	// whole-history oracle over the ghost logs
	vpAssert(len(vpDialLog) <= 1, "at-most-one-dial-per-tunnel")
	nOK := 0
	sawBad := false
	for i, r := range tr.out {
		vpAssert(!sawBad, "nothing-answered-after-error-or-close")
		vpCheckLayout(r) // every response of the history has the documented layout (C16)
		if len(r) < 14 {
			continue
		}
		if vpStatusOf(r) == 0 && vpLE16(r, 0) != 0x11 {
			// i-th success must be the i-th step of the sequence 2,5,7,9
			want := []uint16{2, 5, 7, 9}
			vpAssert(nOK < 4 && vpLE16(r, 0) == want[nOK], "successes-occur-in-protocol-order")
			nOK++
		} else {
			sawBad = true
		}
		_ = i
	}
	if len(vpDialLog) == 1 {
		vpReach("dialed")
		vpAssert(nOK >= 3, "dial-preceded-by-handshake-tunnel-auth-successes")
	}
	for _, c := range vpDialConns {
		if len(c.written) > 0 {
			vpReach("relayed")
			vpAssert(nOK == 4, "relay-only-after-four-successes")
		}
	}
	vpAssert(nOK == 4 || len(vpDialConns) == 0 || len(vpDialConns[0].written) == 0, "no-relay-before-channel-success")
	vpAssert(p.state >= 0 && p.state <= 6, "state-in-range")
	vpObserve("state", uint64(p.state))
	vpObserve("nresp", uint64(len(tr.out)))
}
