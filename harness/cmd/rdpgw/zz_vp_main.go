package main

// C05 (route table), C16/C01 (configuration -> Gateway wiring): main() executed up to ListenAndServe
// with every third-party constructor stubbed. gorilla/mux's builder methods record a ghost route
// table; requests are then dispatched over it following mux's documented matching rules.

import (
	"context"
	"crypto/tls"
	"errors"
	"net/url"
	"log"
	"net/http"
	"strconv"
	"time"

	"github.com/bolkedebruin/gokrb5/v8/keytab"
	"github.com/bolkedebruin/gokrb5/v8/service"
	"github.com/bolkedebruin/rdpgw/cmd/rdpgw/config"
	"github.com/bolkedebruin/rdpgw/cmd/rdpgw/identity"
	"github.com/bolkedebruin/rdpgw/cmd/rdpgw/kdcproxy"
	"github.com/bolkedebruin/rdpgw/cmd/rdpgw/protocol"
	"github.com/bolkedebruin/rdpgw/cmd/rdpgw/web"
	"github.com/coreos/go-oidc/v3/oidc"
	"github.com/google/uuid"
	"github.com/gorilla/mux"
	goidentity "github.com/jcmturner/goidentity/v6"
	"github.com/patrickmn/go-cache"
	"golang.org/x/crypto/acme/autocert"
	"golang.org/x/oauth2"
)

//vp:all model github.com/google/uuid.New = vpmUUIDNew
//vp:all model github.com/patrickmn/go-cache.New = vpmCacheNew
//vp:all model (*github.com/bolkedebruin/rdpgw/cmd/rdpgw/protocol.Gateway).HandleGatewayProtocol = vpmGatewayHandler
//vp:all stubvalue (*github.com/bolkedebruin/rdpgw/cmd/rdpgw/protocol.Gateway).HandleGatewayProtocol = vpBindGW
//vp:all model github.com/jcmturner/goidentity/v6.FromHTTPRequestContext = vpmGoIdentity
//vp:all stub github.com/thought-machine/go-flags.Parse = vpFlagsParse
//vp:all stub github.com/bolkedebruin/rdpgw/cmd/rdpgw/config.Load = vpConfigLoad
//vp:all stub github.com/bolkedebruin/rdpgw/cmd/rdpgw/web.InitStore = vpInitStore
//vp:all stub github.com/gorilla/mux.NewRouter = vpNewRouter
//vp:all stub (*github.com/gorilla/mux.Router).Use = vpRouterUse
//vp:all stub (*github.com/gorilla/mux.Router).Handle = vpRouterHandle
//vp:all stub (*github.com/gorilla/mux.Router).HandleFunc = vpRouterHandleFunc
//vp:all stub (*github.com/gorilla/mux.Router).PathPrefix = vpRouterPathPrefix
//vp:all stub (*github.com/gorilla/mux.Router).Name = vpRouterName
//vp:all stub (*github.com/gorilla/mux.Router).MatcherFunc = vpRouterMatcherFunc
//vp:all stub (*github.com/gorilla/mux.Router).NewRoute = vpRouterNewRoute
//vp:all stub (*github.com/gorilla/mux.Route).Subrouter = vpRouteSubrouter
//vp:all stub (*github.com/gorilla/mux.Route).HandlerFunc = vpRouteHandlerFunc
//vp:all stub (*github.com/gorilla/mux.Route).Handler = vpRouteHandler
//vp:all stub (*github.com/gorilla/mux.Route).HeadersRegexp = vpRouteHeadersRegexp
//vp:all stub (*github.com/gorilla/mux.Route).Methods = vpRouteMethods
//vp:all stub github.com/prometheus/client_golang/prometheus/promhttp.Handler = vpPromHandler
//vp:all stub github.com/coreos/go-oidc/v3/oidc.NewProvider = vpOIDCNewProvider
//vp:all stub (*github.com/coreos/go-oidc/v3/oidc.Provider).Verifier = vpOIDCVerifier
//vp:all stub (*github.com/coreos/go-oidc/v3/oidc.Provider).Endpoint = vpOIDCEndpoint
//vp:all stub github.com/bolkedebruin/gokrb5/v8/keytab.Load = vpKeytabLoad
//vp:all stub github.com/bolkedebruin/gokrb5/v8/spnego.SPNEGOKRB5Authenticate = vpSPNEGO
//vp:all stub github.com/bolkedebruin/gokrb5/v8/service.Logger = vpServiceLogger
//vp:all stub github.com/bolkedebruin/rdpgw/cmd/rdpgw/kdcproxy.InitKdcProxy = vpInitKdcProxy
//vp:all stub (*github.com/bolkedebruin/rdpgw/cmd/rdpgw/web.NTLMAuthHandler).NTLMAuth = vpNTLMWrap
//vp:all stub (*github.com/bolkedebruin/rdpgw/cmd/rdpgw/web.BasicAuthHandler).BasicAuth = vpBasicWrap
//vp:all stub (*net/http.Server).ListenAndServe = vpListenAndServe
//vp:all stub net/http.ListenAndServe = vpHTTPListenAndServe
//vp:all stub net/http.HandleFunc = vpHTTPHandleFunc
//vp:all stub crypto/tls.LoadX509KeyPair = vpLoadX509KeyPair
//vp:all stub os.Getenv = vpGetenv
//vp:all stub golang.org/x/crypto/acme/autocert.HostWhitelist = vpHostWhitelist
//vp:all stub (*golang.org/x/crypto/acme/autocert.Manager).HTTPHandler = vpAcmeHTTPHandler
//vp:all stub (*net/http.Server).ListenAndServeTLS = vpListenAndServeTLS
//vp:all stub log.Fatal = vpFatal
//vp:all stub log.Fatalf = vpFatalf

// no SPNEGO identity in the request context (the SPNEGO library, which would put one there, is stubbed)
func vpmGoIdentity(r *http.Request) goidentity.Identity { return nil }
func vpmUUIDNew() uuid.UUID                                  { return uuid.UUID{} }
func vpmCacheNew(d, c time.Duration) *cache.Cache            { return &cache.Cache{} }
func vpItoa(i int) string                                    { return strconv.Itoa(i) }
func vpFlagsParse(data interface{}) ([]string, error)        { return nil, nil }
func vpInitStore(k1, k2 []byte, storeType string, maxLen int) {}

var vpConf config.Configuration

func vpConfigLoad(file string) config.Configuration { return vpConf }

// ---- ghost route table ----

type vpRoute struct {
	route    *mux.Route
	router   *mux.Router // the router the route was created on
	prefix   string
	path     string
	headers  []string
	matchers []mux.MatcherFunc
	methods  []string
	handler  http.Handler
	sub      *mux.Router
}

var (
	vpRoutes   []*vpRoute
	vpRootR    *mux.Router
	vpUsed     int
	vpServed   string
	vpTrace    []string // markers set when handlers run
	vpListened int
)

func vpFind(r *mux.Route) *vpRoute {
	for _, x := range vpRoutes {
		if x.route == r {
			return x
		}
	}
	return nil
}
func vpAddRoute(rt *mux.Router) *vpRoute {
	x := &vpRoute{route: &mux.Route{}, router: rt}
	vpRoutes = append(vpRoutes, x)
	return x
}

func vpNewRouter() *mux.Router { vpRootR = &mux.Router{}; return vpRootR }
func vpRouterUse(r *mux.Router, mwf ...mux.MiddlewareFunc) { vpUsed += len(mwf) }
func vpRouterHandle(r *mux.Router, path string, h http.Handler) *mux.Route {
	x := vpAddRoute(r)
	x.path, x.handler = path, h
	return x.route
}
func vpRouterHandleFunc(r *mux.Router, path string, f func(http.ResponseWriter, *http.Request)) *mux.Route {
	return vpRouterHandle(r, path, http.HandlerFunc(f))
}
func vpRouterPathPrefix(r *mux.Router, tpl string) *mux.Route {
	x := vpAddRoute(r)
	x.prefix = tpl
	return x.route
}
func vpRouterName(r *mux.Router, name string) *mux.Route { return vpAddRoute(r).route }
func vpRouterMatcherFunc(r *mux.Router, f mux.MatcherFunc) *mux.Route {
	x := vpAddRoute(r)
	x.matchers = append(x.matchers, f)
	return x.route
}
func vpRouterNewRoute(r *mux.Router) *mux.Route { return vpAddRoute(r).route }
func vpRouteSubrouter(r *mux.Route) *mux.Router {
	x := vpFind(r)
	x.sub = &mux.Router{}
	return x.sub
}
func vpRouteHandlerFunc(r *mux.Route, f func(http.ResponseWriter, *http.Request)) *mux.Route {
	vpFind(r).handler = http.HandlerFunc(f)
	return r
}
func vpRouteHandler(r *mux.Route, h http.Handler) *mux.Route { vpFind(r).handler = h; return r }
func vpRouteHeadersRegexp(r *mux.Route, pairs ...string) *mux.Route {
	x := vpFind(r)
	x.headers = append(x.headers, pairs...)
	return r
}
func vpRouteMethods(r *mux.Route, methods ...string) *mux.Route {
	x := vpFind(r)
	x.methods = append(x.methods, methods...)
	return r
}

type vpMarkerHandler struct{ mark string }

func (h vpMarkerHandler) ServeHTTP(w http.ResponseWriter, r *http.Request) {
	vpTrace = append(vpTrace, h.mark)
}

func vpPromHandler() http.Handler { return vpMarkerHandler{"metrics"} }
func vpOIDCNewProvider(ctx context.Context, issuer string) (*oidc.Provider, error) {
	return &oidc.Provider{}, nil
}
// the verifier's configuration is what decides how ID tokens are checked: remembered for VP_C13_verifier_config
var vpOIDCConf *oidc.Config

func vpOIDCVerifier(p *oidc.Provider, c *oidc.Config) *oidc.IDTokenVerifier {
	vpOIDCConf = c
	return nil
}
func vpOIDCEndpoint(p *oidc.Provider) oauth2.Endpoint                       { return oauth2.Endpoint{} }
func vpKeytabLoad(path string) (*keytab.Keytab, error)                      { return nil, nil }
func vpServiceLogger(l *log.Logger) func(*service.Settings)                { return nil }
func vpInitKdcProxy(conf string) kdcproxy.KerberosProxy                     { return kdcproxy.KerberosProxy{} }

// the three authentication wrappers: each marks the trace and, standing for "the backend confirmed
// the credentials", calls the handler it wraps
func vpSPNEGO(inner http.Handler, kt *keytab.Keytab, settings ...func(*service.Settings)) http.Handler {
	return http.HandlerFunc(func(w http.ResponseWriter, r *http.Request) {
		vpTrace = append(vpTrace, "kerberos")
		inner.ServeHTTP(w, r)
	})
}
func vpNTLMWrap(h *web.NTLMAuthHandler, next http.HandlerFunc) http.HandlerFunc {
	return func(w http.ResponseWriter, r *http.Request) {
		vpTrace = append(vpTrace, "ntlm")
		next(w, r)
	}
}
func vpBasicWrap(h *web.BasicAuthHandler, next http.HandlerFunc) http.HandlerFunc {
	return func(w http.ResponseWriter, r *http.Request) {
		vpTrace = append(vpTrace, "basic")
		next(w, r)
	}
}

// how the gateway endpoint ended up being served
var vpServedPlain, vpServedTLS int
var vpAcmeHosts []string

func vpListenAndServe(s *http.Server) error {
	vpListened++
	vpServedPlain++
	return errors.New("vp: stop here")
}
func vpListenAndServeTLS(s *http.Server, c, k string) error {
	vpListened++
	vpServedTLS++
	return errors.New("vp: stop here")
}

// the environment of the TLS set-up in main()
func vpHTTPListenAndServe(addr string, h http.Handler) error { return errors.New("vp: acme listener not started") }
func vpHTTPHandleFunc(pattern string, h func(http.ResponseWriter, *http.Request)) {}
func vpLoadX509KeyPair(certFile, keyFile string) (tls.Certificate, error) {
	if vpBool("certificate-files-unreadable") {
		return tls.Certificate{}, errors.New("vp: open: no such file")
	}
	return tls.Certificate{}, nil
}
func vpGetenv(k string) string { return "" }
func vpHostWhitelist(hosts ...string) autocert.HostPolicy {
	vpAcmeHosts = append(vpAcmeHosts, hosts...)
	return func(ctx context.Context, host string) error { return nil }
}
func vpAcmeHTTPHandler(m *autocert.Manager, fallback http.Handler) http.Handler { return nil }

// The tunnel handler (symbolic side): same observable as the real one for the probe request — it asks
// the request's identity for its remote address — and it remembers the Gateway it is bound to.
var vpGW *protocol.Gateway

func vpmGatewayHandler(g *protocol.Gateway, w http.ResponseWriter, r *http.Request) {
	vpGW = g
	identity.FromRequestCtx(r).GetAttribute(identity.AttrRemoteAddr)
}

// native side: main.go's method values gw.HandleGatewayProtocol are rewritten to vpBindGW(&gw)
func vpBindGW(g *protocol.Gateway) func(http.ResponseWriter, *http.Request) {
	return func(w http.ResponseWriter, r *http.Request) { vpmGatewayHandler(g, w, r) }
}

// vpProbeID: an identity that notes when the tunnel handler consults it.
type vpProbeID struct{ *identity.User }

func (p vpProbeID) GetAttribute(k string) interface{} {
	if k == identity.AttrRemoteAddr {
		vpTrace = append(vpTrace, "gateway")
	}
	return "192.0.2.1:1"
}

type vpRW struct {
	hdr    http.Header
	status int
}

func (w *vpRW) Header() http.Header { return w.hdr }
func (w *vpRW) WriteHeader(c int) {
	if w.status == 0 {
		w.status = c
	}
}
func (w *vpRW) Write(b []byte) (int, error) {
	if w.status == 0 {
		w.status = 200
	}
	return len(b), nil
}

func vpContains(s, sub string) bool {
	for i := 0; i+len(sub) <= len(s); i++ {
		if s[i:i+len(sub)] == sub {
			return true
		}
	}
	return false
}

// vpDispatch: gorilla/mux matching as documented — routes of a router are tried in registration
// order; a route matches if all its matchers match (HeadersRegexp(k, re): some value of header k
// contains a match of the unanchored expression; here the expressions are literal words).
func vpDispatch(rt *mux.Router, w http.ResponseWriter, r *http.Request) bool {
	for _, x := range vpRoutes {
		if x.router != rt || (x.handler == nil) {
			continue
		}
		ok := true
		for i := 0; i+1 < len(x.headers); i += 2 {
			v := r.Header[x.headers[i]]
			m := false
			for _, s := range v {
				if vpContains(s, x.headers[i+1]) {
					m = true
				}
			}
			if !m {
				ok = false
			}
		}
		for _, f := range x.matchers {
			if !f(r, nil) {
				ok = false
			}
		}
		if ok {
			x.handler.ServeHTTP(w, r)
			return true
		}
	}
	return false
}

func vpHas(tr []string, m string) bool {
	for _, x := range tr {
		if x == m {
			return true
		}
	}
	return false
}

//vp:property C05 C16 C01 C18
//vp:set n 9 12
//vp:bounds every subset of {openid, local, basic, kerberos, ntlm} that config.Load lets start (not ntlm+kerberos), cookie auth on/off; one request to the gateway endpoint whose Authorization header is absent, empty, or any string of <= n bytes (so: a bare scheme keyword, wrong-case and truncated schemes, a scheme of a disabled mechanism, several keywords in one value); TLS disabled (the route table does not depend on it)
//vp:assume gorilla/mux: routes are tried in registration order, first match wins; HeadersRegexp matches when a header value contains the (literal) expression; MatcherFunc as given. The three authentication wrappers are taken to have confirmed the credentials (their own logic is VP_C05_basic / VP_C05_ntlm); SPNEGO validation is third-party
//vp:reach open challenged wrapped unmatched wired
func VP_C05_routes() {
	vpRoutes, vpRootR, vpUsed, vpTrace, vpListened, vpGW = nil, nil, 0, nil, 0, nil
	names := []string{"openid", "local", "basic", "kerberos", "ntlm"}
	on := map[string]bool{}
	var authn []string
	for i, n := range names {
		if vpBool("auth-" + vpItoa(i)) {
			on[n] = true
			authn = append(authn, n)
		}
	}
	vpAssume(!(on["ntlm"] && on["kerberos"])) // refused by config.Load (VP_C18_consistency)
	tokenAuth := vpBool("tokenauth")
	vpAssume(vpImplies(on["openid"], tokenAuth)) // likewise
	vpConf = config.Configuration{}
	vpConf.Server.Authentication = authn
	vpConf.Server.Tls = "disable"
	vpConf.Server.GatewayAddress = "//gw.example"
	vpConf.Server.Hosts = []string{"h1:3389"}
	vpConf.Server.HostSelection = "roundrobin"
	vpConf.Kerberos.Keytab = "/etc/krb5.keytab"
	vpConf.Caps.TokenAuth = tokenAuth
	vpConf.Caps.SmartCardAuth = vpBool("smartcard")
	vpConf.Caps.IdleTimeout = int(int32(vpU32("idle")))
	vpConf.Caps.EnableClipboard, vpConf.Caps.EnableDrive, vpConf.Caps.EnablePrinter = vpBool("clip"), vpBool("drive"), vpBool("printer")
	vpConf.Caps.EnablePort, vpConf.Caps.EnablePnp = vpBool("port"), vpBool("pnp")
	vpConf.Caps.DisableRedirect, vpConf.Caps.RedirectAll = vpBool("disableall"), vpBool("enableall")

	noHosts := vpBool("no-hosts-configured")
	if noHosts {
		vpConf.Server.Hosts = nil
	}
	fatal := vpCatchFatal(main)
	if noHosts {
		// a gateway without a single host is refused at start, whatever the authentication mechanisms
		vpAssert(fatal && vpListened == 0, "no-hosts-configured-refuses-to-start")
		return
	}
	vpAssert(fatal && vpListened == 1, "main-runs-up-to-listen")
	// the gateway endpoint's subrouter
	var rdp *mux.Router
	for _, x := range vpRoutes {
		if x.router == vpRootR && x.prefix == "/remoteDesktopGateway/" {
			rdp = x.sub
		}
	}
	vpAssert(rdp != nil, "gateway-endpoint-subrouter-exists")
	if rdp == nil {
		return
	}
	// one request
	hdr := http.Header{}
	authz := ""
	if vpBool("has-authorization") {
		authz = vpString("authz", vpParam("n"))
		hdr["Authorization"] = []string{authz}
	}
	req := identity.AddToRequestCtx(vpProbeID{identity.NewUser()}, &http.Request{Method: "RDG_OUT_DATA", Header: hdr})
	w := &vpRW{hdr: http.Header{}}
	vpTrace = nil
	matched := vpDispatch(rdp, w, req)
	reached := vpHas(vpTrace, "gateway")
	vpObserveBool("matched", matched)
	vpObserveBool("reached", reached)
	vpObserve("status", uint64(w.status))

	anyOther := on["local"] || on["basic"] || on["kerberos"] || on["ntlm"]
	openidOnly := on["openid"] && !anyOther
	viaNTLM := on["ntlm"] && (vpContains(authz, "NTLM") || vpContains(authz, "Negotiate"))
	viaBasic := (on["local"] || on["basic"]) && vpContains(authz, "Basic")
	viaKrb := on["kerberos"] && vpContains(authz, "Negotiate")

	if openidOnly {
		vpReach("open")
		vpAssert(reached && len(vpTrace) == 1, "openid-only-endpoint-is-open-at-http-level")
	} else if authz == "" {
		// no credentials: 401 with one challenge per enabled scheme, handler not reached
		vpReach("challenged")
		vpAssert(!reached, "no-credentials-never-reach-the-tunnel-handler")
		vpAssert(matched && w.status == 401, "no-credentials-get-401")
		ch := w.hdr["Www-Authenticate"]
		want := 0
		if on["ntlm"] {
			want += 2
			vpAssert(vpHas(ch, "NTLM") && vpHas(ch, "Negotiate"), "ntlm-challenges-offered")
		}
		if on["local"] || on["basic"] {
			want++
			vpAssert(vpHas(ch, `Basic realm="restricted", charset="UTF-8"`), "basic-challenge-offered")
		}
		if on["kerberos"] {
			want++
			vpAssert(vpHas(ch, "Negotiate"), "negotiate-challenge-offered")
		}
		vpAssert(len(ch) == want, "exactly-one-challenge-per-enabled-scheme")
	} else if reached {
		vpReach("wrapped")
		// the handler is only reached through the wrapper of an ENABLED scheme whose keyword the header carries
		vpAssert(len(vpTrace) >= 2, "tunnel-handler-reached-only-through-an-authentication-wrapper")
		first := vpTrace[0]
		switch first {
		case "ntlm":
			vpAssert(viaNTLM, "ntlm-wrapper-only-for-enabled-ntlm-and-matching-header")
		case "basic":
			vpAssert(viaBasic, "basic-wrapper-only-for-enabled-basic-and-matching-header")
		case "kerberos":
			vpAssert(viaKrb, "kerberos-wrapper-only-for-enabled-kerberos-and-matching-header")
		default:
			vpAssert(false, "tunnel-handler-reached-through-an-unknown-path")
		}
	} else {
		vpReach("unmatched")
		vpAssert(!(viaNTLM || viaBasic || viaKrb), "credentials-of-an-enabled-scheme-are-routed-to-its-wrapper")
	}
	// a scheme of a disabled mechanism never reaches the handler
	if !openidOnly && reached {
		vpAssert(viaNTLM || viaBasic || viaKrb, "disabled-scheme-credentials-never-reach-the-tunnel-handler")
	}
	// ---- configuration -> Gateway wiring ----
	if reached && vpGW != nil {
		g := vpGW
		vpReach("wired")
		vpAssert((g.CheckPAACookie != nil) == tokenAuth, "cookie-check-wired-iff-token-authentication")
		vpAssert(g.CheckHost != nil, "host-policy-always-wired")
		vpAssert(g.TokenAuth == tokenAuth && g.SmartCardAuth == vpConf.Caps.SmartCardAuth, "capability-switches-copied")
		vpAssert(g.IdleTimeout == vpConf.Caps.IdleTimeout, "idle-timeout-copied")
		f := g.RedirectFlags
		c := vpConf.Caps
		vpAssert(f.Clipboard == c.EnableClipboard && f.Drive == c.EnableDrive && f.Printer == c.EnablePrinter && f.Port == c.EnablePort && f.Pnp == c.EnablePnp && f.DisableAll == c.DisableRedirect && f.EnableAll == c.RedirectAll, "redirect-policy-copied-field-by-field")
	}
}


//vp:property C13
//vp:bounds initOIDC with an arbitrary client id / secret / provider URL of <= 3 bytes each: the configuration the ID-token verifier is built from
//vp:assume go-oidc's contract: the verifier checks signature (provider keys), issuer, audience = Config.ClientID and expiry against Config.Now (time.Now when nil) unless the Skip*/Insecure* switches are set
//vp:reach built
func VP_C13_verifier_config() {
	vpOIDCConf = nil
	conf = config.Configuration{}
	conf.OpenId.ClientId = vpString("client-id", 3)
	conf.OpenId.ClientSecret = vpString("client-secret", 3)
	conf.OpenId.ProviderUrl = vpString("provider-url", 3)
	o := initOIDC(&url.URL{Scheme: "https", Host: "gw.example", Path: "/callback"})
	vpReach("built")
	vpAssert(o != nil && vpOIDCConf != nil, "verifier-built-from-a-configuration")
	if vpOIDCConf == nil {
		return
	}
	c := vpOIDCConf
	vpAssert(c.ClientID == conf.OpenId.ClientId && !c.SkipClientIDCheck, "id-token-audience-checked-against-the-configured-client-id")
	vpAssert(!c.SkipExpiryCheck && !c.SkipIssuerCheck && !c.InsecureSkipSignatureCheck, "id-token-signature-issuer-and-expiry-checks-are-on")
	if c.Now != nil {
		before := time.Now()
		got := c.Now()
		after := time.Now()
		vpAssert(!got.Before(before) && !got.After(after), "id-token-expiry-is-checked-against-the-current-time")
	}
}


//vp:property C18
//vp:bounds main() run up to the point where the gateway endpoint is served, for every configuration config.Load lets start as far as TLS is concerned: tls "disable" (then no local/basic authentication) or left automatic; certificate and key file configured or not (and readable or not); gateway address with a host name or empty; authentication mechanisms openid / local / basic / ntlm in any startable combination
//vp:assume config.Load's refusals are the subject of VP_C18_consistency (here: local or basic authentication never comes with tls "disable"); acme, the key-pair loader and the HTTP servers are stubs
//vp:reach plain tls
func VP_C18_serving() {
	vpRoutes, vpRootR, vpUsed, vpTrace, vpListened, vpGW = nil, nil, 0, nil, 0, nil
	vpServedPlain, vpServedTLS, vpAcmeHosts = 0, 0, nil
	names := []string{"openid", "local", "basic", "ntlm"}
	on := map[string]bool{}
	var authn []string
	for i, n := range names {
		if vpBool("auth-" + vpItoa(i)) {
			on[n] = true
			authn = append(authn, n)
		}
	}
	tlsDisabled := vpBool("tls-disabled-in-the-configuration")
	vpAssume(!(tlsDisabled && (on["local"] || on["basic"]))) // refused by config.Load
	vpConf = config.Configuration{}
	vpConf.Server.Authentication = authn
	if tlsDisabled {
		vpConf.Server.Tls = "disable"
	} else {
		vpConf.Server.Tls = []string{"", "auto"}[vpIntRange("tls-setting", 0, 1)]
	}
	if vpBool("certificate-configured") {
		vpConf.Server.CertFile, vpConf.Server.KeyFile = "/etc/rdpgw/cert.pem", "/etc/rdpgw/key.pem"
	}
	if vpBool("gateway-address-configured") {
		vpConf.Server.GatewayAddress = "//gw.example"
	}
	vpConf.Server.Hosts = []string{"h1:3389"}
	vpConf.Server.HostSelection = "roundrobin"
	vpConf.Caps.TokenAuth = on["openid"]
	fatal := vpCatchFatal(main)
	vpAssert(fatal, "main-ends-at-the-stubbed-listener-or-refuses-to-start")
	vpObserve("plain", uint64(vpServedPlain))
	vpObserve("tls", uint64(vpServedTLS))
	if vpServedPlain > 0 {
		vpReach("plain")
		vpAssert(tlsDisabled, "the-gateway-endpoint-is-served-without-tls-only-when-tls-was-disabled-in-the-configuration")
		vpAssert(!on["local"] && !on["basic"], "local-authentication-is-never-served-without-tls")
	}
	if vpServedTLS > 0 {
		vpReach("tls")
	}
}
