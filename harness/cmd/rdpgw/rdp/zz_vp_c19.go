package rdp

// C19 — builder level: the file the builder writes, read back with the gateway's own RDP line
// reader, yields the settings the builder held (settings at their default are omitted and read back
// as the default).

import (
	"strconv"

	rdpparser "github.com/bolkedebruin/rdpgw/cmd/rdpgw/rdp/koanf/parsers/rdp"
)

func vpItoa(i int) string { return strconv.Itoa(i) }

func vpClean(s string) bool {
	ok := true
	for i := 0; i < len(s); i++ {
		ok = vpAnd(ok, vpAnd(s[i] > 0x20, s[i] < 0x7f))
	}
	return ok
}

// vpCountLines: number of lines of text that start with key + ":".
func vpCountLines(text, key string) int {
	n := 0
	start := 0
	for i := 0; i+1 < len(text); i++ {
		if text[i] == '\r' && text[i+1] == '\n' {
			line := text[start:i]
			if len(line) > len(key) && line[:len(key)] == key && line[len(key)] == ':' {
				n++
			}
			start = i + 2
		}
	}
	return n
}

//vp:property C19
//vp:set s 2 3
//vp:set budget 400 1200
//vp:bounds a builder with built-in defaults in which eight settings are set arbitrarily: two booleans with default true/false (compression, allow font smoothing), three integers (authentication level: default 3 and gateway usage method: default 0, each from {0,1,3}; gateway credentials source from {0,5}), user name of 0..s printable ASCII bytes without blanks, full address and access token empty or a fixed value containing ':'
//vp:assume a setting that is absent from a file is read back as its built-in default (that is how NewBuilderFromFile starts: defaults first, then the file); fatih/structs is modelled from the static types (tags, kinds, values); mapstructure metadata is empty
//vp:reach built
func VP_C19_builder() {
	n := vpParam("s")
	b := NewBuilder()
	ints := []int{0, 1, 3}
	b.Settings.Compression = vpBool("compression")
	b.Settings.AllowFontSmoothing = vpBool("fontsmoothing")
	b.Settings.AuthenticationLevel = ints[vpIntRange("authlevel", 0, 2)]
	b.Settings.GatewayUsageMethod = ints[vpIntRange("usage", 0, 2)]
	b.Settings.GatewayCredentialsSource = []int{0, 5}[vpIntRange("credsource", 0, 1)]
	b.Settings.Username = vpString("username", n)
	b.Settings.FullAddress = []string{"", "host:3389"}[vpIntRange("fulladdress", 0, 1)]
	b.Settings.GatewayAccessToken = []string{"", "tok:en"}[vpIntRange("token", 0, 1)]
	vpAssume(vpClean(b.Settings.Username))

	text := b.String()
	vpObserveStr("text", text)
	vpReach("built")
	// well-formed: CRLF-terminated, at most one line per setting
	if len(text) > 0 {
		vpAssert(len(text) >= 2 && text[len(text)-2] == '\r' && text[len(text)-1] == '\n', "file-ends-with-crlf")
	}
	for _, k := range []string{"compression", "allow font smoothing", "authentication level", "gatewayusagemethod", "gatewaycredentialssource", "username", "full address", "gatewayaccesstoken"} {
		vpAssert(vpCountLines(text, k) <= 1, "at-most-one-line-per-setting")
	}
	m, err := rdpparser.Parser().Unmarshal([]byte(text))
	vpAssert(err == nil, "own-output-is-accepted-by-the-reader")
	if err != nil {
		return
	}
	rdBool := func(key string, def bool) bool {
		v, ok := m[key]
		if !ok {
			return def
		}
		i, isInt := v.(int)
		return isInt && i == 1
	}
	rdInt := func(key string, def int) int {
		v, ok := m[key]
		if !ok {
			return def
		}
		i, _ := v.(int)
		return i
	}
	rdStr := func(key string) string {
		v, ok := m[key]
		if !ok {
			return ""
		}
		s, _ := v.(string)
		return s
	}
	vpAssert(rdBool("compression", true) == b.Settings.Compression, "boolean-with-default-true-read-back")
	vpAssert(rdBool("allow font smoothing", false) == b.Settings.AllowFontSmoothing, "boolean-with-default-false-read-back")
	vpAssert(rdInt("authentication level", 3) == b.Settings.AuthenticationLevel, "integer-with-nonzero-default-read-back")
	vpAssert(rdInt("gatewayusagemethod", 0) == b.Settings.GatewayUsageMethod, "integer-with-zero-default-read-back")
	vpAssert(rdInt("gatewaycredentialssource", 0) == b.Settings.GatewayCredentialsSource, "credential-source-read-back")
	vpAssert(rdStr("username") == b.Settings.Username, "user-name-read-back")
	vpAssert(rdStr("full address") == b.Settings.FullAddress, "target-address-read-back")
	vpAssert(rdStr("gatewayaccesstoken") == b.Settings.GatewayAccessToken, "access-token-read-back")
}
