package rdp

// C19 — generated connection files are well-formed and round-trip through the parser
// (settings-map level: Marshal / Unmarshal).

import "strconv"

func vpItoa(i int) string { return strconv.Itoa(i) }

func vpIsBlank(c byte) bool {
	return c == ' ' || c == '\t' || c == '\n' || c == '\v' || c == '\f' || c == '\r'
}

// vpCleanASCII: ASCII, no CR/LF, no leading or trailing blank (the property's value domain).
func vpCleanASCII(s string) bool {
	ok := true
	for i := 0; i < len(s); i++ {
		ok = vpAnd(ok, vpAnd(s[i] < 0x80, vpAnd(s[i] != '\r', s[i] != '\n')))
	}
	if len(s) > 0 {
		ok = vpAnd(ok, vpAnd(!vpIsBlankT(s[0]), !vpIsBlankT(s[len(s)-1])))
	}
	return ok
}

func vpIsBlankT(c byte) bool {
	return vpOr(vpOr(c == ' ', c == '\t'), vpOr(vpOr(c == '\n', c == '\v'), vpOr(c == '\f', c == '\r')))
}

func vpNoColon(s string) bool {
	ok := true
	for i := 0; i < len(s); i++ {
		ok = vpAnd(ok, s[i] != ':')
	}
	return ok
}

//vp:property C19
//vp:set entries 2 2
//vp:set klen 2 3
//vp:set vlen 2 3
//vp:set budget 300 1200
//vp:bounds settings maps of 0..entries entries; keys: 1..klen ASCII bytes without ':' CR LF, not starting with '#', no leading/trailing blank, pairwise distinct; values: an int from {0,±1,7,±10,99,100,±9999,2^31-1,-2^31} or an ASCII string of 0..vlen bytes (':' allowed) without CR/LF and without leading/trailing blank
//vp:assume bytes are ASCII (the scanner/TrimSpace Unicode paths are outside the bound)
//vp:reach roundtrip
func VP_C19_roundtrip() {
	n := vpIntRange("n", 0, vpParam("entries"))
	m := map[string]interface{}{}
	var keys []string
	for i := 0; i < n; i++ {
		is := vpItoa(i)
		k := vpString("k"+is, vpParam("klen"))
		vpAssume(len(k) >= 1)
		vpAssume(vpAnd(vpCleanASCII(k), vpAnd(vpNoColon(k), k[0] != '#')))
		for _, o := range keys {
			vpAssume(o != k)
		}
		keys = append(keys, k)
		if vpBool("isint" + is) {
			// integer formatting/parsing is strconv's; the values are boundary representatives
			// (a symbolic 64-bit Itoa/Atoi round trip is out of reach of bit-blasting)
			v := []int{0, 1, -1, 7, 10, -10, 99, 100, 9999, -9999, 2147483647, -2147483648}[vpIntRange("iv"+is, 0, 11)]
			m[k] = v
		} else {
			v := vpString("sv"+is, vpParam("vlen"))
			vpAssume(vpCleanASCII(v))
			m[k] = v
		}
	}
	p := Parser()
	text, err := p.Marshal(m)
	vpAssert(err == nil, "marshal-succeeds")
	vpObserveBytes("text", text)
	// well-formedness: CRLF-terminated lines, one per setting
	lines := 0
	for i := 0; i+1 < len(text); i++ {
		if text[i] == '\r' && text[i+1] == '\n' {
			lines++
		}
	}
	vpAssert(lines == n, "one-crlf-terminated-line-per-setting")
	if len(text) >= 2 {
		vpAssert(text[len(text)-2] == '\r' && text[len(text)-1] == '\n', "file-ends-with-crlf")
	}
	back, err := p.Unmarshal(text)
	vpAssert(err == nil, "own-output-is-accepted-by-the-reader")
	if err != nil {
		return
	}
	vpReach("roundtrip")
	vpAssert(len(back) == n, "same-number-of-settings")
	for _, k := range keys {
		switch want := m[k].(type) {
		case int:
			got, ok := back[k].(int)
			vpAssert(ok && got == want, "integer-setting-restored")
		case string:
			got, ok := back[k].(string)
			vpAssert(ok && got == want, "string-setting-restored")
		}
	}
}

//vp:property C19
//vp:set klen 3 6
//vp:set vlen 3 6
//vp:bounds "for EVERY settings map of integers and strings": a map with one entry whose key (1..klen bytes) and string value (0..vlen bytes) are ARBITRARY ASCII — colons, '#', blanks, CR and LF included — beside one ordinary entry ("zz" -> 7)
//vp:assume bytes are ASCII. A map the line format cannot carry (key empty / with ':' / starting with '#'; key or value with CR or LF or a leading or trailing blank) may be refused by Marshal with an error; what Marshal does accept must read back as the same map
//vp:reach roundtrip refused
func VP_C19_roundtrip_any_strings() {
	k := vpString("k", vpParam("klen"))
	v := vpString("v", vpParam("vlen"))
	vpAssume(len(k) >= 1)
	for i := 0; i < len(k); i++ {
		vpAssume(k[i] < 0x80)
	}
	for i := 0; i < len(v); i++ {
		vpAssume(v[i] < 0x80)
	}
	vpAssume(k != "zz")
	m := map[string]interface{}{k: v, "zz": 7}
	p := Parser()
	text, err := p.Marshal(m)
	vpObserveBool("marshalled", err == nil)
	representable := vpAnd(vpAnd(vpCleanASCII(k), vpAnd(vpNoColon(k), k[0] != '#')), vpCleanASCII(v))
	if err != nil {
		vpReach("refused")
		vpAssert(!representable, "marshal-refuses-only-maps-the-format-cannot-carry")
		return
	}
	back, err := p.Unmarshal(text)
	vpAssert(err == nil, "own-output-is-accepted-by-the-reader")
	if err != nil {
		return
	}
	vpReach("roundtrip")
	vpAssert(len(back) == 2, "same-number-of-settings")
	got, ok := back[k].(string)
	vpAssert(ok && got == v, "string-setting-restored")
	z, ok := back["zz"].(int)
	vpAssert(ok && z == 7, "integer-setting-restored")
}

//vp:property C19
//vp:bounds "non-ASCII text": a map with ONE string setting whose name and value are an ASCII letter with one of these in front and/or behind: nothing, "é", a byte order mark (U+FEFF), a no-break space (U+00A0), an em space (U+2003); the name therefore comes first in the file
//vp:assume a map the line format cannot carry may be refused by Marshal with an error; what Marshal does accept must read back as the same map
//vp:reach roundtrip refused
func VP_C19_roundtrip_non_ascii() {
	affix := []string{"", "\xc3\xa9", "\xef\xbb\xbf", "\xc2\xa0", "\xe2\x80\x83"}
	k := affix[vpIntRange("name-prefix", 0, 4)] + "k" + affix[vpIntRange("name-suffix", 0, 4)]
	v := affix[vpIntRange("value-prefix", 0, 4)] + "v" + affix[vpIntRange("value-suffix", 0, 4)]
	m := map[string]interface{}{k: v}
	p := Parser()
	text, err := p.Marshal(m)
	vpObserveBool("marshalled", err == nil)
	if err != nil {
		vpReach("refused")
		return
	}
	back, err := p.Unmarshal(text)
	vpAssert(err == nil, "own-output-is-accepted-by-the-reader")
	if err != nil {
		return
	}
	vpReach("roundtrip")
	got, ok := back[k].(string)
	vpAssert(len(back) == 1 && ok && got == v, "what-marshal-accepts-reads-back-as-the-same-map")
}

//vp:property C19
//vp:set n 5 7
//vp:set budget 120 900
//vp:bounds one arbitrary ASCII line of 0..n bytes without CR/LF offered to the reader
//vp:reach accepted rejected
func VP_C19_lines() {
	line := vpString("line", vpParam("n"))
	for i := 0; i < len(line); i++ {
		vpAssume(vpAnd(line[i] < 0x80, vpAnd(line[i] != '\r', line[i] != '\n')))
	}
	mp, err := Parser().Unmarshal([]byte(line))
	vpObserveBool("ok", err == nil)

	// independent classifier
	s := line
	for len(s) > 0 && vpIsBlankT(s[0]) {
		s = s[1:]
	}
	for len(s) > 0 && vpIsBlankT(s[len(s)-1]) {
		s = s[:len(s)-1]
	}
	c1, c2 := -1, -1
	for i := 0; i < len(s); i++ {
		if s[i] == ':' {
			if c1 < 0 {
				c1 = i
			} else if c2 < 0 {
				c2 = i
			}
		}
	}
	skip := s == "" || s[0] == '#'
	wellFormed := false
	if !skip && c2 >= 0 {
		t := s[c1+1 : c2]
		for len(t) > 0 && vpIsBlankT(t[0]) {
			t = t[1:]
		}
		for len(t) > 0 && vpIsBlankT(t[len(t)-1]) {
			t = t[:len(t)-1]
		}
		v := s[c2+1:]
		for len(v) > 0 && vpIsBlankT(v[0]) {
			v = v[1:]
		}
		switch t {
		case "s", "b":
			wellFormed = true
		case "i":
			_, e := strconv.Atoi(v)
			wellFormed = e == nil
		}
	}
	if err == nil {
		vpReach("accepted")
		vpAssert(skip || wellFormed, "malformed-lines-are-rejected-not-skipped")
		vpAssert(skip == (len(mp) == 0), "blank-and-comment-lines-yield-no-setting")
	} else {
		vpReach("rejected")
		vpAssert(!skip && !wellFormed, "well-formed-lines-are-accepted")
	}
}

//vp:property C19
//vp:set loopmax 200000 200000
//vp:set maxsteps 6000000 12000000
//vp:bounds connection files larger than the line scanner's 4096-byte buffer: three settings, the first with a filler value of 4070..4100 'x' bytes (so that each of the following lines in turn straddles offset 4096), the others with one symbolic clean-ASCII byte each; Marshal then Unmarshal
//vp:reach roundtrip
func VP_C19_roundtrip_large() {
	fill := vpIntRange("filler", 4070, 4100)
	b := make([]byte, fill)
	for i := range b {
		b[i] = 'x'
	}
	v1, v2 := vpStringN("v1", 1), vpStringN("v2", 1)
	vpAssume(vpAnd(vpCleanASCII(v1), vpCleanASCII(v2)))
	m := map[string]interface{}{"a": string(b), "bbbbbbbbbb": v1, "cccccccccc": v2}
	p := Parser()
	text, err := p.Marshal(m)
	vpAssert(err == nil && len(text) > 4096, "marshal-succeeds")
	back, err := p.Unmarshal(text)
	vpReach("roundtrip")
	vpAssert(err == nil, "a-generated-file-larger-than-the-scan-buffer-is-accepted")
	if err != nil {
		return
	}
	vpAssert(len(back) == 3, "every-setting-restored-once")
	s0, ok0 := back["a"].(string)
	s1, ok1 := back["bbbbbbbbbb"].(string)
	s2, ok2 := back["cccccccccc"].(string)
	vpAssert(ok0 && len(s0) == fill, "long-setting-restored")
	vpAssert(ok1 && s1 == v1 && ok2 && s2 == v2, "settings-after-the-buffer-boundary-restored")
}


//vp:property C19
//vp:set maxalloc 140000 140000
//vp:set loopmax 400000 400000
//vp:bounds a template of three lines: a well-formed one, a line whose string value has 65500 / 65536 / 70000 bytes (around the line scanner's 64 KiB token limit), and a third line that is well-formed or malformed (no type field); CRLF line ends
//vp:reach read refused
func VP_C19_lines_overlong() {
	n := []int{65500, 65536, 70000}[vpIntRange("long-value-bytes", 0, 2)]
	filler := make([]byte, n)
	for i := range filler {
		filler[i] = 'x'
	}
	third := []string{"use multimon:i:1", "this is not a valid line"}[vpIntRange("third-line", 0, 1)]
	text := "smart sizing:i:1\r\nfoo:s:" + string(filler) + "\r\n" + third + "\r\n"
	m, err := Parser().Unmarshal([]byte(text))
	if err != nil {
		vpReach("refused")
		vpAssert(m == nil, "no-settings-with-an-error")
		return
	}
	vpReach("read")
	// accepted: then nothing was skipped — all three lines are settings, none was malformed
	vpAssert(third == "use multimon:i:1", "malformed-lines-are-rejected-not-skipped")
	_, has1 := m["smart sizing"]
	foo, has2 := m["foo"].(string)
	_, has3 := m["use multimon"]
	vpAssert(has1 && has2 && len(foo) == n && has3, "no-line-of-an-accepted-template-is-silently-dropped")
}
