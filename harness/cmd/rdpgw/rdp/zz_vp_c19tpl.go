package rdp

// C19 — the administrator's template: NewBuilderFromFile is executed for real; the libraries below
// it are modelled at their API boundary (shared harness part "koanf").

//vp:use koanf

import (
	rdpparser "github.com/bolkedebruin/rdpgw/cmd/rdpgw/rdp/koanf/parsers/rdp"
)

type vpTplLine struct {
	key  string
	vals []string // candidate "type:value" texts; index 0 = absent from the template
}

func vpReadBack(m map[string]interface{}) (func(string, bool) bool, func(string, int) int, func(string, string) string) {
	rdBool := func(key string, def bool) bool {
		v, ok := m[key]
		if !ok {
			return def
		}
		i, isInt := v.(int)
		return isInt && i == 1
	}
	rdInt := func(key string, def int) int {
		v, ok := m[key]
		if !ok {
			return def
		}
		i, _ := v.(int)
		return i
	}
	rdStr := func(key string, def string) string {
		v, ok := m[key]
		if !ok {
			return def
		}
		s, _ := v.(string)
		return s
	}
	return rdBool, rdInt, rdStr
}

//vp:property C19
//vp:set s 2 3
//vp:set budget 200 1200
//vp:bounds a template file of up to nine lines in a fixed order: compression (i:0 | i:1), allow font smoothing (i:0 | i:1), authentication level (i:0 | i:2 | i:3), desktopwidth (i:0 | i:1920), audiomode written with the string type (s:2), alternate shell (s: + 0..s symbolic printable bytes without blanks or colons), drivestoredirect (s:* | s:false | s: empty), an unknown setting, a comment line and a blank line; LF or CRLF line ends; with or without a UTF-8 byte order mark in front; setting names in lower case or with a capital first letter. Per path ONE of the seven settings runs through all its variants (absent included) while the other six are jointly absent or jointly present with fixed non-default values
//vp:assume koanf, its file provider and mapstructure are modelled at their API (see the head of this file) and compared with the real libraries on every explored path; a setting absent from a generated file is read back as its built-in default
//vp:reach built kept
func VP_C19_template() {
	n := vpParam("s")
	eol := []string{"\n", "\r\n"}[vpIntRange("eol", 0, 1)]
	focus := vpIntRange("focus-setting", 0, 6)
	others := vpIntRange("other-settings-present", 0, 1)
	shell := "sh"
	if focus == 5 {
		shell = vpString("shell", n)
		for i := 0; i < len(shell); i++ {
			vpAssume(vpAnd(vpAnd(shell[i] > 0x20, shell[i] < 0x7f), shell[i] != ':'))
		}
	}
	k := -1
	// pick: all variants for the focus setting (0 = absent), otherwise absent or the fixed variant
	pick := func(name string, fixed int, opts ...string) (string, int) {
		k++
		i := 0
		if k == focus {
			i = vpIntRange(name, 0, len(opts))
		} else if others == 1 {
			i = fixed
		}
		if i == 0 {
			return "", 0
		}
		return opts[i-1], i
	}
	var text string
	// setting names are matched without regard to case (the repository's own sample template writes
	// "Domain", "DesktopWidth"): written as the struct tags have them, or with a capital first letter
	capital := vpBool("names-capitalised")
	spell := func(key string) string {
		if capital {
			return string([]byte{key[0] - 'a' + 'A'}) + key[1:]
		}
		return key
	}
	add := func(key, tv string) {
		if tv != "" {
			text += spell(key) + ":" + tv + eol
		}
	}
	if vpBool("byte-order-mark") {
		// Windows editors (and mstsc itself, when it saves UTF-8) put a byte order mark in front of the text
		text = "\xef\xbb\xbf"
	}
	if vpBool("comment-line") {
		text += "# administrator's defaults" + eol + eol
	}
	comp, compI := pick("compression", 1, "i:0", "i:1")
	add("compression", comp)
	font, fontI := pick("fontsmoothing", 2, "i:0", "i:1")
	add("allow font smoothing", font)
	auth, authI := pick("authlevel", 2, "i:0", "i:2", "i:3")
	add("authentication level", auth)
	width, widthI := pick("desktopwidth", 2, "i:0", "i:1920")
	add("desktopwidth", width)
	audio, audioI := pick("audiomode-as-string", 1, "s:2")
	add("audiomode", audio)
	_, shellI := pick("alternate-shell", 1, "s:")
	if shellI == 1 {
		text += spell("alternate shell") + ":s:" + shell + eol
	}
	drive, driveI := pick("drivestoredirect", 1, "s:*", "s:false", "s:")
	add("drivestoredirect", drive)
	if vpBool("unknown-setting") {
		add("vendor extension", "s:x")
	}
	fn := vpTemplateFile(text)
	b, err := NewBuilderFromFile(fn)
	vpRemoveTemplate(fn)
	vpAssert(err == nil, "a-well-formed-template-is-accepted")
	if err != nil {
		return
	}
	vpReach("built")
	// what the template says, else the built-in default
	wantComp := []bool{true, false, true}[compI]
	wantFont := []bool{false, false, true}[fontI]
	wantAuth := []int{3, 0, 2, 3}[authI]
	wantWidth := []int{0, 0, 1920}[widthI]
	wantAudio := []int{0, 2}[audioI]
	wantShell := ""
	if shellI == 1 {
		wantShell = shell
	}
	wantDrive := []string{"false", "*", "false", ""}[driveI]
	s := &b.Settings
	vpAssert(s.Compression == wantComp && s.AllowFontSmoothing == wantFont, "template-booleans-held-by-the-builder")
	vpAssert(s.AuthenticationLevel == wantAuth && s.DesktopWidth == wantWidth && s.AudioMode == wantAudio, "template-integers-held-by-the-builder")
	vpAssert(s.AlternateShell == wantShell && s.DriveStoreRedirect == wantDrive, "template-strings-held-by-the-builder")
	// settings the template does not mention stay at their defaults
	vpAssert(s.ConnectionType == 2 && s.KeyboardHook == 2 && s.BitmapCacheSize == 1500 && s.PromptCredentialsOnce && s.Username == "" && s.FullAddress == "", "unmentioned-settings-keep-their-defaults")

	out := b.String()
	vpObserveStr("text", out)
	if len(out) > 0 {
		vpAssert(len(out) >= 2 && out[len(out)-2] == '\r' && out[len(out)-1] == '\n', "file-ends-with-crlf")
	}
	for _, k := range []string{"compression", "allow font smoothing", "authentication level", "desktopwidth", "audiomode", "alternate shell", "drivestoredirect"} {
		vpAssert(vpCountLines(out, k) <= 1, "at-most-one-line-per-setting")
	}
	m, perr := rdpparser.Parser().Unmarshal([]byte(out))
	vpAssert(perr == nil, "own-output-is-accepted-by-the-reader")
	if perr != nil {
		return
	}
	vpReach("kept")
	rdBool, rdInt, rdStr := vpReadBack(m)
	vpAssert(rdBool("compression", true) == wantComp && rdBool("allow font smoothing", false) == wantFont, "template-booleans-kept-in-the-generated-file")
	vpAssert(rdInt("authentication level", 3) == wantAuth && rdInt("desktopwidth", 0) == wantWidth && rdInt("audiomode", 0) == wantAudio, "template-integers-kept-in-the-generated-file")
	vpAssert(rdStr("alternate shell", "") == wantShell && rdStr("drivestoredirect", "false") == wantDrive, "template-strings-kept-in-the-generated-file")
	vpAssert(rdInt("connection type", 2) == 2 && rdInt("keyboardhook", 2) == 2 && rdBool("promptcredentialonce", true), "unmentioned-settings-read-back-as-defaults")
}

//vp:property C19
//vp:bounds a template whose second line is malformed in one of four ways (no type field, unknown type letter, integer type with a non-numeric value, integer beyond the int range) between two well-formed lines
//vp:reach refused
func VP_C19_template_malformed() {
	bad := []string{"compression", "compression:x:1", "desktopwidth:i:wide", "desktopwidth:i:99999999999999999999"}[vpIntRange("bad", 0, 3)]
	fn := vpTemplateFile("audiomode:i:1\r\n" + bad + "\r\nkeyboardhook:i:1\r\n")
	b, err := NewBuilderFromFile(fn)
	vpRemoveTemplate(fn)
	vpReach("refused")
	vpAssert(err != nil && b == nil, "malformed-template-lines-are-rejected-not-skipped")
}
