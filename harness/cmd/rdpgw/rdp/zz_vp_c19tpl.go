package rdp

// C19 — the administrator's template: NewBuilderFromFile is executed for real; the libraries below
// it are modelled at their API boundary (symbolic side only — natively the real koanf, file provider
// and mapstructure run on a real temporary file, and translator validation compares every path):
//   file.Provider(path)            the file's bytes
//   koanf.New / (*Koanf).Load      bytes → Parser.Unmarshal (the repository's own RDP line reader,
//                                  interpreted) → merged into the instance's map
//   (*Koanf).UnmarshalWithConf     mapstructure's map → struct decoding as read from its source
//                                  (v2.0.0-alpha.1 decodeStructFromMap / decodeBool / decodeInt /
//                                  decodeString): exact key then strings.EqualFold, weak conversions
//                                  only when WeaklyTypedInput, Metadata.Keys/Unused/Unset (Unset holds
//                                  the TAG names of fields without a key; nothing is recorded when a
//                                  member fails to convert).

import (
	"errors"
	"os"
	"strconv"
	"strings"

	rdpparser "github.com/bolkedebruin/rdpgw/cmd/rdpgw/rdp/koanf/parsers/rdp"
	"github.com/go-viper/mapstructure/v2"
	"github.com/knadh/koanf/providers/file"
	"github.com/knadh/koanf/v2"
)

//vp:all model github.com/knadh/koanf/providers/file.Provider = vpmFileProvider
//vp:all model github.com/knadh/koanf/v2.New = vpmKoanfNew
//vp:all model (*github.com/knadh/koanf/v2.Koanf).Load = vpmKoanfLoad
//vp:all model (*github.com/knadh/koanf/v2.Koanf).UnmarshalWithConf = vpmKoanfUnmarshalWithConf

var vpFiles map[string][]byte
var vpLastProviderPath string
var vpKoanfMaps map[*koanf.Koanf]map[string]interface{}

// vpTemplateFile makes content available under a file name (natively a real temporary file).
func vpTemplateFile(content string) string {
	if vpSymbolic() {
		if vpFiles == nil {
			vpFiles = map[string][]byte{}
		}
		vpFiles["/vp/template.rdp"] = []byte(content)
		return "/vp/template.rdp"
	}
	f, err := os.CreateTemp("", "vp-template-*.rdp")
	if err != nil {
		panic(vpAssumeFalse{})
	}
	f.WriteString(content)
	f.Close()
	return f.Name()
}

func vpRemoveTemplate(name string) {
	if !vpSymbolic() {
		os.Remove(name)
	}
}

func vpmFileProvider(path string) *file.File {
	vpLastProviderPath = path
	return &file.File{}
}

func vpmKoanfNew(delim string) *koanf.Koanf { return &koanf.Koanf{} }

func vpmKoanfLoad(ko *koanf.Koanf, p koanf.Provider, pa koanf.Parser, opts ...koanf.Option) error {
	if p == nil {
		return errors.New("load received a nil provider")
	}
	if pa == nil {
		vpUnsupported("koanf.Load without a parser")
	}
	b, ok := vpFiles[vpLastProviderPath]
	if !ok {
		return errors.New("open " + vpLastProviderPath + ": no such file or directory")
	}
	mp, err := pa.Unmarshal(b)
	if err != nil {
		return err
	}
	if vpKoanfMaps == nil {
		vpKoanfMaps = map[*koanf.Koanf]map[string]interface{}{}
	}
	cur := vpKoanfMaps[ko]
	if cur == nil {
		cur = map[string]interface{}{}
	}
	for k, v := range mp {
		cur[k] = v
	}
	vpKoanfMaps[ko] = cur
	return nil
}

func vpmKoanfUnmarshalWithConf(ko *koanf.Koanf, path string, o interface{}, c koanf.UnmarshalConf) error {
	if path != "" || c.FlatPaths {
		vpUnsupported("koanf.UnmarshalWithConf with a path or flat paths")
	}
	cfg := c.DecoderConfig
	if cfg == nil {
		cfg = &mapstructure.DecoderConfig{Result: o, WeaklyTypedInput: true}
	}
	if cfg.DecodeHook != nil || cfg.ErrorUnused || cfg.ErrorUnset || cfg.ZeroFields || cfg.Squash || cfg.IgnoreUntaggedFields || cfg.MatchName != nil {
		vpUnsupported("mapstructure decoder option outside the model")
	}
	tag := c.Tag
	if tag == "" {
		tag = "koanf"
	}
	return vpMapDecode(vpKoanfMaps[ko], cfg.Result, tag, cfg.WeaklyTypedInput, cfg.Metadata)
}

// vpMapDecode: mapstructure's decoding of a map with string keys into a struct of string, int and
// bool fields.
func vpMapDecode(m map[string]interface{}, dst interface{}, tag string, weak bool, md *mapstructure.Metadata) error {
	if md != nil {
		md.Keys, md.Unused, md.Unset = []string{}, []string{}, []string{}
	}
	used := map[string]bool{}
	var unset []string
	failed := false
	for _, f := range vpStructFields(dst, tag) {
		key := f.Key
		v, ok := m[key]
		if !ok {
			for k, vv := range m {
				if strings.EqualFold(k, f.Key) {
					v, ok, key = vv, true, k
					break
				}
			}
		}
		if !ok {
			unset = append(unset, f.Key)
			continue
		}
		used[key] = true
		if v == nil {
			continue
		}
		conv := true
		switch f.Kind {
		case 0: // string
			switch x := v.(type) {
			case string:
				*f.S = x
			case int:
				if weak {
					*f.S = strconv.FormatInt(int64(x), 10)
				} else {
					conv = false
				}
			case bool:
				if !weak {
					conv = false
				} else if x {
					*f.S = "1"
				} else {
					*f.S = "0"
				}
			default:
				vpUnsupported("mapstructure: input kind outside the model")
			}
		case 1: // int
			switch x := v.(type) {
			case int:
				*f.I = x
			case bool:
				if !weak {
					conv = false
				} else if x {
					*f.I = 1
				} else {
					*f.I = 0
				}
			case string:
				if !weak {
					conv = false
				} else {
					if x == "" {
						x = "0"
					}
					i, err := strconv.ParseInt(x, 0, 64)
					if err != nil {
						conv = false
					} else {
						*f.I = int(i)
					}
				}
			default:
				vpUnsupported("mapstructure: input kind outside the model")
			}
		case 2: // bool
			switch x := v.(type) {
			case bool:
				*f.B = x
			case int:
				if weak {
					*f.B = x != 0
				} else {
					conv = false
				}
			case string:
				if !weak {
					conv = false
				} else if b, err := strconv.ParseBool(x); err == nil {
					*f.B = b
				} else if x == "" {
					*f.B = false
				} else {
					conv = false
				}
			default:
				vpUnsupported("mapstructure: input kind outside the model")
			}
		default:
			vpUnsupported("mapstructure: field kind outside the model")
		}
		if md != nil {
			md.Keys = append(md.Keys, f.Key)
		}
		if !conv {
			failed = true
		}
	}
	if failed {
		return errors.New("vp: mapstructure: 1 error(s) decoding")
	}
	if md != nil {
		for k := range m {
			if !used[k] {
				md.Unused = append(md.Unused, k)
			}
		}
		md.Unset = append(md.Unset, unset...)
	}
	return nil
}

type vpTplLine struct {
	key  string
	vals []string // candidate "type:value" texts; index 0 = absent from the template
}

func vpReadBack(m map[string]interface{}) (func(string, bool) bool, func(string, int) int, func(string, string) string) {
	rdBool := func(key string, def bool) bool {
		v, ok := m[key]
		if !ok {
			return def
		}
		i, isInt := v.(int)
		return isInt && i == 1
	}
	rdInt := func(key string, def int) int {
		v, ok := m[key]
		if !ok {
			return def
		}
		i, _ := v.(int)
		return i
	}
	rdStr := func(key string, def string) string {
		v, ok := m[key]
		if !ok {
			return def
		}
		s, _ := v.(string)
		return s
	}
	return rdBool, rdInt, rdStr
}

//vp:property C19
//vp:set s 2 3
//vp:set budget 200 1200
//vp:bounds a template file of up to nine lines in a fixed order: compression (i:0 | i:1), allow font smoothing (i:0 | i:1), authentication level (i:0 | i:2 | i:3), desktopwidth (i:0 | i:1920), audiomode written with the string type (s:2), alternate shell (s: + 0..s symbolic printable bytes without blanks or colons), drivestoredirect (s:* | s:false | s: empty), an unknown setting, a comment line and a blank line; LF or CRLF line ends. Per path ONE of the seven settings runs through all its variants (absent included) while the other six are jointly absent or jointly present with fixed non-default values
//vp:assume koanf, its file provider and mapstructure are modelled at their API (see the head of this file) and compared with the real libraries on every explored path; a setting absent from a generated file is read back as its built-in default
//vp:reach built kept
func VP_C19_template() {
	n := vpParam("s")
	eol := []string{"\n", "\r\n"}[vpIntRange("eol", 0, 1)]
	focus := vpIntRange("focus-setting", 0, 6)
	others := vpIntRange("other-settings-present", 0, 1)
	shell := "sh"
	if focus == 5 {
		shell = vpString("shell", n)
		for i := 0; i < len(shell); i++ {
			vpAssume(vpAnd(vpAnd(shell[i] > 0x20, shell[i] < 0x7f), shell[i] != ':'))
		}
	}
	k := -1
	// pick: all variants for the focus setting (0 = absent), otherwise absent or the fixed variant
	pick := func(name string, fixed int, opts ...string) (string, int) {
		k++
		i := 0
		if k == focus {
			i = vpIntRange(name, 0, len(opts))
		} else if others == 1 {
			i = fixed
		}
		if i == 0 {
			return "", 0
		}
		return opts[i-1], i
	}
	var text string
	add := func(key, tv string) {
		if tv != "" {
			text += key + ":" + tv + eol
		}
	}
	if vpBool("comment-line") {
		text += "# administrator's defaults" + eol + eol
	}
	comp, compI := pick("compression", 1, "i:0", "i:1")
	add("compression", comp)
	font, fontI := pick("fontsmoothing", 2, "i:0", "i:1")
	add("allow font smoothing", font)
	auth, authI := pick("authlevel", 2, "i:0", "i:2", "i:3")
	add("authentication level", auth)
	width, widthI := pick("desktopwidth", 2, "i:0", "i:1920")
	add("desktopwidth", width)
	audio, audioI := pick("audiomode-as-string", 1, "s:2")
	add("audiomode", audio)
	_, shellI := pick("alternate-shell", 1, "s:")
	if shellI == 1 {
		text += "alternate shell:s:" + shell + eol
	}
	drive, driveI := pick("drivestoredirect", 1, "s:*", "s:false", "s:")
	add("drivestoredirect", drive)
	if vpBool("unknown-setting") {
		add("vendor extension", "s:x")
	}
	fn := vpTemplateFile(text)
	b, err := NewBuilderFromFile(fn)
	vpRemoveTemplate(fn)
	vpAssert(err == nil, "a-well-formed-template-is-accepted")
	if err != nil {
		return
	}
	vpReach("built")
	// what the template says, else the built-in default
	wantComp := []bool{true, false, true}[compI]
	wantFont := []bool{false, false, true}[fontI]
	wantAuth := []int{3, 0, 2, 3}[authI]
	wantWidth := []int{0, 0, 1920}[widthI]
	wantAudio := []int{0, 2}[audioI]
	wantShell := ""
	if shellI == 1 {
		wantShell = shell
	}
	wantDrive := []string{"false", "*", "false", ""}[driveI]
	s := &b.Settings
	vpAssert(s.Compression == wantComp && s.AllowFontSmoothing == wantFont, "template-booleans-held-by-the-builder")
	vpAssert(s.AuthenticationLevel == wantAuth && s.DesktopWidth == wantWidth && s.AudioMode == wantAudio, "template-integers-held-by-the-builder")
	vpAssert(s.AlternateShell == wantShell && s.DriveStoreRedirect == wantDrive, "template-strings-held-by-the-builder")
	// settings the template does not mention stay at their defaults
	vpAssert(s.ConnectionType == 2 && s.KeyboardHook == 2 && s.BitmapCacheSize == 1500 && s.PromptCredentialsOnce && s.Username == "" && s.FullAddress == "", "unmentioned-settings-keep-their-defaults")

	out := b.String()
	vpObserveStr("text", out)
	if len(out) > 0 {
		vpAssert(len(out) >= 2 && out[len(out)-2] == '\r' && out[len(out)-1] == '\n', "file-ends-with-crlf")
	}
	for _, k := range []string{"compression", "allow font smoothing", "authentication level", "desktopwidth", "audiomode", "alternate shell", "drivestoredirect"} {
		vpAssert(vpCountLines(out, k) <= 1, "at-most-one-line-per-setting")
	}
	m, perr := rdpparser.Parser().Unmarshal([]byte(out))
	vpAssert(perr == nil, "own-output-is-accepted-by-the-reader")
	if perr != nil {
		return
	}
	vpReach("kept")
	rdBool, rdInt, rdStr := vpReadBack(m)
	vpAssert(rdBool("compression", true) == wantComp && rdBool("allow font smoothing", false) == wantFont, "template-booleans-kept-in-the-generated-file")
	vpAssert(rdInt("authentication level", 3) == wantAuth && rdInt("desktopwidth", 0) == wantWidth && rdInt("audiomode", 0) == wantAudio, "template-integers-kept-in-the-generated-file")
	vpAssert(rdStr("alternate shell", "") == wantShell && rdStr("drivestoredirect", "false") == wantDrive, "template-strings-kept-in-the-generated-file")
	vpAssert(rdInt("connection type", 2) == 2 && rdInt("keyboardhook", 2) == 2 && rdBool("promptcredentialonce", true), "unmentioned-settings-read-back-as-defaults")
}

//vp:property C19
//vp:bounds a template whose second line is malformed in one of four ways (no type field, unknown type letter, integer type with a non-numeric value, integer beyond the int range) between two well-formed lines
//vp:reach refused
func VP_C19_template_malformed() {
	bad := []string{"compression", "compression:x:1", "desktopwidth:i:wide", "desktopwidth:i:99999999999999999999"}[vpIntRange("bad", 0, 3)]
	fn := vpTemplateFile("audiomode:i:1\r\n" + bad + "\r\nkeyboardhook:i:1\r\n")
	b, err := NewBuilderFromFile(fn)
	vpRemoveTemplate(fn)
	vpReach("refused")
	vpAssert(err != nil && b == nil, "malformed-template-lines-are-rejected-not-skipped")
}
