package transport

// The REAL packet transports (websocket.go, legacy.go) over a modelled peer: what the protocol
// harnesses assume of a transport (C06: packets pass through unchanged; C11: Close closes the
// client-facing connection and returns) is decided here for the code that implements it.

import (
	"bufio"
	"errors"
	"io"
	"net"
	"net/http"
	"sync"
	"strconv"
	"time"

	"github.com/gorilla/websocket"
)

//vp:all stub (*github.com/gorilla/websocket.Conn).ReadMessage = vpWSReadMessage
//vp:all stub (*github.com/gorilla/websocket.Conn).NextReader = vpWSNextReader
//vp:all stub (*github.com/gorilla/websocket.Conn).WriteMessage = vpWSWriteMessage
//vp:all stub (*github.com/gorilla/websocket.Conn).WriteControl = vpWSWriteControl
//vp:all stub (*github.com/gorilla/websocket.Conn).Close = vpWSClose
//vp:all stub (*github.com/gorilla/websocket.Conn).SetReadDeadline = vpWSSetReadDeadline
//vp:all stub (*github.com/gorilla/websocket.Conn).SetWriteDeadline = vpWSSetWriteDeadline
//vp:all stub (*github.com/gorilla/websocket.Conn).UnderlyingConn = vpWSUnderlying

// vpPeer is the remote end of the one websocket connection a harness uses.
//   mode 0: responsive — answers a close frame with a close frame
//   mode 1: silent — keeps the connection open, never sends anything again (a stalled or hostile client)
//   mode 2: gone — the connection is broken: reads and writes fail
type vpPeerT struct {
	mode      int
	closed    bool
	ncloses   int
	rdeadline bool
	wdeadline bool
	closeSent bool
	inTypes   []int
	in        [][]byte
	pos       int
	outTypes  []int
	out       [][]byte
	writeErr  bool
}

var vpPeer vpPeerT

// vpWriter stands for the connection's single-writer slot: gorilla allows ONE concurrent caller of the
// write methods (NextWriter, WriteMessage, WriteJSON ...); Close and WriteControl may be called
// concurrently with them. Every WriteMessage touches it, so the lockset analysis (and natively the race
// detector) sees two unsynchronised writers.
type vpWriter struct{ frames int }

var vpTheWriter = &vpWriter{}

type vpNetErr struct{ timeout bool }

func (e vpNetErr) Error() string {
	if e.timeout {
		return "vp: i/o timeout"
	}
	return "vp: connection lost"
}
func (e vpNetErr) Timeout() bool   { return e.timeout }
func (e vpNetErr) Temporary() bool { return e.timeout }

// vpPeerIdle: the peer has nothing (more) to deliver; what a blocking read does now.
func vpPeerIdle() error {
	if vpPeer.closed {
		return errors.New("vp: use of closed network connection")
	}
	if vpPeer.mode == 2 {
		return vpNetErr{}
	}
	if vpPeer.closeSent && vpPeer.mode == 0 {
		return &websocket.CloseError{Code: websocket.CloseNormalClosure}
	}
	if vpPeer.rdeadline {
		return vpNetErr{timeout: true}
	}
	vpBlockForever() // nothing arrives, no deadline: the reader waits for ever
	return nil
}

func vpWSReadMessage(c *websocket.Conn) (int, []byte, error) {
	if !vpPeer.closed && vpPeer.mode != 2 && vpPeer.pos < len(vpPeer.in) {
		i := vpPeer.pos
		vpPeer.pos++
		return vpPeer.inTypes[i], vpPeer.in[i], nil
	}
	return -1, nil, vpPeerIdle()
}

// vpMsgReader is the reader NextReader hands out for one message. As with gorilla (a message may be
// sent in several frames), a Read may deliver less than what is left: the first Read returns any
// non-empty prefix.
type vpMsgReader struct {
	b     []byte
	reads int
}

func (r *vpMsgReader) Read(p []byte) (int, error) {
	if len(r.b) == 0 {
		return 0, io.EOF
	}
	r.reads++
	avail := len(r.b)
	if r.reads == 1 && avail > 1 {
		avail = vpIntRange("first-frame-bytes", 1, avail)
	}
	n := copy(p, r.b[:avail])
	r.b = r.b[n:]
	return n, nil
}

func vpWSNextReader(c *websocket.Conn) (int, io.Reader, error) {
	mt, b, err := vpWSReadMessage(c)
	if err != nil {
		return mt, nil, err
	}
	return mt, &vpMsgReader{b: b}, nil
}

func vpWSWriteMessage(c *websocket.Conn, mt int, b []byte) error {
	vpTheWriter.frames++
	return vpWSWrite(mt, b)
}

func vpWSWrite(mt int, b []byte) error {
	if vpPeer.closed || vpPeer.mode == 2 || vpPeer.writeErr {
		return vpNetErr{}
	}
	if mt == websocket.CloseMessage {
		vpPeer.closeSent = true
	}
	vpPeer.outTypes = append(vpPeer.outTypes, mt)
	vpPeer.out = append(vpPeer.out, append([]byte(nil), b...))
	return nil
}

func vpWSWriteControl(c *websocket.Conn, mt int, b []byte, deadline time.Time) error {
	return vpWSWrite(mt, b) // safe to call concurrently with the write methods (gorilla docs)
}

func vpWSClose(c *websocket.Conn) error {
	vpPeer.ncloses++
	vpPeer.closed = true
	return nil
}
func vpWSSetReadDeadline(c *websocket.Conn, t time.Time) error {
	vpPeer.rdeadline = !t.IsZero()
	return nil
}
func vpWSSetWriteDeadline(c *websocket.Conn, t time.Time) error {
	vpPeer.wdeadline = !t.IsZero()
	return nil
}
func vpWSUnderlying(c *websocket.Conn) net.Conn { return nil }

// ---- the legacy side: a modelled net.Conn and chunked-body reader ----

type vpConn struct {
	mode      int // as vpPeerT.mode
	closed    bool
	rdeadline bool
	written   []byte
	nreads    int
}

func (c *vpConn) Read(b []byte) (int, error) {
	c.nreads++
	if c.closed {
		return 0, errors.New("vp: use of closed network connection")
	}
	if c.mode == 2 {
		return 0, vpNetErr{}
	}
	if c.mode == 0 && len(b) > 0 {
		b[0] = 'x'
		return 1, nil
	}
	if c.rdeadline {
		return 0, vpNetErr{timeout: true}
	}
	vpBlockForever()
	return 0, nil
}
func (c *vpConn) Write(b []byte) (int, error) {
	if c.closed || c.mode == 2 {
		return 0, vpNetErr{}
	}
	c.written = append(c.written, b...)
	return len(b), nil
}
func (c *vpConn) Close() error                       { c.closed = true; return nil }
func (c *vpConn) LocalAddr() net.Addr                { return nil }
func (c *vpConn) RemoteAddr() net.Addr               { return nil }
func (c *vpConn) SetDeadline(t time.Time) error      { c.rdeadline = !t.IsZero(); return nil }
func (c *vpConn) SetReadDeadline(t time.Time) error  { c.rdeadline = !t.IsZero(); return nil }
func (c *vpConn) SetWriteDeadline(t time.Time) error { return nil }

// vpBody is the de-chunked request body of the legacy IN connection: each Read delivers the next
// scripted piece (at most len(p) of it; the rest with the next Read), then the scripted error.
type vpBody struct {
	pieces [][]byte
	pos    int
	gotCap []int
}

func (r *vpBody) Read(p []byte) (int, error) {
	r.gotCap = append(r.gotCap, len(p))
	if r.pos >= len(r.pieces) {
		return 0, io.EOF
	}
	n := copy(p, r.pieces[r.pos])
	if n < len(r.pieces[r.pos]) {
		r.pieces[r.pos] = r.pieces[r.pos][n:]
	} else {
		r.pos++
	}
	return n, nil
}

// ---- harnesses ----

//vp:property C11
//vp:bounds WSPKT.Close and LegacyPKT.Close on a connection whose peer is, symbolically, responsive (answers a close frame), silent (keeps the connection open and never sends again) or gone (reads and writes fail), with 0..2 data frames of the peer still undelivered
//vp:assume gorilla/websocket.Conn and net.Conn as modelled by vpPeerT / vpConn: a read on a silent open connection without a read deadline never returns
//vp:reach ws-closed legacy-closed
func VP_C11_transport_close() {
	vpPeer = vpPeerT{mode: vpIntRange("peer-mode", 0, 2)}
	k := vpIntRange("undelivered", 0, 2)
	for i := 0; i < k; i++ {
		vpPeer.inTypes = append(vpPeer.inTypes, websocket.BinaryMessage)
		vpPeer.in = append(vpPeer.in, []byte{byte(i)})
	}
	if vpBool("legacy") {
		c := &vpConn{mode: vpPeer.mode}
		l := &LegacyPKT{Conn: c}
		l.Close()
		vpReach("legacy-closed")
		vpAssert(c.closed, "legacy-close-closes-the-client-facing-connection")
		return
	}
	w := &WSPKT{Conn: new(websocket.Conn)}
	w.Close() // a Close that never returns is reported by the engine as blocks-forever
	vpReach("ws-closed")
	vpAssert(vpPeer.closed, "websocket-close-closes-the-client-facing-connection")
}

//vp:property C06 C08
//vp:set n 3 6
//vp:bounds WSPKT.ReadPacket / WritePacket (a message obtained through NextReader may arrive in frames: its first Read returns any non-empty prefix): one websocket data message of either type (text, binary) and 0..n symbolic bytes, or a failing read; one packet of 0..n symbolic bytes written to a working or failing connection
//vp:assume gorilla/websocket.Conn as modelled by vpPeerT
//vp:reach read-binary read-other read-failed wrote write-failed
func VP_C06_ws_packets() {
	n := vpParam("n")
	vpPeer = vpPeerT{}
	w := &WSPKT{Conn: new(websocket.Conn)}
	if vpBool("write") {
		vpPeer.writeErr = vpBool("write-fails")
		b := vpBytes("pkt", n)
		cnt, err := w.WritePacket(b)
		if vpPeer.writeErr {
			vpReach("write-failed")
			vpAssert(err != nil, "failed-websocket-write-is-reported")
			vpAssert(len(vpPeer.out) == 0, "nothing-sent-on-a-failing-connection")
			return
		}
		vpReach("wrote")
		vpAssert(err == nil && cnt == len(b), "websocket-write-reports-the-packet-length")
		vpAssert(len(vpPeer.out) == 1, "one-websocket-message-per-packet")
		if len(vpPeer.out) == 1 {
			vpAssert(vpPeer.outTypes[0] == websocket.BinaryMessage, "packets-are-sent-as-binary-messages")
			vpAssert(len(vpPeer.out[0]) == len(b) && vpEqBytes(vpPeer.out[0], b), "websocket-message-carries-exactly-the-packet")
		}
		return
	}
	if vpBool("read-fails") {
		vpPeer.mode = 2
		_, _, err := w.ReadPacket()
		vpReach("read-failed")
		vpAssert(err != nil, "failed-websocket-read-is-reported")
		return
	}
	mt := vpIntRange("msg-type", 1, 2)
	msg := vpBytes("msg", n)
	vpPeer.inTypes, vpPeer.in = []int{mt}, [][]byte{msg}
	cnt, p, err := w.ReadPacket()
	if mt == websocket.BinaryMessage {
		vpReach("read-binary")
		vpAssert(err == nil, "binary-message-is-a-packet")
		vpAssert(cnt == len(msg) && len(p) == len(msg) && vpEqBytes(p, msg), "packet-is-exactly-the-binary-message")
	} else {
		vpReach("read-other")
		vpAssert(err != nil, "non-binary-message-is-not-a-packet")
	}
}

//vp:property C06
//vp:set pieces 2 3
//vp:bounds LegacyPKT.ReadPacket: the de-chunked IN body arrives in `pieces` pieces of a size drawn from {1,2,4095,4096,4097,9000} (first/last byte symbolic), each ReadPacket call returning what one Read of the body returned; then end of body
//vp:reach complete
func VP_C06_legacy_read() {
	sizes := []int{1, 2, 4095, 4096, 4097, 9000}
	np := vpParam("pieces")
	body := &vpBody{}
	var stream []byte
	for i := 0; i < np; i++ {
		is := strconv.Itoa(i)
		sz := sizes[vpIntRange("size"+is, 0, len(sizes)-1)]
		piece := make([]byte, sz)
		for j := range piece {
			piece[j] = 0xEE
		}
		piece[0] = vpU8("first" + is)
		piece[sz-1] = vpU8("last" + is)
		body.pieces = append(body.pieces, piece)
		stream = append(stream, piece...)
	}
	l := &LegacyPKT{ChunkedReader: body}
	var got []byte
	for i := 0; i < 40; i++ {
		n, p, err := l.ReadPacket()
		vpAssert(n == len(p), "legacy-read-count-equals-the-bytes-returned")
		got = append(got, p...)
		if err != nil {
			break
		}
	}
	vpReach("complete")
	for _, c := range body.gotCap {
		vpAssert(c > 0, "legacy-read-offers-a-non-empty-buffer")
	}
	vpAssert(len(got) == len(stream), "legacy-in-bytes-all-delivered-once")
	vpAssert(vpEqBytes(got, stream), "legacy-in-bytes-delivered-unchanged-and-in-order")
}

// ---- NewLegacy over a hijacked connection: the chunked IN body ----

// vpScriptConn delivers a raw byte stream in scripted segments, then EOF.
type vpScriptConn struct {
	vpConn
	segs  [][]byte
	pos   int
	waits bool // after its last segment the client keeps the connection open and waits for the gateway's answer
}

func (c *vpScriptConn) Read(b []byte) (int, error) {
	if c.pos >= len(c.segs) {
		if c.waits {
			vpBlockForever() // nothing more will come before the gateway has answered what was sent
		}
		return 0, io.EOF
	}
	n := copy(b, c.segs[c.pos])
	if n < len(c.segs[c.pos]) {
		c.segs[c.pos] = c.segs[c.pos][n:]
	} else {
		c.pos++
	}
	return n, nil
}

// vpHijackW is the http.ResponseWriter of the RDG_IN_DATA request. As in net/http, the buffered
// reader handed out by Hijack may already hold body bytes that arrived together with the headers.
type vpHijackW struct {
	conn      *vpScriptConn
	prebuffer bool
}

func (w *vpHijackW) Header() http.Header         { return http.Header{} }
func (w *vpHijackW) Write(b []byte) (int, error) { return len(b), nil }
func (w *vpHijackW) WriteHeader(int)             {}
func (w *vpHijackW) Hijack() (net.Conn, *bufio.ReadWriter, error) {
	br := bufio.NewReader(w.conn)
	if w.prebuffer {
		br.Peek(1) // the server read the first segment while parsing the request
	}
	return w.conn, bufio.NewReadWriter(br, bufio.NewWriter(w.conn)), nil
}

//vp:property C08 C06
//vp:set cuts 1 2
//vp:bounds legacy IN body through the real NewLegacy + ReadPacket + net/http's chunked reader: two HTTP chunks of 1..3 bytes each (first byte of each symbolic) and optionally the terminating chunk (without it the client either closes or keeps the connection open and waits for the gateway's answer); the raw chunked stream reaches the socket in cuts+1 segments at every cut position, independent of chunk boundaries; the first segment already buffered by the HTTP server or not
//vp:assume net/http hands the hijacker a bufio.Reader that may already hold body bytes (documented for Hijack)
//vp:reach complete
func VP_C08_legacy_chunks() {
	var raw, want []byte
	for i := 0; i < 2; i++ {
		is := strconv.Itoa(i)
		n := vpIntRange("chunklen"+is, 1, 3)
		pl := []byte{vpU8("b" + is), 'q', 'r'}[:n]
		raw = append(raw, byte('0'+n), '\r', '\n')
		raw = append(raw, pl...)
		raw = append(raw, '\r', '\n')
		want = append(want, pl...)
	}
	terminated := vpBool("terminated")
	if terminated {
		raw = append(raw, '0', '\r', '\n', '\r', '\n')
	}
	conn := &vpScriptConn{}
	last := 0
	ncuts := vpParam("cuts")
	for i := 0; i < ncuts; i++ {
		c := vpIntRange("cut"+strconv.Itoa(i), last+1, len(raw)-(ncuts-i))
		conn.segs = append(conn.segs, raw[last:c:c])
		last = c
	}
	conn.segs = append(conn.segs, raw[last:])
	l, err := NewLegacy(&vpHijackW{conn: conn, prebuffer: vpBool("prebuffered")})
	vpAssert(err == nil && l != nil, "hijackable-connection-yields-a-transport")
	if err != nil || l == nil {
		return
	}
	// the client may keep the connection open after what it sent and wait for the answer: everything that
	// has arrived must be handed over without waiting for more
	if !terminated && vpBool("client-waits-for-the-answer") {
		conn.waits = true
	}
	var got []byte
	for i := 0; i < 12 && !(conn.waits && len(got) >= len(want)); i++ {
		n, p, err := l.ReadPacket()
		vpAssert(n == len(p), "legacy-read-count-equals-the-bytes-returned")
		got = append(got, p...)
		if err != nil {
			break
		}
	}
	vpReach("complete")
	vpObserveBytes("got", got)
	vpAssert(len(got) == len(want), "every-body-byte-is-delivered-once")
	vpAssert(vpEqBytes(got, want), "body-bytes-delivered-unchanged-and-in-order")
}

//vp:property C09
//vp:flag lockset
//vp:bounds the websocket transport used as the tunnel uses it: one goroutine (the relay) inside WritePacket while another (the handler's deferred clean-up) calls Close, which the tunnel's write lock does not cover
//vp:assume gorilla/websocket: one concurrent caller of the write methods; Close and WriteControl may run concurrently with them
//vp:reach done
func VP_C09_transport_writers() {
	vpThread("setup")
	vpPeer = vpPeerT{}
	vpTheWriter = &vpWriter{}
	w := &WSPKT{Conn: new(websocket.Conn)}
	vpPar(func() {
		vpThread("relay")
		w.WritePacket([]byte{1, 2, 3})
	}, func() {
		vpThread("cleanup")
		w.Close()
	})
	vpThread("setup")
	vpReach("done")
	vpAssert(vpPeer.closed, "closed")
}

//vp:property C09 C06
//vp:flag lockset
//vp:bounds the legacy transport's outbound connection used as the tunnel uses it: the relay goroutine sends two small DATA packets (10 bytes each) and the packet loop sends a response, each inside the tunnel's write lock; then nothing happens for longer than any timer the transport may have armed
//vp:assume lockset: the hijacked connection and its buffered writer allow one writer at a time; whatever runs from a timer is a logical thread of its own; a timer fires when every goroutine waits
//vp:reach done
func VP_C09_legacy_writers() {
	vpThread("setup")
	conn := &vpScriptConn{}
	l, err := NewLegacy(&vpHijackW{conn: conn})
	vpAssert(err == nil && l != nil, "hijacked")
	if l == nil {
		return
	}
	var writeMu sync.Mutex // stands for Tunnel.writeMu
	send := func(b []byte) {
		writeMu.Lock()
		l.WritePacket(b)
		writeMu.Unlock()
	}
	data := func(x byte) []byte { return []byte{0xA, 0, 0, 0, 10, 0, 0, 0, 1, 0, x}[:10] }
	vpPar(func() {
		vpThread("relay")
		send(data(1))
		send(data(2))
	}, func() {
		vpThread("loop")
		send([]byte{0xD, 0, 0, 0, 8, 0, 0, 0})
	})
	vpThread("setup")
	vpSleepLong()
	vpReach("done")
	vpAssert(len(conn.written) == 28, "everything-handed-to-the-transport-is-on-the-wire-once-the-line-has-been-idle")
}
