package config

// C18 — unsafe or inconsistent configurations are refused at start-up (post-unmarshal logic).

import (
	"crypto/rand"
	"errors"
	"io"
	"io/fs"
	"math/big"
	"os"
	"strconv"

	"github.com/knadh/koanf/parsers/yaml"
	"github.com/knadh/koanf/providers/confmap"
	"github.com/knadh/koanf/providers/env"
	"github.com/knadh/koanf/providers/file"
	"github.com/knadh/koanf/v2"
)

//vp:all stub github.com/knadh/koanf/v2.New = vpKoanfNew
//vp:all stub (*github.com/knadh/koanf/v2.Koanf).Load = vpKoanfLoad
//vp:all stub (*github.com/knadh/koanf/v2.Koanf).UnmarshalWithConf = vpKoanfUnmarshal
//vp:all stub (*github.com/knadh/koanf/v2.Koanf).String = vpKoanfString
//vp:all stub (*github.com/knadh/koanf/v2.Koanf).Bool = vpKoanfBool
//vp:all stub (*github.com/knadh/koanf/v2.Koanf).Strings = vpKoanfStrings
//vp:all stub (*github.com/knadh/koanf/v2.Koanf).Exists = vpKoanfExists
//vp:all stub (*github.com/knadh/koanf/v2.Koanf).Get = vpKoanfGet
//vp:all stub (*github.com/knadh/koanf/v2.Koanf).Unmarshal = vpKoanfUnmarshalPath
//vp:all stub github.com/knadh/koanf/providers/confmap.Provider = vpConfmapProvider
//vp:all stub github.com/knadh/koanf/providers/file.Provider = vpFileProvider
//vp:all stub github.com/knadh/koanf/providers/env.ProviderWithValue = vpEnvProvider
//vp:all stub github.com/knadh/koanf/parsers/yaml.Parser = vpYamlParser
//vp:all stub os.Stat = vpStat
//vp:all stub os.IsNotExist = vpIsNotExist
//vp:all stub os.ReadFile = vpReadFile
//vp:all stub os.WriteFile = vpWriteFile
//vp:all stub os.TempDir = vpTempDir
//vp:all stub os.Getenv = vpGetenvC
//vp:all stub os.LookupEnv = vpLookupEnvC
//vp:all stub log.Fatalf = vpFatalf
//vp:all model crypto/rand.Int = vpmRandInt

func vpItoa(i int) string { return strconv.Itoa(i) }

var (
	vpDefaults map[string]interface{}
	vpRandDraws int
)

func vpKoanfNew(delim string) *koanf.Koanf { return nil }
func vpKoanfLoad(k *koanf.Koanf, p koanf.Provider, pa koanf.Parser, opts ...koanf.Option) error {
	return nil
}
func vpConfmapProvider(mp map[string]interface{}, delim string) *confmap.Confmap {
	vpDefaults = mp
	return nil
}
func vpFileProvider(path string) *file.File { return nil }
func vpEnvProvider(prefix, delim string, cb func(s string, v string) (string, interface{})) *env.Env {
	return nil
}

type vpParserT struct{}

func (vpParserT) Unmarshal(b []byte) (map[string]interface{}, error) { return nil, nil }
func (vpParserT) Marshal(m map[string]interface{}) ([]byte, error)   { return nil, nil }
func vpYamlParser() *yaml.YAML { return nil }

func vpStat(name string) (fs.FileInfo, error) { return nil, errors.New("vp: no such file") }
func vpIsNotExist(err error) bool             { return true }

// crypto/rand.Int: an arbitrary value in [0, max) (documented contract); draws are counted.
var vpEntropyFails bool

// vpRandReader stands in for crypto/rand.Reader: arbitrary bytes, or failure.
type vpRandReader struct{}

func (vpRandReader) Read(b []byte) (int, error) {
	if vpEntropyFails {
		return 0, errors.New("vp: entropy source failed")
	}
	for i := range b {
		vpRandDraws++
		b[i] = vpU8("rnd" + vpItoa(vpRandDraws))
	}
	return len(b), nil
}

func vpmRandInt(r io.Reader, max *big.Int) (*big.Int, error) {
	if vpEntropyFails {
		return nil, errors.New("vp: entropy source failed")
	}
	vpRandDraws++
	v := vpU8("rnd" + vpItoa(vpRandDraws))
	vpAssume(int64(v) < max.Int64())
	return big.NewInt(int64(v)), nil
}

// The unmarshalled configuration (what file and environment produced): symbolic.
var vpIn Configuration

func vpKoanfUnmarshal(k *koanf.Koanf, path string, o interface{}, c koanf.UnmarshalConf) error {
	switch d := o.(type) {
	case *ServerConfig:
		*d = vpIn.Server
	case *OpenIDConfig:
		*d = vpIn.OpenId
	case *RDGCapsConfig:
		*d = vpIn.Caps
	case *SecurityConfig:
		*d = vpIn.Security
	case *ClientConfig:
		*d = vpIn.Client
	case *KerberosConfig:
		*d = vpIn.Kerberos
	default:
		vpUnsupported("UnmarshalWithConf destination")
	}
	return nil
}

// koanf's getters look a setting up by its exact path: paths are case sensitive. The decoder (mapstructure)
// is not: it prefers the key that equals the struct tag (lower case) and otherwise matches without regard
// to case. A file that spells its keys like the struct tags ("tls: disable") therefore sits BESIDE the
// built-in default ("Tls: auto") in the merged map: the decoder takes the file's value (that is vpIn, what
// the gateway runs with), a getter asked for the path of the default sees the default. vpSpelledLikeTags
// says which of the two spellings the sources use (all keys alike).
var vpSpelledLikeTags bool

func vpKoanfGet(k *koanf.Koanf, path string) interface{} {
	if vpSpelledLikeTags {
		return vpDefaults[path] // nil when there is no built-in default
	}
	switch path {
	case "Server.Tls":
		return vpIn.Server.Tls
	case "Server.HostSelection":
		return vpIn.Server.HostSelection
	case "Server.Authentication":
		return vpIn.Server.Authentication
	case "Caps.TokenAuth":
		return vpIn.Caps.TokenAuth
	case "Kerberos.Keytab":
		return vpIn.Kerberos.Keytab
	case "Security.QueryTokenSigningKey":
		return vpIn.Security.QueryTokenSigningKey
	}
	vpUnsupported("koanf getter for a path outside the model")
	return nil
}
func vpKoanfExists(k *koanf.Koanf, path string) bool { return vpKoanfGet(k, path) != nil }
func vpKoanfString(k *koanf.Koanf, path string) string {
	s, _ := vpKoanfGet(k, path).(string)
	return s
}
func vpKoanfBool(k *koanf.Koanf, path string) bool {
	b, _ := vpKoanfGet(k, path).(bool)
	return b
}
func vpKoanfStrings(k *koanf.Koanf, path string) []string {
	switch v := vpKoanfGet(k, path).(type) {
	case []string:
		return v
	case string:
		return []string{v} // (koanf returns a one-element list for a scalar string)
	}
	return nil
}
func vpKoanfUnmarshalPath(k *koanf.Koanf, path string, o interface{}) error {
	d, ok := o.(*[]string)
	if !ok {
		vpUnsupported("koanf.Unmarshal destination outside the model")
	}
	*d = vpKoanfStrings(k, path) // weakly typed decoding wraps a scalar
	return nil
}

// vpKeyOfLen: a key string of one of the lengths that matter (0, 1, 31, 32, 33).
func vpKeyOfLen(name string) string {
	n := []int{0, 1, 31, 32, 33}[vpIntRange(name+"-len", 0, 4)]
	return vpStringN(name, n)
}

const vpAlphabet = "0123456789ABCDEFGHIJKLMNOPQRSTUVWXYZabcdefghijklmnopqrstuvwxyz-"

func vpFromAlphabet(s string) bool {
	all := true
	for i := 0; i < len(s); i++ {
		ok := false
		for j := 0; j < len(vpAlphabet); j++ {
			ok = vpOr(ok, s[i] == vpAlphabet[j])
		}
		all = vpAnd(all, ok)
	}
	return all
}

//vp:property C18 C17 C16
//vp:bounds authentication list = any subset of {openid, local, basic, kerberos, ntlm} (fixed order; the helpers only test membership); TLS mode in {auto, disable, other}; host selection in {roundrobin, signed, other}; query key, keytab: empty or not; cookie-auth flag; user-token flag; the sources spell their keys as the built-in defaults do (Server.Tls) or as the struct tags do (server.tls): both reach the decoder, only the first is what a getter for the default's path finds
//vp:assume koanf has unmarshalled file and environment into the configuration structs (the values are arbitrary)
//vp:reach started refused
func VP_C18_consistency() {
	vpIn = Configuration{}
	Conf = Configuration{}
	vpRandDraws = 0
	var authn []string
	names := []string{"openid", "local", "basic", "kerberos", "ntlm"}
	has := map[string]bool{}
	for i, n := range names {
		if vpBool("auth-" + vpItoa(i)) {
			authn = append(authn, n)
			has[n] = true
		}
	}
	vpIn.Server.Authentication = authn
	vpIn.Server.Tls = []string{"auto", "disable", "other"}[vpIntRange("tls", 0, 2)]
	vpIn.Server.HostSelection = []string{"roundrobin", "signed", "other"}[vpIntRange("hostsel", 0, 2)]
	if vpBool("has-query-key") {
		vpIn.Security.QueryTokenSigningKey = "k"
	}
	if vpBool("has-keytab") {
		vpIn.Kerberos.Keytab = "/etc/krb5.keytab"
	}
	vpIn.Caps.TokenAuth = vpBool("tokenauth")
	vpSpelledLikeTags = vpBool("sources-spell-their-keys-like-the-struct-tags")
	defer func() { vpSpelledLikeTags = false }()
	// keys: valid 32-byte ones, so that this harness is about the consistency rules only
	k32 := "0123456789abcdef0123456789abcdef"
	vpIn.Security.PAATokenEncryptionKey, vpIn.Security.PAATokenSigningKey = k32, k32
	vpIn.Server.SessionKey, vpIn.Server.SessionEncryptionKey = k32, k32

	var out Configuration
	fatal := vpCatchFatal(func() { out = Load("/nonexistent.yaml") })
	vpObserveBool("fatal", fatal)

	unsafe := (has["openid"] && !vpIn.Caps.TokenAuth) ||
		((has["local"] || has["basic"]) && vpIn.Server.Tls == "disable") ||
		(has["ntlm"] && has["kerberos"]) ||
		(has["kerberos"] && vpIn.Kerberos.Keytab == "") ||
		(vpIn.Server.HostSelection == "signed" && vpIn.Security.QueryTokenSigningKey == "")
	vpAssert(fatal == unsafe, "refuses-to-start-iff-the-configuration-is-unsafe-or-inconsistent")
	if fatal {
		vpReach("refused")
	} else {
		vpReach("started")
		vpAssert(len(out.Server.Authentication) == len(authn), "configuration-returned-as-read")
		// what the operator configured is what the gateway is built from (capabilities, TLS mode, host selection)
		vpAssert(out.Caps.TokenAuth == vpIn.Caps.TokenAuth, "configured-token-authentication-switch-returned-as-read")
		vpAssert(out.Server.Tls == vpIn.Server.Tls && out.Server.HostSelection == vpIn.Server.HostSelection, "configured-tls-mode-and-host-selection-returned-as-read")
	}
}

//vp:property C18 C13
//vp:bounds each of the five keys (PAA signing, PAA encryption, session, session encryption, user-token encryption) independently of length 0, 1, 31, 32 or 33 with symbolic content; user-token switch on/off; every random draw arbitrary in range; the entropy source working or failing
//vp:reach replaced kept
//vp:set budget 300 900
func VP_C18_keys() {
	vpIn = Configuration{}
	Conf = Configuration{}
	vpRandDraws = 0
	vpFileReads, vpPlanted = 0, nil
	vpIn.Server.Authentication = []string{"ntlm"}
	vpIn.Server.Tls = "auto"
	vpIn.Server.HostSelection = "roundrobin"
	// the system's entropy source may fail at start-up (crypto/rand.Reader is replaced for the run)
	vpEntropyFails = vpBool("entropy-source-fails")
	oldReader := rand.Reader
	rand.Reader = vpRandReader{}
	defer func() { rand.Reader = oldReader }()
	which := vpIntRange("which", 0, 4)
	k32 := "0123456789abcdef0123456789abcdef"
	keys := []string{k32, k32, k32, k32, k32}
	keys[which] = vpKeyOfLen("key")
	vpIn.Security.PAATokenEncryptionKey, vpIn.Security.PAATokenSigningKey = keys[0], keys[1]
	vpIn.Server.SessionKey, vpIn.Server.SessionEncryptionKey = keys[2], keys[3]
	vpIn.Security.UserTokenEncryptionKey = keys[4]
	vpIn.Security.EnableUserToken = vpBool("usertoken")

	var out Configuration
	fatal := vpCatchFatal(func() { out = Load("/nonexistent.yaml") })
	vpAssert(!fatal, "key-problems-are-repaired-not-fatal")
	if fatal {
		return
	}
	got := []string{out.Security.PAATokenEncryptionKey, out.Security.PAATokenSigningKey, out.Server.SessionKey, out.Server.SessionEncryptionKey, out.Security.UserTokenEncryptionKey}
	for i, g := range got {
		checked := i < 4 || vpIn.Security.EnableUserToken
		if !checked {
			continue
		}
		if vpEntropyFails && len(keys[i]) != 32 {
			// no fresh key can be drawn: the gateway must not carry on with a usable-looking key
			// (a key shorter than 32 characters is refused later by the session store / token minting)
			vpAssert(len(g) < 32, "no-predictable-replacement-key-when-the-entropy-source-fails")
			continue
		}
		vpAssert(len(g) == 32, "every-key-in-use-has-32-characters")
		if len(keys[i]) == 32 {
			vpAssert(g == keys[i], "a-valid-configured-key-is-kept")
			if i == which {
				vpReach("kept")
			}
		} else {
			vpReach("replaced")
			vpAssert(vpFromAlphabet(g), "a-replacement-key-is-drawn-from-the-key-alphabet")
			for _, w := range vpPlanted {
				vpAssert(g != w, "a-replacement-key-is-fresh-not-something-found-in-a-file-others-can-write")
			}
		}
	}
	// one CSPRNG draw per generated character
	nrepl := 0
	if len(keys[which]) != 32 && (which < 4 || vpIn.Security.EnableUserToken) {
		nrepl = 1
	}
	if vpSymbolic() && !vpEntropyFails { // the draw counter lives in the models of crypto/rand
		vpAssert(vpRandDraws == 32*nrepl, "one-random-draw-per-generated-character")
	}
}


// The file system and the environment as start-up code may consult them beyond the configuration file:
// any other file may or may not exist and then holds whatever somebody else put there (66 arbitrary
// ASCII bytes, possibly shaped like two 32-character keys); environment variables other than the configuration's are unset.
var vpFileReads int

func vpReadFile(name string) ([]byte, error) {
	vpFileReads++
	k := vpItoaC(vpFileReads)
	if !vpBool("some-file-exists-" + k) {
		return nil, errors.New("vp: open " + name + ": no such file or directory")
	}
	// what somebody else may have put there: two words of 32 printable characters (the shape of a key
	// file), first character of each symbolic
	c1, c2 := vpU8("planted-1-"+k), vpU8("planted-2-"+k)
	vpAssume(vpAnd(vpAnd(c1 > 0x20, c1 < 0x7f), vpAnd(c2 > 0x20, c2 < 0x7f)))
	w1 := string([]byte{c1}) + "lantedplantedplantedplantedplan"
	w2 := string([]byte{c2}) + "orgedforgedforgedforgedforgedfo"
	vpPlanted = append(vpPlanted, w1, w2)
	return []byte(w1 + "\n" + w2 + "\n"), nil
}

// vpPlanted: words found in files that start-up code read although the configuration did not name them
var vpPlanted []string

func vpWriteFile(name string, data []byte, perm os.FileMode) error { return nil }
func vpTempDir() string                                          { return "/tmp" }
func vpGetenvC(k string) string                                   { return "" }
func vpLookupEnvC(k string) (string, bool)                        { return "", false }
func vpItoaC(i int) string                                        { return string(rune('0' + i%10)) }
