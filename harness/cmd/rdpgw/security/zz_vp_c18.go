package security

// C18 — the CSPRNG key generator.

import (
	"io"
	"math/big"
)

//vp:all model crypto/rand.Int = vpmRandInt

var vpRandDraws int
var vpRandMax int64

func vpmRandInt(r io.Reader, max *big.Int) (*big.Int, error) {
	vpRandDraws++
	vpRandMax = max.Int64()
	v := vpU8("rnd" + vpItoa(vpRandDraws))
	vpAssume(int64(v) < vpRandMax)
	return big.NewInt(int64(v)), nil
}

//vp:property C18
//vp:bounds requested length 0..6 and 32; every draw arbitrary in [0, 63)
//vp:reach done
func VP_C18_random() {
	vpRandDraws = 0
	n := []int{0, 1, 2, 3, 6, 32}[vpIntRange("n", 0, 5)]
	s, err := GenerateRandomString(n)
	vpAssert(err == nil, "generator-succeeds")
	vpAssert(len(s) == n, "generated-string-has-the-requested-length")
	const alphabet = "0123456789ABCDEFGHIJKLMNOPQRSTUVWXYZabcdefghijklmnopqrstuvwxyz-"
	all := true
	for i := 0; i < len(s); i++ {
		ok := false
		for j := 0; j < len(alphabet); j++ {
			ok = vpOr(ok, s[i] == alphabet[j])
		}
		all = vpAnd(all, ok)
	}
	vpAssert(all, "every-character-is-from-the-63-letter-alphabet")
	if vpSymbolic() {
		vpAssert(vpRandDraws == n, "one-csprng-draw-per-character")
		vpAssert(n == 0 || vpRandMax == 63, "draws-are-uniform-over-the-whole-alphabet")
		// each character is exactly the alphabet letter selected by its draw
		for i := 0; i < len(s); i++ {
			vpAssert(s[i] == alphabet[vpU8("rnd"+vpItoa(i+1))], "character-is-the-letter-selected-by-its-draw")
		}
	}
	vpReach("done")
}
