package security

// C02 — access cookies are accepted only if gateway-minted, unexpired and IdP-valid.

import (
	"time"

	"github.com/bolkedebruin/rdpgw/cmd/rdpgw/identity"
	"github.com/bolkedebruin/rdpgw/cmd/rdpgw/protocol"
)

//vp:property C02 C04
//vp:set s 2 4
//vp:bounds every cookie class: empty/non-empty string; not a JWS / JWS with 1..2 headers naming any of {HS256,none,HS384,HS512,RS256,""}; MAC made under any of the five gateway keys or a foreign key; issuer "rdpgw" or any string <= 5 bytes; exp/nbf/iat each absent or any second 1970..2200; now any second 2001..2100; the tunnel connected at any earlier second; IdP honours / refuses; claim strings of s bytes with symbolic content
//vp:assume go-jose contracts: ParseSigned enforces the allow-list; Claims(key) succeeds iff the MAC verifies under key and fills destinations from the verified payload; Validate is the real go-jose code
//vp:reach accepted rejected-mac rejected-exp rejected-idp rejected-iss
func VP_C02_verify() {
	vpResetJose()
	vpSetKeys()
	vpClaimLen = vpParam("s")
	cookie := vpString("cookie", 2)
	id := identity.NewUser()
	id.SetUserName("before")
	tun := &protocol.Tunnel{User: id, TargetServer: "T0", RemoteAddr: "R0"}
	// the tunnel was connected at any instant up to the presentation of the cookie
	connected := int64(vpU64("connected"))
	vpAssume(connected >= 978307200 && connected <= vpCurTime)
	tun.ConnectedOn = time.Unix(connected, 0)

	ok, err := CheckPAACookie(vpCtxWith(tun, id), cookie)
	vpObserveBool("ok", ok)

	if ok {
		vpReach("accepted")
		vpAssert(err == nil, "accept-has-no-error")
		vpAssert(cookie != "", "empty-cookie-never-accepted")
		vpAssert(vpParseCalls == 1 && vpTokKind == 1, "accepted-cookie-parsed-as-compact-jws")
		for _, a := range vpTokAlgs {
			vpAssert(a == "HS256", "accepted-cookie-is-hs256")
		}
		vpAssert(vpTokSignedBy == vpKeyPAASign, "accepted-cookie-mac-made-under-the-paa-signing-key")
		vpAssert(vpTokIssuer == "rdpgw", "accepted-cookie-names-the-gateway-as-issuer")
		now := vpLastNow // the latest instant handed to the code (= the harness's presentation time if the code never asked)
		if vpTokExp != nil {
			vpAssert(int64(*vpTokExp) >= now-60, "accepted-cookie-not-expired-beyond-leeway")
		}
		if vpTokNbf != nil {
			vpAssert(int64(*vpTokNbf) <= now+60, "accepted-cookie-already-valid")
		}
		vpAssert(vpIdpCalls >= 1 && vpIdpToken == vpTokCustom.AccessToken, "idp-asked-about-the-embedded-access-token")
		vpAssert(vpIdpHonoured && vpBool("idp-honours-token"), "accepted-only-if-idp-honours-the-token")
		// the tunnel is bound to exactly the verified claims (C04: address recorded at issuance)
		vpAssert(tun.TargetServer == vpTokCustom.RemoteServer, "tunnel-host-is-the-verified-host-claim")
		vpAssert(tun.RemoteAddr == vpTokCustom.ClientIP, "tunnel-address-is-the-verified-address-claim")
	} else {
		vpAssert(tun.TargetServer == "T0" && tun.RemoteAddr == "R0" && id.UserName() == "before", "rejected-cookie-leaves-the-tunnel-untouched")
		if vpTokKind == 1 && vpTokSignedBy != vpKeyPAASign {
			vpReach("rejected-mac")
		}
		if vpIdpCalls >= 1 {
			vpReach("rejected-idp")
		}
	}
	// completeness of the rejection reasons (each one alone suffices)
	if vpTokKind == 1 && len(vpClaimsKeyLog) > 0 && vpTokSignedBy == vpKeyPAASign && vpTokIssuer != "rdpgw" {
		vpReach("rejected-iss")
		vpAssert(!ok, "wrong-issuer-is-rejected")
	}
	if vpTokKind == 1 && vpTokExp != nil && vpNowCalls >= 1 && int64(*vpTokExp) < vpLastNow-60 {
		vpReach("rejected-exp")
		vpAssert(!ok, "expired-cookie-is-rejected")
	}
	// a well-formed, correctly signed, unexpired, IdP-valid cookie IS accepted (no over-rejection)
	if cookie != "" && vpTokKind == 1 && vpTokSignedBy == vpKeyPAASign && vpTokIssuer == "rdpgw" && vpTokExp == nil && vpTokNbf == nil && vpTokIat == nil && vpIdpCalls >= 1 && vpIdpTimeouts == 0 && vpBool("idp-honours-token") {
		vpAssert(ok, "valid-cookie-is-accepted")
	}
}

//vp:property C02 C04 C12
//vp:set s 2 4
//vp:bounds signing key of every length 0..40; user/server/address/access-token strings <= s bytes; now any second 2001..2100; signer construction and serialisation succeeding or failing
//vp:reach minted refused
func VP_C02_mint() {
	vpResetJose()
	n := vpParam("s")
	SigningKey = vpBytes("signing-key", 40)
	user := vpString("user", n)
	server := vpString("server", n)
	ip := vpString("ip", n)
	at := vpString("at", n)
	id := identity.NewUser()
	id.SetAttribute(identity.AttrClientIp, ip)
	id.SetAttribute(identity.AttrAccessToken, at)
	id.SetAttribute(identity.AttrRemoteAddr, "peer:1")

	tok, err := GeneratePAAToken(vpCtxWith(nil, id), user, server)
	if len(SigningKey) < 32 {
		vpReach("refused")
		vpAssert(err != nil && tok == "", "short-signing-key-refuses-to-mint")
		vpAssert(vpMintSerialized == 0, "nothing-signed-with-a-short-key")
		return
	}
	if err != nil {
		vpAssert(tok == "", "failed-mint-returns-no-token")
		return
	}
	vpReach("minted")
	vpObserveStr("tok", tok)
	vpAssert(vpMintKind == 1 && vpMintSerialized == 1, "paa-token-is-a-signed-jwt")
	vpAssert(vpMintSignerAlg == "HS256", "paa-token-signed-with-hs256")
	vpAssert(string(vpMintSignerKey) == string(SigningKey), "paa-token-signed-with-the-paa-signing-key")
	vpAssert(vpMintClaims != nil && vpMintPrivate != nil, "standard-and-private-claims-present")
	if vpMintClaims == nil || vpMintPrivate == nil {
		return
	}
	now := vpLastNow // the latest instant handed to the code (= the harness's presentation time if the code never asked)
	vpAssert(vpMintClaims.Issuer == "rdpgw", "minted-issuer-is-the-gateway")
	vpAssert(vpMintClaims.Subject == user, "minted-subject-is-the-user")
	vpAssert(vpMintClaims.Expiry != nil, "minted-token-has-an-expiry")
	if vpMintClaims.Expiry != nil {
		exp := int64(*vpMintClaims.Expiry)
		vpAssert(exp-now <= 300 && exp >= now, "minted-token-expires-within-five-minutes")
	}
	vpAssert(vpMintPrivate.RemoteServer == server, "minted-host-claim-is-the-selected-host")
	vpAssert(vpMintPrivate.ClientIP == ip, "minted-address-claim-is-the-client-ip-attribute")
	vpAssert(vpMintPrivate.AccessToken == at, "minted-access-token-claim-is-the-session-access-token")
}

//vp:property C02 C12
//vp:bounds the same correctly signed, unexpired gateway cookie presented twice on fresh tunnels with connection identifiers of their own (a reconnect); the identity provider's verdict on the embedded access token is arbitrary and independent at each presentation (valid, then revoked/unreachable, or the reverse)
//vp:assume as VP_C02_verify
//vp:reach second-accepted second-refused
func VP_C02_twice() {
	vpResetJose()
	vpSetKeys()
	vpClaimLen = 2
	vpIdpPerCall = true
	defer func() { vpIdpPerCall = false }()
	var oks [2]bool
	for i := 0; i < 2; i++ {
		id := identity.NewUser()
		tun := &protocol.Tunnel{User: id, RDGId: "conn-" + vpItoa(i+1)}
		// the same token both times: keep the ghost description, reset only per-call logs
		vpParseCalls, vpSigAlgs, vpTokAlgs, vpClaimsKeyLog = 0, nil, nil, nil
		vpPresentation = i
		oks[i], _ = CheckPAACookie(vpCtxWith(tun, id), "the-cookie")
	}
	vpObserveBool("ok1", oks[0])
	vpObserveBool("ok2", oks[1])
	if oks[1] {
		vpReach("second-accepted")
		vpAssert(vpIdpCalls >= 1 && vpBool("idp-honours-token-"+vpItoa(vpIdpCalls)), "every-acceptance-rests-on-a-current-idp-verdict")
		vpAssert(vpIdpAsked[1], "idp-consulted-at-the-second-presentation")
	} else {
		vpReach("second-refused")
		// an unmodified token, inside its lifetime, which the identity provider still honours, is accepted
		// again — whatever happened at its first presentation
		vpAssert(!(vpIdpAsked[1] && vpIdpCalls >= 1 && vpBool("idp-honours-token-"+vpItoa(vpIdpCalls))), "an-unmodified-unexpired-token-the-idp-honours-is-accepted-again")
	}
}

//vp:property C02 C12
//vp:bounds a token minted by GeneratePAAToken (user, host, address, access token: 2 symbolic bytes each) is presented to CheckPAACookie at any instant within ten seconds of minting, from a context whose IdP honours the access token
//vp:assume the serialised token carries exactly the claims handed to the builder, signed with the signer's key and algorithm (go-jose contract)
//vp:reach accepted
func VP_C02_mint_then_verify() {
	vpResetJose()
	vpSetKeys()
	user, server, ip, at := vpStringN("user", 2), vpStringN("server", 2), vpStringN("ip", 2), vpStringN("at", 2)
	id := identity.NewUser()
	id.SetAttribute(identity.AttrClientIp, ip)
	id.SetAttribute(identity.AttrAccessToken, at)
	tok, err := GeneratePAAToken(vpCtxWith(nil, id), user, server)
	vpAssume(err == nil && tok != "" && vpMintClaims != nil && vpMintPrivate != nil && vpMintClaims.Expiry != nil)
	minted := vpLastNow
	// the token as the verifier will see it: exactly what was minted
	vpIdpPerCall = false
	vpTokClaimsMade = true
	vpTokIssuer, vpTokSubject = vpMintClaims.Issuer, vpMintClaims.Subject
	vpTokExp, vpTokNbf, vpTokIat = vpMintClaims.Expiry, vpMintClaims.NotBefore, vpMintClaims.IssuedAt
	vpTokCustom = *vpMintPrivate
	vpMintedToken = true
	vpMintedAlg, vpMintedKeyIs = vpMintSignerAlg, string(vpMintSignerKey) == string(SigningKey)
	defer func() { vpMintedToken = false }()
	// presented within the token's lifetime
	tun := &protocol.Tunnel{User: identity.NewUser()}
	ok, _ := CheckPAACookie(vpCtxWith(tun, id), tok)
	presented := vpLastNow
	vpAssume(presented <= minted+10) // "freshly minted": presented within ten seconds (the property fixes only the upper bound of the lifetime)
	vpAssume(vpBool("idp-honours-token"))
	vpReach("accepted")
	vpAssert(ok, "a-freshly-minted-token-is-accepted")
	vpAssert(tun.TargetServer == server && tun.RemoteAddr == ip, "accepted-token-binds-the-tunnel-to-the-minted-host-and-address")
}

//vp:property C07 C02
//vp:bounds two tunnels present two different validly signed gateway tokens one after the other: A's carries host and address claims (2 symbolic bytes each); B's carries symbolic ones or lacks either member (a token of unusual but legal shape); the two tokens embed the same IdP access token (one login, two connection files) or different ones; the IdP honours both access tokens
//vp:assume as VP_C02_verify; JSON decoding leaves the fields of absent members untouched
//vp:reach both-accepted
func VP_C07_cookie_isolation() {
	vpResetJose()
	vpSetKeys()
	present := func(n string, lacksServer, lacksIP bool) *protocol.Tunnel {
		vpParseCalls, vpSigAlgs, vpTokAlgs, vpClaimsKeyLog = 0, nil, nil, nil
		vpTokClaimsMade = true
		vpTokIssuer, vpTokSubject = "rdpgw", "u"+n
		vpTokExp, vpTokNbf, vpTokIat = nil, nil, nil
		// the two tokens come from one login (same IdP access token, e.g. two downloads) or from two
		at := "at" + n
		if n == "B" && vpBool("both-tokens-from-one-login") {
			at = "atA"
		}
		vpTokCustom = customClaims{RemoteServer: vpStringN("server-"+n, 2), ClientIP: vpStringN("ip-"+n, 2), AccessToken: at}
		vpTokLacks = [3]bool{lacksServer, lacksIP, false}
		id := identity.NewUser()
		tun := &protocol.Tunnel{User: id}
		ok, _ := CheckPAACookie(vpCtxWith(tun, id), "cookie-"+n)
		vpAssume(ok)
		return tun
	}
	vpIdpPerCall = true // a correctly signed, unexpired gateway cookie each time; the IdP verdict is per call
	defer func() { vpIdpPerCall = false }()
	tunA := present("A", false, false)
	hostA, ipA := vpTokCustom.RemoteServer, vpTokCustom.ClientIP
	lacksServer, lacksIP := vpBool("b-lacks-host-claim"), vpBool("b-lacks-address-claim")
	tunB := present("B", lacksServer, lacksIP)
	vpReach("both-accepted")
	wantHost, wantIP := vpTokCustom.RemoteServer, vpTokCustom.ClientIP
	if lacksServer {
		wantHost = ""
	}
	if lacksIP {
		wantIP = ""
	}
	vpAssert(tunB.TargetServer == wantHost, "tunnel-host-comes-from-its-own-token-only")
	vpAssert(tunB.RemoteAddr == wantIP, "tunnel-address-comes-from-its-own-token-only")
	vpAssert(tunA.TargetServer == hostA && tunA.RemoteAddr == ipA, "earlier-tunnel-keeps-its-own-token-data")
}


//vp:property C02 C07 C09
//vp:bounds two tunnels present, at the same time, two correctly signed and unexpired gateway cookies of the same user: one embeds an access token the identity provider honours (its answer is slow), the other an access token the provider refuses (a revoked session); the second is checked while the first waits for the provider
//vp:assume as VP_C02_verify; cooperative schedule: the second check runs while the first waits for the identity provider
//vp:reach both-judged
func VP_C02_concurrent_presentations() {
	vpResetJose()
	vpSetKeys()
	vpIdpByToken = map[string]bool{"honoured": true, "revoked": false}
	vpIdpSlowToken = "honoured"
	vpIdpShown = nil
	vpIdpPerCall = true // a correctly signed, unexpired gateway cookie each time
	defer func() { vpIdpByToken, vpIdpSlowToken, vpIdpPerCall = nil, "", false }()
	describe := func(at string) {
		vpParseCalls, vpSigAlgs, vpTokAlgs, vpClaimsKeyLog = 0, nil, nil, nil
		vpTokClaimsMade = true
		vpTokIssuer, vpTokSubject = "rdpgw", "u"
		vpTokExp, vpTokNbf, vpTokIat = nil, nil, nil
		vpTokCustom = customClaims{RemoteServer: "h", ClientIP: "a", AccessToken: at}
		vpTokLacks = [3]bool{}
	}
	var okGood, okRevoked bool
	done := make(chan bool, 1)
	entered, otherDone := make(chan struct{}), make(chan struct{})
	vpIdpSlowEntered, vpIdpOtherDone = entered, otherDone
	go func() {
		<-entered // the first presentation is waiting for the identity provider
		defer close(otherDone)
		describe("revoked")
		id := identity.NewUser()
		okRevoked, _ = CheckPAACookie(vpCtxWith(&protocol.Tunnel{User: id, RDGId: "conn-2"}, id), "cookie-revoked")
		done <- true
	}()
	describe("honoured")
	id := identity.NewUser()
	okGood, _ = CheckPAACookie(vpCtxWith(&protocol.Tunnel{User: id, RDGId: "conn-1"}, id), "cookie-honoured")
	<-done
	vpReach("both-judged")
	vpAssert(okGood, "the-cookie-whose-access-token-is-honoured-is-accepted")
	vpAssert(!okRevoked, "a-cookie-whose-access-token-the-provider-refuses-is-refused-whatever-else-is-in-flight")
	shownRevoked := false
	for _, t := range vpIdpShown {
		shownRevoked = shownRevoked || t == "revoked"
	}
	vpAssert(shownRevoked, "every-cookies-own-access-token-is-shown-to-the-provider")
}


//vp:property C02 C12
//vp:bounds a session whose access token is long (6000 bytes: an identity provider that packs group claims into it) downloads a connection file: the minted cookie still embeds that access token, so that the identity provider is asked about it at every presentation
//vp:assume the serialised token is at least as long as the claims it carries (go-jose contract)
//vp:reach minted
func VP_C02_mint_long_access_token() {
	vpResetJose()
	vpSetKeys()
	at := make([]byte, 6000)
	for i := range at {
		at[i] = 'a'
	}
	id := identity.NewUser()
	id.SetAttribute(identity.AttrClientIp, "ip")
	id.SetAttribute(identity.AttrAccessToken, string(at))
	tok, err := GeneratePAAToken(vpCtxWith(nil, id), "u", "h")
	if err != nil {
		vpAssert(tok == "", "failed-mint-returns-no-token")
		return
	}
	vpReach("minted")
	vpAssert(vpMintPrivate != nil && vpMintPrivate.AccessToken == string(at), "minted-cookie-embeds-the-sessions-access-token-whatever-its-length")
}
