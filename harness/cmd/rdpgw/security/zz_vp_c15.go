package security

// C15 — user tokens verify only if minted under the configured keys and unexpired.
// C12 — query tokens (signed host selection): QueryInfo.

import (

	"github.com/bolkedebruin/rdpgw/cmd/rdpgw/identity"
	"github.com/bolkedebruin/rdpgw/cmd/rdpgw/protocol"
)

//vp:property C15
//vp:set s 2 3
//vp:bounds both key modes (encrypt-only: signing key empty; sign-and-encrypt) plus the corner "encryption key empty, signing key set"; token class: not a JWE / plain JWE / nested JWE; encrypted and (inner) signed under any gateway key or a foreign key; inner alg any of {HS256,none,HS384,HS512,RS256,""}; issuer "rdpgw"/any 5 bytes/empty; exp/nbf/iat absent or any second; now any second 2001..2100
//vp:assume go-jose contracts: ParseEncrypted/ParseSignedAndEncrypted enforce the allow-lists and the JWT content type; Decrypt/Claims succeed iff the key decrypts / verifies; a nested token offered to encrypt-only parsing decrypts to a JWS string, not to claims
//vp:reach ok-enc ok-nested refused
func VP_C15_verify() {
	vpResetJose()
	vpSetKeys()
	vpClaimLen = vpParam("s")
	mode := vpIntRange("mode", 0, 2)
	switch mode {
	case 0: // encrypt-only
		UserSigningKey = nil
	case 1: // sign-and-encrypt
	case 2: // corner: no encryption key but a signing key
		UserEncryptionKey = nil
	}
	claims, err := UserInfo(vpCtxWith(nil, nil), vpStringN("token", 3))
	vpObserveBool("ok", err == nil)
	if err != nil {
		vpReach("refused")
		// a refusal must not disclose the token's claims (the endpoint echoes the error text)
		if vpTokClaimsMade {
			vpAssert(!vpStrContains(err.Error(), vpTokSubject), "refusal-text-does-not-disclose-the-subject")
			if len(vpTokIssuer) == 5 && vpTokIssuer != "rdpgw" {
				vpAssert(!vpStrContains(err.Error(), vpTokIssuer), "refusal-text-does-not-disclose-the-issuer")
			}
		}
		return
	}
	if mode == 2 {
		// neither branch ran: zero claims must still be refused by the issuer check
		vpReach("corner")
		vpAssert(false, "no-token-accepted-without-an-encryption-key")
		return
	}
	vpAssert(vpParseCalls == 1, "token-parsed-once")
	vpAssert(vpTokEncBy == vpKeyUserEnc, "accepted-token-decrypts-under-the-user-encryption-key")
	vpAssert(vpContains(vpKeyAlgs, "dir") && len(vpKeyAlgs) == 1 && vpContains(vpEncAlgs, "A128CBC-HS256") && len(vpEncAlgs) == 1, "only-direct-a128cbc-hs256-tokens-accepted")
	if mode == 1 {
		vpReach("ok-nested")
		vpAssert(vpTokKind == 3, "sign-and-encrypt-mode-accepts-only-nested-tokens")
		vpAssert(vpTokSignedBy == vpKeyUserSign, "accepted-token-inner-mac-made-under-the-user-signing-key")
		for _, a := range vpTokAlgs {
			vpAssert(a == "HS256", "inner-signature-is-hs256")
		}
	} else {
		vpReach("ok-enc")
		vpAssert(vpTokKind == 2, "encrypt-only-mode-accepts-only-plain-encrypted-tokens")
	}
	vpAssert(vpTokIssuer == "rdpgw", "accepted-token-names-the-gateway-as-issuer")
	now := vpLastNow // the latest instant handed to the code (= the harness's presentation time if the code never asked)
	if vpTokExp != nil {
		vpAssert(int64(*vpTokExp) >= now-60, "accepted-token-not-expired-beyond-leeway")
	}
	vpAssert(claims.Subject == vpTokSubject && claims.Issuer == vpTokIssuer, "returned-claims-are-the-verified-claims")
}

//vp:property C15
//vp:set s 2 3
//vp:bounds encryption key of every length 0..40, signing key of length 0 / 1 / 32, user name of s symbolic bytes, now any second 2001..2100, constructors/serialiser succeeding or failing
//vp:reach enc nested refused
func VP_C15_mint() {
	vpResetJose()
	UserEncryptionKey = vpBytes("enc-key", 40)
	UserSigningKey = vpBytesN("sign-key", []int{0, 1, 32}[vpIntRange("sign-len", 0, 2)])
	user := vpStringN("user", vpParam("s"))
	tok, err := GenerateUserToken(vpCtxWith(nil, nil), user)
	if len(UserEncryptionKey) < 32 {
		vpReach("refused")
		vpAssert(err != nil && tok == "" && vpMintSerialized == 0, "short-encryption-key-refuses-to-mint")
		return
	}
	if err != nil {
		return
	}
	vpAssert(vpMintEncAlg == "A128CBC-HS256" && vpMintEncKeyAlg == "dir", "user-token-is-direct-a128cbc-hs256")
	vpAssert(string(vpMintEncKey) == string(UserEncryptionKey), "user-token-encrypted-under-the-user-encryption-key")
	if len(UserSigningKey) > 0 {
		vpReach("nested")
		vpAssert(vpMintKind == 3, "signing-key-configured-gives-nested-token")
		vpAssert(vpMintSignerAlg == "HS256" && string(vpMintSignerKey) == string(UserSigningKey), "inner-signature-hs256-under-the-user-signing-key")
	} else {
		vpReach("enc")
		vpAssert(vpMintKind == 2, "no-signing-key-gives-encrypt-only-token")
	}
	vpAssert(vpMintClaims != nil, "claims-present")
	if vpMintClaims == nil {
		return
	}
	now := vpLastNow // the latest instant handed to the code (= the harness's presentation time if the code never asked)
	vpAssert(vpMintClaims.Subject == user && vpMintClaims.Issuer == "rdpgw", "subject-is-the-user-issuer-is-the-gateway")
	vpAssert(vpMintClaims.Expiry != nil, "has-expiry")
	if vpMintClaims.Expiry != nil {
		exp := int64(*vpMintClaims.Expiry)
		vpAssert(exp-now <= 300 && exp >= now, "user-token-expires-within-five-minutes")
	}
}

//vp:property C15
//vp:set loopmax 100000 100000
//vp:bounds a user token minted by GenerateUserToken in either key mode, for a user name of 2 symbolic bytes followed by 0, 300 or 700 filler bytes (names of every practical length: the token grows with the name), presented to UserInfo within ten seconds
//vp:assume the serialised token carries exactly the claims handed to the builder under the algorithms and keys handed to the encrypter/signer, and is longer than its subject (go-jose contract)
//vp:reach accepted
func VP_C15_mint_then_verify() {
	vpResetJose()
	vpSetKeys()
	if vpBool("encrypt-only") {
		UserSigningKey = nil
	}
	pad := []int{0, 300, 700}[vpIntRange("name-padding", 0, 2)]
	b := make([]byte, pad)
	for i := range b {
		b[i] = 'u'
	}
	user := vpStringN("user", 2) + string(b)
	tok, err := GenerateUserToken(vpCtxWith(nil, nil), user)
	vpAssume(err == nil && tok != "" && vpMintClaims != nil && vpMintClaims.Expiry != nil)
	minted := vpLastNow
	vpTokClaimsMade = true
	vpTokIssuer, vpTokSubject = vpMintClaims.Issuer, vpMintClaims.Subject
	vpTokExp, vpTokNbf, vpTokIat = vpMintClaims.Expiry, vpMintClaims.NotBefore, vpMintClaims.IssuedAt
	vpMintedToken = true
	defer func() { vpMintedToken = false }()
	claims, err := UserInfo(vpCtxWith(nil, nil), tok)
	vpAssume(vpLastNow <= minted+10)
	vpReach("accepted")
	vpAssert(err == nil, "a-freshly-minted-user-token-is-accepted")
	vpAssert(claims.Subject == user, "a-token-minted-for-a-user-yields-that-user")
}

//vp:property C12
//vp:set s 2 3
//vp:bounds query token class as in C02 (JWS or not, header algs, MAC key among gateway keys/foreign), issuer configured as any 3-byte string, token issuer "rdpgw"/any 5 bytes/empty, exp/nbf/iat arbitrary, now arbitrary
//vp:reach ok refused
func VP_C12_queryinfo() {
	vpResetJose()
	vpSetKeys()
	vpClaimLen = vpParam("s")
	issuer := vpStringN("cfg-issuer", 5)
	host, err := QueryInfo(vpCtxWith(nil, nil), vpStringN("qtoken", 3), issuer)
	vpObserveBool("ok", err == nil)
	if err != nil {
		vpReach("refused")
		vpAssert(host == "", "refused-query-token-yields-no-host")
		return
	}
	vpReach("ok")
	vpAssert(vpTokKind == 1 && vpTokSignedBy == vpKeyQuery, "query-token-mac-made-under-the-query-signing-key")
	for _, a := range vpTokAlgs {
		vpAssert(a == "HS256", "query-token-is-hs256")
	}
	vpAssert(issuer == "" || vpTokIssuer == issuer, "query-token-issuer-as-configured")
	now := vpLastNow // the latest instant handed to the code (= the harness's presentation time if the code never asked)
	if vpTokExp != nil {
		vpAssert(int64(*vpTokExp) >= now-60, "query-token-not-expired-beyond-leeway")
	}
	vpAssert(host == vpTokSubject, "host-is-the-verified-subject")
}

//vp:property C12 C02
//vp:bounds the same query token (a correctly described token as in VP_C12_queryinfo, expiry arbitrary) accepted once and then presented again at an arbitrary later instant
//vp:assume as VP_C12_queryinfo; go-cache contract for code that starts to remember things
//vp:reach second-ok second-refused
func VP_C12_queryinfo_twice() {
	vpResetJose()
	vpSetKeys()
	vpClaimLen = 2
	issuer := vpStringN("cfg-issuer", 5)
	tok := vpStringN("qtoken", 3)
	_, err1 := QueryInfo(vpCtxWith(nil, nil), tok, issuer)
	vpAssume(err1 == nil) // (a token refused the first time is VP_C12_queryinfo's business)
	vpParseCalls, vpSigAlgs, vpTokAlgs, vpClaimsKeyLog = 0, nil, nil, nil
	vpNow() // time passes: the second presentation happens at an arbitrary later instant
	presented := vpLastNow
	host2, err2 := QueryInfo(vpCtxWith(nil, nil), tok, issuer)
	vpObserveBool("ok1", err1 == nil)
	vpObserveBool("ok2", err2 == nil)
	if err2 != nil {
		vpReach("second-refused")
		return
	}
	vpReach("second-ok")
	// every acceptance stands on its own: signed by the query key, issued by the configured issuer, and not
	// expired at the moment of THIS presentation
	vpAssert(vpTokKind == 1 && vpTokSignedBy == vpKeyQuery, "query-token-mac-made-under-the-query-signing-key")
	vpAssert(issuer == "" || vpTokIssuer == issuer, "query-token-issuer-as-configured")
	if vpTokExp != nil {
		vpAssert(int64(*vpTokExp) >= presented-60, "query-token-not-expired-at-its-second-presentation")
	}
	vpAssert(host2 == vpTokSubject, "host-is-the-verified-subject")
}

//vp:property C12
//vp:set hosts 2 3
//vp:set affix 1 1
//vp:set user 2 3
//vp:set maxpaths 200000 900000
//vp:set budget 300 1500
//vp:bounds selection mode in {roundrobin, unsigned, any}; 1..hosts entries prefix++[placeholder[placeholder]]++suffix (an entry may carry the placeholder twice; the download handler substitutes the first, see VP_C12_download); non-empty user name <= user bytes; the file's host = chosen entry with the user substituted (any mode: arbitrary host <= 4 bytes); same client address at issuance and use; both VerifyClientIP settings
//vp:assume the IdP's userinfo subject equals the session user name (DESIGN 7.14): the tunnel user is taken from the IdP, the file host from the session
//vp:reach accepted
func VP_C12_accept() {
	mode := []string{"roundrobin", "unsigned", "any"}[vpIntRange("mode", 0, 2)]
	HostSelection = mode
	Hosts = vpHostList2(vpIntRange("nhosts", 1, vpParam("hosts")), vpParam("affix"), true)
	user := vpString("user", vpParam("user"))
	vpAssume(user != "")
	VerifyClientIP = vpBool("verify")
	sel := Hosts[vpIntRange("pick", 0, len(Hosts)-1)]
	if mode == "any" {
		sel = vpString("anyhost", 4)
	}
	fileHost := vpReplaceFirst(sel, vpPlaceholder, user) // what the download handler puts into file and token
	ip := vpStringN("ip", 2)
	// what CheckPAACookie leaves in the tunnel after accepting the token minted for that file
	id := identity.NewUser()
	id.SetUserName(user)
	id.SetAttribute(identity.AttrClientIp, ip)
	tun := &protocol.Tunnel{User: id, TargetServer: fileHost, RemoteAddr: ip}
	ok, _ := CheckSession(CheckHost)(vpCtxWith(tun, id), fileHost)
	vpReach("accepted")
	vpAssert(ok, "host-and-token-of-an-issued-file-are-accepted-by-the-tunnel-checks")
}

func vpStrContains(s, sub string) bool {
	if len(sub) == 0 {
		return false
	}
	r := false
	for i := 0; i+len(sub) <= len(s); i++ {
		r = vpOr(r, s[i:i+len(sub)] == sub)
	}
	return r
}
