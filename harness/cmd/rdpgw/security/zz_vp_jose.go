package security

// Contract stubs for go-jose / go-oidc / oauth2 / time (DESIGN.md Appendix C). What cannot be
// encoded (HMAC, AES, JSON, HTTP) is replaced by its documented contract; the claim is about the
// repo's decision logic around these calls: which key, which algorithm list, issuer, time and IdP
// answer it insists on.

import (
	"context"
	"errors"
	"time"

	"github.com/coreos/go-oidc/v3/oidc"
	"github.com/go-jose/go-jose/v4"
	"github.com/go-jose/go-jose/v4/jwt"
	"golang.org/x/oauth2"
)

//vp:all stub github.com/go-jose/go-jose/v4/jwt.ParseSigned = vpParseSigned
//vp:all stub github.com/go-jose/go-jose/v4/jwt.ParseEncrypted = vpParseEncrypted
//vp:all stub github.com/go-jose/go-jose/v4/jwt.ParseSignedAndEncrypted = vpParseSignedAndEncrypted
//vp:all stub (*github.com/go-jose/go-jose/v4/jwt.JSONWebToken).Claims = vpClaims
//vp:all stub (*github.com/go-jose/go-jose/v4/jwt.NestedJSONWebToken).Decrypt = vpDecrypt
//vp:all stub (*golang.org/x/oauth2.Config).TokenSource = vpTokenSource
//vp:all stub (*github.com/coreos/go-oidc/v3/oidc.Provider).UserInfo = vpUserInfo
//vp:all stub (*github.com/coreos/go-oidc/v3/oidc.UserInfo).Claims = vpUserInfoClaims
//vp:all stub (*github.com/coreos/go-oidc/v3/oidc.Provider).Verifier = vpProviderVerifier
//vp:all stub (*github.com/coreos/go-oidc/v3/oidc.IDTokenVerifier).Verify = vpOfflineVerify
//vp:all stub time.Now = vpNow
//vp:all stub github.com/go-jose/go-jose/v4.NewSigner = vpNewSigner
//vp:all stub github.com/go-jose/go-jose/v4.NewEncrypter = vpNewEncrypter
//vp:all stub github.com/go-jose/go-jose/v4/jwt.Signed = vpSigned
//vp:all stub github.com/go-jose/go-jose/v4/jwt.Encrypted = vpEncrypted
//vp:all stub github.com/go-jose/go-jose/v4/jwt.SignedAndEncrypted = vpSignedAndEncrypted

// ---- ghost state ----

const (
	vpKeyPAASign = iota // security.SigningKey
	vpKeyPAAEnc         // security.EncryptionKey
	vpKeyUserSign
	vpKeyUserEnc
	vpKeyQuery
	vpKeyForeign // a key the gateway does not hold
)

var (
	vpParseCalls   int
	vpSigAlgs      []string // allow-list handed to the parser
	vpKeyAlgs      []string
	vpEncAlgs      []string
	vpTokKind      int  // 0 none, 1 signed, 2 encrypted, 3 nested
	vpTokSignedBy  int  // which key made the MAC of the (inner) JWS
	vpTokEncBy     int  // which key encrypted the JWE
	vpTokAlgs      []string
	vpClaimsKeyLog [][]byte
	vpIdpToken     string
	vpIdpCalls     int
	vpIdpHonoured  bool // some request to the IdP about the presented token was answered positively
	vpIdpTimeouts  int // requests to the IdP that ran into the caller's deadline
	vpNowCalls     int
	// claims carried by the token under test (symbolic)
	vpTokIssuer  string
	vpTokSubject string
	vpTokExp     *jwt.NumericDate
	vpTokNbf     *jwt.NumericDate
	vpTokIat     *jwt.NumericDate
	vpTokCustom  customClaims
)

func vpResetJose() {
	// entries of caches the package may keep do not survive from one run of a harness to the next
	for _, m := range vpGoCaches {
		for k := range m {
			delete(m, k)
		}
	}
	vpGoCacheLookups = 0
	vpParseCalls, vpSigAlgs, vpKeyAlgs, vpEncAlgs = 0, nil, nil, nil
	vpTokKind, vpTokSignedBy, vpTokEncBy, vpTokAlgs = 0, 0, 0, nil
	vpClaimsKeyLog, vpIdpToken, vpIdpCalls = nil, "", 0
	vpIdpTimeouts, vpIdpHonoured = 0, false
	vpOfflineVerifies = 0
	// the clock keeps running across harness set-up: the presentation happens at vpCurTime, which is
	// not before anything the package did at initialisation
	if !vpInitCaptured {
		vpInitCaptured, vpInitLast = true, vpLastNow // whatever package initialisation asked the clock
	}
	vpLastNow = vpInitLast
	vpNowCalls = 0
	vpCurTime = vpNow().Unix()
	vpTokIssuer, vpTokSubject, vpTokExp, vpTokNbf, vpTokIat = "", "", nil, nil, nil
	vpTokCustom = customClaims{}
	vpTokLacks, vpTokNoIssuer = [3]bool{}, false
	vpTokClaimsMade = false
	vpIdpAsked, vpPresentation = [2]bool{}, 0
	vpMintSignerAlg, vpMintSignerKey, vpMintEncAlg, vpMintEncKeyAlg, vpMintEncKey = "", nil, "", "", nil
	vpMintClaims, vpMintPrivate, vpMintKind, vpMintSerialized = nil, nil, 0, 0
}

// distinct 32-byte keys
func vpKey(c byte) []byte {
	k := make([]byte, 32)
	for i := range k {
		k[i] = c
	}
	return k
}

func vpSetKeys() {
	SigningKey = vpKey('S')
	EncryptionKey = vpKey('E')
	UserSigningKey = vpKey('u')
	UserEncryptionKey = vpKey('U')
	QuerySigningKey = vpKey('Q')
}

func vpKeyIs(key interface{}, want []byte) bool {
	b, ok := key.([]byte)
	return ok && len(want) > 0 && string(b) == string(want)
}

func vpKeyBytes(sel int) []byte {
	switch sel {
	case vpKeyPAASign:
		return SigningKey
	case vpKeyPAAEnc:
		return EncryptionKey
	case vpKeyUserSign:
		return UserSigningKey
	case vpKeyUserEnc:
		return UserEncryptionKey
	case vpKeyQuery:
		return QuerySigningKey
	}
	return nil
}

// vpSymDate: a NumericDate that is absent or an arbitrary second in 1970..2200.
func vpSymDate(name string) *jwt.NumericDate {
	if !vpBool(name + "-present") {
		return nil
	}
	s := vpU64(name)
	vpAssume(s < 7258118400)
	d := jwt.NumericDate(int64(s))
	return &d
}

func vpSymAlg(name string) string {
	// the algorithms a JOSE header can name; "HS256" is the one the gateway uses
	return []string{"HS256", "none", "HS384", "HS512", "RS256", ""}[vpIntRange(name, 0, 5)]
}

func vpContains(l []string, s string) bool {
	for _, x := range l {
		if x == s {
			return true
		}
	}
	return false
}

// jwt.ParseSigned: fails unless the string is a compact JWS whose alg is in the allow-list.
func vpParseSigned(s string, algs []jose.SignatureAlgorithm) (*jwt.JSONWebToken, error) {
	vpParseCalls++
	for _, a := range algs {
		vpSigAlgs = append(vpSigAlgs, string(a))
	}
	if vpMintedToken {
		// the token GeneratePAAToken just produced: a compact JWS under the signer's algorithm and key
		if !vpContains(vpSigAlgs, vpMintedAlg) {
			return nil, errors.New("vp: unexpected signature algorithm")
		}
		vpTokAlgs = []string{vpMintedAlg}
		vpTokKind = 1
		vpTokSignedBy = vpKeyForeign
		if vpMintedKeyIs {
			vpTokSignedBy = vpKeyPAASign
		}
		return &jwt.JSONWebToken{Headers: []jose.Header{{Algorithm: vpMintedAlg}}}, nil
	}
	if vpIdpPerCall {
		// history harness: a correctly signed, unexpired gateway cookie
		// (vpPresentation is set by the harness before each presentation)
		vpTokAlgs = []string{"HS256"}
		vpTokKind, vpTokSignedBy = 1, vpKeyPAASign
		if !vpTokClaimsMade {
			vpTokClaimsMade = true
			vpTokIssuer, vpTokCustom = "rdpgw", customClaims{RemoteServer: "h", ClientIP: "a", AccessToken: vpStringN("c-at", 2)}
		}
		return &jwt.JSONWebToken{Headers: []jose.Header{{Algorithm: "HS256"}}}, nil
	}
	if !vpBool("is-compact-jws") {
		return nil, errors.New("vp: not a compact JWS")
	}
	n := vpIntRange("nheaders", 1, 2)
	tok := &jwt.JSONWebToken{}
	for i := 0; i < n; i++ {
		alg := vpSymAlg("alg" + vpItoa(i))
		if !vpContains(vpSigAlgs, alg) {
			return nil, errors.New("vp: unexpected signature algorithm")
		}
		vpTokAlgs = append(vpTokAlgs, alg)
		tok.Headers = append(tok.Headers, jose.Header{Algorithm: alg})
	}
	vpTokKind = 1
	vpTokSignedBy = vpIntRange("signed-by", 0, vpKeyForeign)
	return tok, nil
}

func vpParseEncrypted(s string, keyAlgs []jose.KeyAlgorithm, encs []jose.ContentEncryption) (*jwt.JSONWebToken, error) {
	vpParseCalls++
	for _, a := range keyAlgs {
		vpKeyAlgs = append(vpKeyAlgs, string(a))
	}
	for _, a := range encs {
		vpEncAlgs = append(vpEncAlgs, string(a))
	}
	if vpMintedToken {
		// the token GenerateUserToken just produced
		if !vpContains(vpKeyAlgs, vpMintEncKeyAlg) || !vpContains(vpEncAlgs, vpMintEncAlg) {
			return nil, errors.New("vp: unexpected encryption algorithms")
		}
		vpTokKind = vpMintKind
		vpTokEncBy = vpKeyForeign
		if string(vpMintEncKey) == string(UserEncryptionKey) {
			vpTokEncBy = vpKeyUserEnc
		}
		return &jwt.JSONWebToken{}, nil
	}
	if !vpBool("is-compact-jwe") {
		return nil, errors.New("vp: not a compact JWE with allowed algorithms")
	}
	if vpBool("jwe-content-is-nested-jws") {
		// a sign-then-encrypt token has cty=JWT; ParseEncrypted still parses it, but its payload is a JWS string, not claims
		vpTokKind = 3
	} else {
		vpTokKind = 2
	}
	vpTokEncBy = vpIntRange("enc-by", 0, vpKeyForeign)
	return &jwt.JSONWebToken{}, nil
}

func vpParseSignedAndEncrypted(s string, keyAlgs []jose.KeyAlgorithm, encs []jose.ContentEncryption, sigAlgs []jose.SignatureAlgorithm) (*jwt.NestedJSONWebToken, error) {
	vpParseCalls++
	for _, a := range keyAlgs {
		vpKeyAlgs = append(vpKeyAlgs, string(a))
	}
	for _, a := range encs {
		vpEncAlgs = append(vpEncAlgs, string(a))
	}
	for _, a := range sigAlgs {
		vpSigAlgs = append(vpSigAlgs, string(a))
	}
	if vpMintedToken {
		if vpMintKind != 3 || !vpContains(vpKeyAlgs, vpMintEncKeyAlg) || !vpContains(vpEncAlgs, vpMintEncAlg) {
			return nil, errors.New("vp: not a nested JWT with allowed algorithms")
		}
		vpTokKind = 3
		vpTokEncBy = vpKeyForeign
		if string(vpMintEncKey) == string(UserEncryptionKey) {
			vpTokEncBy = vpKeyUserEnc
		}
		return &jwt.NestedJSONWebToken{}, nil
	}
	// contract: fails unless compact JWE with allowed algorithms AND content type "JWT" (nested)
	if !vpBool("is-compact-jwe") || !vpBool("jwe-content-is-nested-jws") {
		return nil, errors.New("vp: not a nested JWT")
	}
	vpTokKind = 3
	vpTokEncBy = vpIntRange("enc-by", 0, vpKeyForeign)
	return &jwt.NestedJSONWebToken{}, nil
}

// Decrypt: fails unless the key decrypts the JWE and the inner string is a JWS with an allowed alg.
func vpDecrypt(t *jwt.NestedJSONWebToken, key interface{}) (*jwt.JSONWebToken, error) {
	if vpTokEncBy == vpKeyForeign || !vpKeyIs(key, vpKeyBytes(vpTokEncBy)) {
		return nil, errors.New("vp: decryption failed")
	}
	if vpMintedToken {
		if !vpContains(vpSigAlgs, vpMintSignerAlg) {
			return nil, errors.New("vp: unexpected inner signature algorithm")
		}
		vpTokAlgs = append(vpTokAlgs, vpMintSignerAlg)
		vpTokSignedBy = vpKeyForeign
		if string(vpMintSignerKey) == string(UserSigningKey) {
			vpTokSignedBy = vpKeyUserSign
		}
		return &jwt.JSONWebToken{Headers: []jose.Header{{Algorithm: vpMintSignerAlg}}}, nil
	}
	alg := vpSymAlg("inner-alg")
	if !vpContains(vpSigAlgs, alg) {
		return nil, errors.New("vp: unexpected inner signature algorithm")
	}
	vpTokAlgs = append(vpTokAlgs, alg)
	vpTokSignedBy = vpIntRange("signed-by", 0, vpKeyForeign)
	return &jwt.JSONWebToken{Headers: []jose.Header{{Algorithm: alg}}}, nil
}

// Claims: fails unless the MAC verifies (signed) / the key decrypts (encrypted) under key; on
// success fills the destinations from the verified payload only.
func vpClaims(t *jwt.JSONWebToken, key interface{}, dest ...interface{}) error {
	if b, ok := key.([]byte); ok {
		vpClaimsKeyLog = append(vpClaimsKeyLog, b)
	} else {
		vpClaimsKeyLog = append(vpClaimsKeyLog, nil)
	}
	switch {
	case len(t.Headers) > 0: // a JWS (outer or inner)
		if vpTokSignedBy == vpKeyForeign || !vpKeyIs(key, vpKeyBytes(vpTokSignedBy)) {
			return errors.New("vp: signature verification failed")
		}
	case vpTokKind == 2:
		if vpTokEncBy == vpKeyForeign || !vpKeyIs(key, vpKeyBytes(vpTokEncBy)) {
			return errors.New("vp: decryption failed")
		}
	case vpTokKind == 3:
		// payload of a nested token is a JWS string: even when the key decrypts, unmarshalling claims fails
		return errors.New("vp: payload is not a JSON object")
	default:
		return errors.New("vp: no token")
	}
	if !vpTokClaimsMade {
		vpSymClaims(vpClaimLen)
	}
	// JSON decoding fills what the payload carries and leaves every other field of the destination untouched
	for _, d := range dest {
		switch c := d.(type) {
		case *jwt.Claims:
			if !vpTokNoIssuer {
				c.Issuer = vpTokIssuer
			}
			c.Subject = vpTokSubject
			if vpTokExp != nil {
				c.Expiry = vpTokExp
			}
			if vpTokNbf != nil {
				c.NotBefore = vpTokNbf
			}
			if vpTokIat != nil {
				c.IssuedAt = vpTokIat
			}
		case *customClaims:
			if !vpTokLacks[0] {
				c.RemoteServer = vpTokCustom.RemoteServer
			}
			if !vpTokLacks[1] {
				c.ClientIP = vpTokCustom.ClientIP
			}
			if !vpTokLacks[2] {
				c.AccessToken = vpTokCustom.AccessToken
			}
		default:
			// any other destination: encoding/json's rules applied to its static type
			if err := vpJSONDecodeObject(d, vpTokMembers()); err != nil {
				return err
			}
		}
	}
	return nil
}

// vpTokLacks: the payload carries no remoteServer / clientIp / accessToken member (a validly signed
// token of an unusual shape); vpTokNoIssuer: no iss member.
var vpTokLacks [3]bool
var vpTokNoIssuer bool

func vpTokMembers() []vpJSONMember {
	var ms []vpJSONMember
	if !vpTokNoIssuer {
		ms = append(ms, vpJSONMember{Name: "iss", S: vpTokIssuer})
	}
	ms = append(ms, vpJSONMember{Name: "sub", S: vpTokSubject})
	if vpTokExp != nil {
		ms = append(ms, vpJSONMember{Name: "exp", Kind: 1, N: int64(*vpTokExp)})
	}
	if vpTokNbf != nil {
		ms = append(ms, vpJSONMember{Name: "nbf", Kind: 1, N: int64(*vpTokNbf)})
	}
	if vpTokIat != nil {
		ms = append(ms, vpJSONMember{Name: "iat", Kind: 1, N: int64(*vpTokIat)})
	}
	if !vpTokLacks[0] {
		ms = append(ms, vpJSONMember{Name: "remoteServer", S: vpTokCustom.RemoteServer})
	}
	if !vpTokLacks[1] {
		ms = append(ms, vpJSONMember{Name: "clientIp", S: vpTokCustom.ClientIP})
	}
	if !vpTokLacks[2] {
		ms = append(ms, vpJSONMember{Name: "accessToken", S: vpTokCustom.AccessToken})
	}
	return ms
}

// vpSymClaims chooses the (symbolic) claims the verified payload carries. It runs lazily, when
// the code under test first obtains claims, so that rejected-before-verification paths do not fork on it.
// Strings have a fixed length n with symbolic content (their length plays no role in this logic);
// the issuer is "rdpgw", a 5-byte symbolic string (all near-misses of "rdpgw") or empty.
var vpTokClaimsMade bool
var vpClaimLen = 2

func vpSymClaims(n int) {
	vpTokClaimsMade = true
	switch vpIntRange("issuer-kind", 0, 2) {
	case 0:
		vpTokIssuer = "rdpgw"
	case 1:
		vpTokIssuer = vpStringN("issuer", 5)
		vpAssume(vpTokIssuer[0] >= 0x80)
	case 2:
		vpTokIssuer = ""
	}
	vpTokSubject = vpStringN("subject", n)
	for i := 0; i < len(vpTokSubject); i++ {
		vpAssume(vpTokSubject[i] >= 0x80) // cannot coincide with the fixed text of an error message
	}
	vpTokExp = vpSymDate("exp")
	vpTokNbf = vpSymDate("nbf")
	vpTokIat = vpSymDate("iat")
	vpTokCustom = customClaims{RemoteServer: vpStringN("c-server", n), ClientIP: vpStringN("c-ip", n), AccessToken: vpStringN("c-at", n)}
	// the access token may be a JWT itself (keycloak, azure, okta hand out such access tokens)
	if vpBool("access-token-is-jwt-shaped") {
		vpTokCustom.AccessToken = "h." + vpTokCustom.AccessToken + ".s"
	}
	// a token may have been issued with an empty recorded address or host (e.g. an X-Forwarded-For whose
	// first element is empty): the binding must then be to the empty string, not to whatever was there
	if vpBool("c-ip-empty") {
		vpTokCustom.ClientIP = ""
	}
	if vpBool("c-server-empty") {
		vpTokCustom.RemoteServer = ""
	}
}

type vpTS struct{ tok *oauth2.Token }

func (t vpTS) Token() (*oauth2.Token, error) { return t.tok, nil }

func vpTokenSource(c *oauth2.Config, ctx context.Context, t *oauth2.Token) oauth2.TokenSource {
	return vpTS{t}
}

// go-oidc's offline verification (signature against the provider's published keys, issuer, expiry; the
// audience check unless switched off): it says nothing about whether the provider still honours the
// token (revocation, logout) — no request is made.
var vpOfflineVerifies int

func vpProviderVerifier(p *oidc.Provider, c *oidc.Config) *oidc.IDTokenVerifier { return &oidc.IDTokenVerifier{} }
func vpOfflineVerify(v *oidc.IDTokenVerifier, ctx context.Context, raw string) (*oidc.IDToken, error) {
	vpOfflineVerifies++
	if !vpBool("token-verifies-offline-" + vpItoa(vpOfflineVerifies)) {
		return nil, errors.New("vp: oidc: failed to verify signature")
	}
	return &oidc.IDToken{Subject: vpStringN("offline-sub", 2)}, nil
}

// UserInfo: error unless the IdP honours the access token.
func vpUserInfo(p *oidc.Provider, ctx context.Context, ts oauth2.TokenSource) (*oidc.UserInfo, error) {
	vpIdpCalls++
	if v, ok := ts.(vpTS); ok && v.tok != nil {
		vpIdpToken = v.tok.AccessToken
	}
	if vpIdpPerCall {
		vpIdpAsked[vpPresentation] = true
	}
	if vpIdpByToken != nil {
		// an identity provider with sessions: the verdict belongs to the access token it is shown; the answer
		// about one of them takes long enough for the gateway to serve other tunnels meanwhile
		tok := vpIdpToken
		vpIdpShown = append(vpIdpShown, tok)
		if tok == vpIdpSlowToken {
			if vpIdpSlowEntered != nil {
				close(vpIdpSlowEntered) // the other presentation starts now
				vpIdpSlowEntered = nil
			}
			if vpSymbolic() {
				vpRunTasks()
			} else {
				// native replay: wait until the other presentation has been judged (or gave up waiting for us)
				select {
				case <-vpIdpOtherDone:
				case <-time.After(300 * time.Millisecond):
				}
			}
		}
		if !vpIdpByToken[tok] {
			return nil, errors.New("vp: IdP refuses the access token")
		}
		return &oidc.UserInfo{Subject: "sub"}, nil
	}
	// an identity provider that does not answer before the caller's deadline (if the caller set one)
	if _, has := ctx.Deadline(); has && vpBool("idp-silent-until-the-deadline-"+vpItoa(vpIdpCalls)) {
		vpCtxExpire(ctx)
		vpIdpTimeouts++
		return nil, context.DeadlineExceeded
	}
	if vpIdpPerCall {
		// history harness: an independent verdict per presentation
		if !vpBool("idp-honours-token-" + vpItoa(vpIdpCalls)) {
			return nil, errors.New("vp: IdP refuses the access token")
		}
		return &oidc.UserInfo{Subject: "sub"}, nil
	}
	if !vpBool("idp-honours-token") {
		return nil, errors.New("vp: IdP refuses the access token")
	}
	vpIdpHonoured = true
	return &oidc.UserInfo{Subject: vpStringN("idp-sub", 2)}, nil
}

var (
	vpIdpByToken   map[string]bool
	vpIdpSlowToken string
	vpIdpShown     []string
	vpIdpSlowEntered, vpIdpOtherDone chan struct{}
	vpMintedToken  bool
	vpMintedAlg    string
	vpMintedKeyIs  bool
	vpIdpPerCall   bool
	vpIdpAsked     [2]bool
	vpPresentation int
)

// time.Now: arbitrary instant between 2001 and 2100, non-decreasing.
var vpLastNow int64
var vpInitLast int64
var vpInitCaptured bool
var vpCurTime int64 // the instant at which the harness presents the token (<= every later time.Now)

func vpNow() time.Time {
	if !vpInitCaptured {
		// asked during package initialisation, before any harness runs: the earliest instant
		vpNowCalls++
		vpLastNow = 978307200
		return time.Unix(vpLastNow, 0)
	}
	vpNowCalls++
	s := int64(vpU64("now" + vpItoa(vpNowCalls)))
	vpAssume(s >= 978307200 && s <= 4102444800)
	if vpNowCalls > 1 || vpLastNow != 0 {
		vpAssume(s >= vpLastNow)
	}
	vpLastNow = s
	return time.Unix(s, 0)
}

// ---- minting side ----

var (
	vpMintSignerAlg  string
	vpMintSignerKey  []byte
	vpMintEncAlg     string
	vpMintEncKeyAlg  string
	vpMintEncKey     []byte
	vpMintClaims     *jwt.Claims
	vpMintPrivate    *customClaims
	vpMintKind       int // 1 signed, 2 encrypted, 3 signed-and-encrypted
	vpMintSerialized int
)

type vpSigner struct{}

func (vpSigner) Sign(payload []byte) (*jose.JSONWebSignature, error) { return nil, errors.New("vp") }
func (vpSigner) Options() jose.SignerOptions                         { return jose.SignerOptions{} }

type vpEncrypter struct{}

func (vpEncrypter) Encrypt(p []byte) (*jose.JSONWebEncryption, error) { return nil, errors.New("vp") }
func (vpEncrypter) EncryptWithAuthData(p, a []byte) (*jose.JSONWebEncryption, error) {
	return nil, errors.New("vp")
}
func (vpEncrypter) Options() jose.EncrypterOptions { return jose.EncrypterOptions{} }

func vpNewSigner(sig jose.SigningKey, opts *jose.SignerOptions) (jose.Signer, error) {
	vpMintSignerAlg = string(sig.Algorithm)
	if k, ok := sig.Key.([]byte); ok {
		vpMintSignerKey = k
	}
	if vpBool("newsigner-fails") {
		return nil, errors.New("vp: NewSigner failed")
	}
	return vpSigner{}, nil
}

func vpNewEncrypter(enc jose.ContentEncryption, rcpt jose.Recipient, opts *jose.EncrypterOptions) (jose.Encrypter, error) {
	vpMintEncAlg = string(enc)
	vpMintEncKeyAlg = string(rcpt.Algorithm)
	if k, ok := rcpt.Key.([]byte); ok {
		vpMintEncKey = k
	}
	if vpBool("newencrypter-fails") {
		return nil, errors.New("vp: NewEncrypter failed")
	}
	return vpEncrypter{}, nil
}

type vpBuilder struct{}

func (b vpBuilder) Claims(i interface{}) jwt.Builder {
	switch c := i.(type) {
	case jwt.Claims:
		cc := c
		vpMintClaims = &cc
	case customClaims:
		cc := c
		vpMintPrivate = &cc
	default:
		vpUnsupported("builder claims type")
	}
	return b
}
func (b vpBuilder) Token() (*jwt.JSONWebToken, error) { return nil, errors.New("vp") }
func (b vpBuilder) Serialize() (string, error) {
	vpMintSerialized++
	if vpBool("serialize-fails") {
		return "", errors.New("vp: serialize failed")
	}
	return vpTokenText(), nil
}

// vpTokenText: the compact serialisation. Its content is opaque to the stubs (the token is described
// by ghost state), but its LENGTH is faithful in one respect: a token is longer than the claims it carries.
func vpTokenText() string {
	t := "vp.token." + vpItoa(vpMintKind) + "."
	if vpMintClaims != nil {
		t += vpMintClaims.Subject
	}
	if vpMintPrivate != nil {
		t += "." + vpMintPrivate.RemoteServer + "." + vpMintPrivate.ClientIP + "." + vpMintPrivate.AccessToken
	}
	return t
}

type vpNestedBuilder struct{}

func (b vpNestedBuilder) Claims(i interface{}) jwt.NestedBuilder {
	if c, ok := i.(jwt.Claims); ok {
		cc := c
		vpMintClaims = &cc
	} else {
		vpUnsupported("nested builder claims type")
	}
	return b
}
func (b vpNestedBuilder) Token() (*jwt.NestedJSONWebToken, error) { return nil, errors.New("vp") }
func (b vpNestedBuilder) Serialize() (string, error) {
	vpMintSerialized++
	if vpBool("serialize-fails") {
		return "", errors.New("vp: serialize failed")
	}
	return vpTokenText(), nil
}

func vpSigned(sig jose.Signer) jwt.Builder {
	vpMintKind = 1
	return vpBuilder{}
}
func vpEncrypted(enc jose.Encrypter) jwt.Builder {
	vpMintKind = 2
	return vpBuilder{}
}
func vpSignedAndEncrypted(sig jose.Signer, enc jose.Encrypter) jwt.NestedBuilder {
	vpMintKind = 3
	return vpNestedBuilder{}
}


// UserInfo.Claims: the identity provider's answer as a JSON object. Besides "sub" it names the user the
// way THIS provider does (preferred_username): that need not be the string the gateway put into the
// cookie's subject (the download endpoint may have split off the domain, and "sub" is often an opaque id).
func vpUserInfoClaims(u *oidc.UserInfo, v interface{}) error {
	m, ok := v.(*map[string]interface{})
	if !ok {
		vpUnsupported("UserInfo.Claims into something else than *map[string]interface{}")
	}
	*m = map[string]interface{}{"sub": u.Subject, "preferred_username": vpStringN("idp-user-name", 2)}
	return nil
}
