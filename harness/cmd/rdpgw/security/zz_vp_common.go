package security

// Shared harness scaffolding for package security (overlay only).

//vp:use gocache
//vp:all model regexp.MustCompile = vpmRegexpMustCompile
//vp:all model (*regexp.Regexp).ReplaceAllString = vpmRegexpReplaceAllString

import (
	"context"
	"strconv"

	"github.com/bolkedebruin/rdpgw/cmd/rdpgw/identity"
	"github.com/bolkedebruin/rdpgw/cmd/rdpgw/protocol"
	"github.com/google/uuid"
)

//vp:all model github.com/google/uuid.New = vpmUUIDNew

func vpmUUIDNew() uuid.UUID { return uuid.UUID{} }

func vpItoa(i int) string { return strconv.Itoa(i) }

// vpCtxWith builds the request context the gateway handlers build: tunnel + identity.
func vpCtxWith(t *protocol.Tunnel, id identity.Identity) context.Context {
	ctx := context.Background()
	if t != nil {
		ctx = context.WithValue(ctx, protocol.CtxTunnel, t)
	}
	if id != nil {
		ctx = context.WithValue(ctx, identity.CTXKey, id)
	}
	return ctx
}

const vpPlaceholder = "{{ preferred_username }}"

// vpReplaceFirst is the harness's own first-occurrence replacement (plain loops).
func vpReplaceFirst(s, old, new string) string {
	for i := 0; i+len(old) <= len(s); i++ {
		if s[i:i+len(old)] == old {
			return s[:i] + new + s[i+len(old):]
		}
	}
	return s
}
