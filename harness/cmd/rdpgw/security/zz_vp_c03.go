package security

// C03 (policy part) and C04 (address binding): security.CheckHost and CheckSession.

import (
	"context"

	"github.com/bolkedebruin/rdpgw/cmd/rdpgw/identity"
	"github.com/bolkedebruin/rdpgw/cmd/rdpgw/protocol"
)

// vpHostList: n entries, each prefix ++ [placeholder] ++ suffix with symbolic short affixes.
func vpHostList(n, affix int) []string { return vpHostList2(n, affix, false) }

// vpHostList2: with twice, an entry may carry the placeholder two times in a row.
func vpHostList2(n, affix int, twice bool) []string {
	var hs []string
	for i := 0; i < n; i++ {
		is := vpItoa(i)
		h := vpString("pre"+is, affix)
		if vpBool("ph" + is) {
			h += vpPlaceholder
			if twice && vpBool("ph-twice"+is) {
				h += vpPlaceholder
			}
		}
		h += vpString("suf"+is, affix)
		hs = append(hs, h)
	}
	return hs
}

//vp:property C03 C12
//vp:set hosts 2 3
//vp:set affix 1 1
//vp:set user 2 3
//vp:set host 4 5
//vp:set maxpaths 200000 900000
//vp:set budget 300 1500
//vp:bounds host-selection mode in {any, signed, roundrobin, unsigned, other}; 0..hosts entries of the form prefix++[placeholder]++suffix with symbolic affixes of <= affix bytes; user name <= user bytes incl. empty; requested host <= host bytes (all byte values)
//vp:reach allowed denied any signed
func VP_C03_policy() {
	mode := []string{"any", "signed", "roundrobin", "unsigned", "bogus"}[vpIntRange("mode", 0, 4)]
	HostSelection = mode
	Hosts = vpHostList(vpIntRange("nhosts", 0, vpParam("hosts")), vpParam("affix"))
	user := vpString("user", vpParam("user"))
	host := vpString("host", vpParam("host"))
	id := identity.NewUser()
	id.SetUserName(user)
	tun := &protocol.Tunnel{User: id}
	before := append([]string{}, Hosts...) // main.go hands the same slice to the download handler
	ok, _ := CheckHost(vpCtxWith(tun, id), host)
	vpObserveBool("ok", ok)
	vpAssert(len(Hosts) == len(before), "a-host-check-leaves-the-configured-host-list-alone")
	for i := range before {
		if i < len(Hosts) {
			vpAssert(Hosts[i] == before[i], "a-host-check-leaves-the-configured-host-list-alone")
		}
	}

	// oracle from the property text
	want := false
	switch mode {
	case "any":
		vpReach("any")
		want = true
	case "signed":
		vpReach("signed")
		want = false
	case "roundrobin", "unsigned":
		if user != "" {
			for _, h := range Hosts {
				if vpReplaceFirst(h, vpPlaceholder, user) == host {
					want = true
				}
			}
		}
	}
	vpAssert(ok == want, "host-allowed-iff-policy-allows-it")
	if ok {
		vpReach("allowed")
	} else {
		vpReach("denied")
	}
}

//vp:property C03 C07
//vp:flag lockset lockset-repo-sites
//vp:bounds two tunnels of two different users (names of 1..2 symbolic bytes) have their hosts checked at the same time against a list with one templated entry ("pc-" + placeholder) and one plain entry; each asks for a host of <= 4 symbolic bytes... or for the other user's rendered entry
//vp:assume lockset: any two accesses by repository code to the same location from the two checks, one of them a write, without a common mutex, are a race (replayed natively under the race detector); and each check, run alone, must give the verdict of the property
//vp:reach done
func VP_C03_policy_concurrent() {
	vpThread("setup")
	HostSelection = []string{"roundrobin", "unsigned"}[vpIntRange("mode", 0, 1)]
	Hosts = []string{"pc-" + vpPlaceholder, "shared.example"}
	users := [2]string{vpString("user-a", 2), vpString("user-b", 2)}
	vpAssume(len(users[0]) >= 1 && len(users[1]) >= 1 && users[0] != users[1])
	hosts := [2]string{"pc-" + users[1], "pc-" + users[0]} // each asks for the OTHER user's machine ...
	if vpBool("a-asks-for-its-own") {
		hosts[0] = "pc-" + users[0]
	}
	if vpBool("b-asks-for-the-shared-host") {
		hosts[1] = "shared.example"
	}
	var oks [2]bool
	check := func(i int) {
		id := identity.NewUser()
		id.SetUserName(users[i])
		tun := &protocol.Tunnel{User: id}
		oks[i], _ = CheckHost(vpCtxWith(tun, id), hosts[i])
	}
	vpPar(func() {
		vpThread("A")
		check(0)
	}, func() {
		vpThread("B")
		check(1)
	})
	vpThread("setup")
	vpReach("done")
	for i := 0; i < 2; i++ {
		want := hosts[i] == "pc-"+users[i] || hosts[i] == "shared.example"
		vpAssert(oks[i] == want, "each-users-host-is-checked-against-the-list-rendered-for-that-user")
	}
}

//vp:property C03 C07
//vp:bounds host list with one templated entry (placeholder + "-ws"); user P (4 symbolic bytes) has its own workstation checked and is allowed; then user Q (2 symbolic bytes, another name) asks for a host of 6 symbolic bytes + "-ws"
//vp:assume list-based selection; whatever the package remembers between the two checks (the unchanged package remembers nothing)
//vp:reach second-judged
func VP_C03_policy_history() {
	HostSelection = "roundrobin"
	Hosts = []string{vpPlaceholder + "-ws"}
	check := func(user, host string) bool {
		id := identity.NewUser()
		id.SetUserName(user)
		ok, _ := CheckHost(vpCtxWith(&protocol.Tunnel{User: id}, id), host)
		return ok
	}
	p, q := vpStringN("user-p", 4), vpStringN("user-q", 2)
	hostQ := vpStringN("host-asked-by-q", 6) + "-ws"
	first := check(p, p+"-ws")
	vpAssert(first, "a-users-own-rendered-entry-is-allowed")
	second := check(q, hostQ)
	vpReach("second-judged")
	vpAssert(second == (hostQ == q+"-ws"), "a-later-check-is-judged-by-the-list-rendered-for-its-own-user-only")
}

//vp:property C04 C07
//vp:bounds the same binding (user "u", token host "h", token address "a1") presented twice on tunnels of their own: first from the address it was issued to, then from another address ("a2") — or the other way round; the inner policy allows; VerifyClientIP on
//vp:assume go-cache contract for code that starts to remember things (the unchanged package has no cache)
//vp:reach both-judged
func VP_C04_session_history() {
	VerifyClientIP = true
	HostSelection = "roundrobin"
	chk := CheckSession(func(ctx context.Context, h string) (bool, error) { return true, nil })
	present := func(from string) bool {
		id := identity.NewUser()
		id.SetUserName("u")
		id.SetAttribute(identity.AttrClientIp, from)
		tun := &protocol.Tunnel{User: id, TargetServer: "h", RemoteAddr: "a1"}
		ok, _ := chk(vpCtxWith(tun, id), "h")
		return ok
	}
	order := vpIntRange("owner-first", 0, 1)
	var owner, other bool
	if order == 1 {
		owner = present("a1")
		other = present("a2")
	} else {
		other = present("a2")
		owner = present("a1")
	}
	vpReach("both-judged")
	vpAssert(owner, "the-address-the-token-was-issued-to-is-accepted")
	vpAssert(!other, "another-address-is-refused-whatever-was-accepted-before")
}

//vp:property C03 C04
//vp:set s 3 5
//vp:bounds requested host, token host, token address, presenting address: strings of <= s bytes; client-address attribute present-as-string / absent / non-string; both settings of VerifyClientIP; every host selection mode (any, signed, roundrobin, unsigned, unset); the inner policy is an arbitrary accept/refuse
//vp:reach accept refuse-host refuse-addr
func VP_C04_session() {
	n := vpParam("s")
	host := vpString("host", n)
	thost := vpString("thost", n)
	taddr := vpString("taddr", n)
	VerifyClientIP = vpBool("verify")
	// the configured host selection mode must not matter to the token checks
	HostSelection = []string{"any", "signed", "roundrobin", "unsigned", ""}[vpIntRange("hostselection", 0, 4)]
	id := identity.NewUser()
	attr := vpIntRange("attr", 0, 2)
	caddr := ""
	switch attr {
	case 0:
		caddr = vpString("caddr", n)
		id.SetAttribute(identity.AttrClientIp, caddr)
	case 1: // attribute absent
	case 2:
		id.SetAttribute(identity.AttrClientIp, 7) // not a string
	}
	tun := &protocol.Tunnel{User: id, TargetServer: thost, RemoteAddr: taddr}
	inner := vpBool("policy")
	called := 0
	innerArg := ""
	chk := CheckSession(func(ctx context.Context, h string) (bool, error) {
		called++
		innerArg = h
		return inner, nil
	})
	ok, _ := chk(vpCtxWith(tun, id), host)
	vpObserveBool("ok", ok)

	addrOK := !VerifyClientIP || (attr == 0 && caddr == taddr)
	want := host == thost && addrOK && inner
	vpAssert(ok == want, "session-accepts-iff-token-host-and-address-match-and-policy-allows")
	if called > 0 {
		vpAssert(innerArg == host, "policy-sees-the-requested-host")
		vpAssert(host == thost && addrOK, "policy-consulted-only-after-token-checks")
	}
	if ok {
		vpReach("accept")
	} else if host != thost {
		vpReach("refuse-host")
	} else if !addrOK {
		vpReach("refuse-addr")
	}
	// no tunnel in the context at all: refused
}

//vp:property C03
//vp:bounds a context that carries no tunnel
func VP_C03_session_notunnel() {
	chk := CheckSession(func(ctx context.Context, h string) (bool, error) { return true, nil })
	ok, _ := chk(vpCtxWith(nil, identity.NewUser()), vpString("host", 3))
	vpAssert(!ok, "no-tunnel-no-access")
}
