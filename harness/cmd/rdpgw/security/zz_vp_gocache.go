package security

// go-cache contract for code of this package that starts to remember things (the unchanged package
// has no cache): per instance, Get returns the latest Set for the key unless it was deleted or has
// expired — and an entry may or may not have expired at any lookup (the harness does not relate the
// cache's lifetime to its own clock, so both outcomes are explored).

import (
	"strconv"
	"time"

	"github.com/patrickmn/go-cache"
)

//vp:all stub github.com/patrickmn/go-cache.New = vpGoCacheNew
//vp:all stub (*github.com/patrickmn/go-cache.Cache).Get = vpGoCacheGet
//vp:all stub (*github.com/patrickmn/go-cache.Cache).Set = vpGoCacheSet
//vp:all stub (*github.com/patrickmn/go-cache.Cache).SetDefault = vpGoCacheSetDefault
//vp:all stub (*github.com/patrickmn/go-cache.Cache).Add = vpGoCacheAdd
//vp:all stub (*github.com/patrickmn/go-cache.Cache).Delete = vpGoCacheDelete
//vp:all stub (*github.com/patrickmn/go-cache.Cache).Flush = vpGoCacheFlush
//vp:all stub (*github.com/patrickmn/go-cache.Cache).ItemCount = vpGoCacheCount
//vp:all model (*github.com/patrickmn/go-cache.cache).Get = vpGoCacheGet
//vp:all model (*github.com/patrickmn/go-cache.cache).Set = vpGoCacheSet
//vp:all model (*github.com/patrickmn/go-cache.cache).SetDefault = vpGoCacheSetDefault
//vp:all model (*github.com/patrickmn/go-cache.cache).Add = vpGoCacheAdd
//vp:all model (*github.com/patrickmn/go-cache.cache).Delete = vpGoCacheDelete
//vp:all model (*github.com/patrickmn/go-cache.cache).Flush = vpGoCacheFlush
//vp:all model (*github.com/patrickmn/go-cache.cache).ItemCount = vpGoCacheCount

var vpGoCaches map[*cache.Cache]map[string]interface{}
var vpGoCacheLookups int

func vpGoCacheOf(c *cache.Cache) map[string]interface{} {
	if vpGoCaches == nil {
		vpGoCaches = map[*cache.Cache]map[string]interface{}{}
	}
	m := vpGoCaches[c]
	if m == nil {
		m = map[string]interface{}{}
		vpGoCaches[c] = m
	}
	return m
}

func vpGoCacheNew(def, cleanup time.Duration) *cache.Cache { return &cache.Cache{} }

func vpGoCacheGet(c *cache.Cache, k string) (interface{}, bool) {
	m := vpGoCacheOf(c)
	v, ok := m[k]
	if !ok {
		return nil, false
	}
	vpGoCacheLookups++
	if vpBool("cache-entry-expired-at-lookup-" + strconv.Itoa(vpGoCacheLookups)) {
		delete(m, k)
		return nil, false
	}
	return v, true
}
func vpGoCacheSet(c *cache.Cache, k string, v interface{}, d time.Duration) { vpGoCacheOf(c)[k] = v }
func vpGoCacheSetDefault(c *cache.Cache, k string, v interface{})           { vpGoCacheOf(c)[k] = v }
func vpGoCacheAdd(c *cache.Cache, k string, v interface{}, d time.Duration) error {
	m := vpGoCacheOf(c)
	if _, ok := m[k]; ok {
		return errAlreadyCached
	}
	m[k] = v
	return nil
}
func vpGoCacheDelete(c *cache.Cache, k string) { delete(vpGoCacheOf(c), k) }
func vpGoCacheFlush(c *cache.Cache)            { vpGoCaches[c] = map[string]interface{}{} }
func vpGoCacheCount(c *cache.Cache) int        { return len(vpGoCacheOf(c)) }

type vpCacheErr string

func (e vpCacheErr) Error() string { return string(e) }

var errAlreadyCached error = vpCacheErr("vp: item already exists")
