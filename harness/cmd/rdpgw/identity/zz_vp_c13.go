package identity

// C13 — the identity stored in a session is restored unchanged (field mapping of Marshal/Unmarshal).

import (
	"encoding/gob"
	"errors"
	"io"
	"time"

	"github.com/google/uuid"
)

//vp:all model github.com/google/uuid.New = vpmUUIDNew
//vp:all model encoding/gob.NewEncoder = vpGobNewEncoder
//vp:all model encoding/gob.NewDecoder = vpGobNewDecoder
//vp:all model (*encoding/gob.Encoder).Encode = vpGobEncode
//vp:all model (*encoding/gob.Decoder).Decode = vpGobDecode

func vpmUUIDNew() uuid.UUID { return uuid.UUID{} }

// gob contract: Decode restores the value that Encode was given INTO a zero destination; into a destination
// that already holds something, fields that were zero at encoding time are left alone (see vpGobDecode).
var vpGobBox *user
var vpGobBoxes []user
var vpGobW io.Writer
var vpGobR io.Reader

func vpGobNewEncoder(w io.Writer) *gob.Encoder { vpGobW = w; return nil }
func vpGobNewDecoder(r io.Reader) *gob.Decoder { vpGobR = r; return nil }
func vpGobEncode(e *gob.Encoder, v interface{}) error {
	u, ok := v.(user)
	if !ok {
		return errors.New("vp: unexpected value")
	}
	vpGobBoxes = append(vpGobBoxes, u)
	vpGobBox = &vpGobBoxes[len(vpGobBoxes)-1]
	vpGobW.Write([]byte{byte(len(vpGobBoxes))}) // the encoding names the value (stand-in for its bytes)
	return nil
}
func vpGobDecode(d *gob.Decoder, v interface{}) error {
	p, ok := v.(*user)
	if !ok || vpGobBox == nil {
		return errors.New("vp: nothing to decode")
	}
	var b [1]byte
	if n, _ := vpGobR.Read(b[:]); n != 1 || b[0] == 0 || int(b[0]) > len(vpGobBoxes) {
		return errors.New("vp: corrupt encoding")
	}
	// gob as documented: fields that had their zero value when the value was encoded are not transmitted
	// and the decoder leaves the corresponding fields of the destination as they are; map entries are
	// added to an existing map
	src := vpGobBoxes[b[0]-1]
	if src.Authenticated {
		p.Authenticated = true
	}
	if src.Domain != "" {
		p.Domain = src.Domain
	}
	if src.UserName != "" {
		p.UserName = src.UserName
	}
	if src.DisplayName != "" {
		p.DisplayName = src.DisplayName
	}
	if src.Email != "" {
		p.Email = src.Email
	}
	if !src.AuthTime.IsZero() {
		p.AuthTime = src.AuthTime
	}
	if src.SessionId != "" {
		p.SessionId = src.SessionId
	}
	if !src.Expiry.IsZero() {
		p.Expiry = src.Expiry
	}
	if len(src.Attributes) > 0 {
		if p.Attributes == nil {
			p.Attributes = map[string]interface{}{}
		}
		for k, v := range src.Attributes {
			p.Attributes[k] = v
		}
	}
	if len(src.GroupMembership) > 0 {
		if p.GroupMembership == nil {
			p.GroupMembership = map[string]bool{}
		}
		for k, v := range src.GroupMembership {
			p.GroupMembership[k] = v
		}
	}
	return nil
}

//vp:property C13
//vp:set s 2 3
//vp:bounds all ten identity fields: flags symbolic, strings of s symbolic bytes (pairwise distinct content possible), times arbitrary seconds, one attribute and one group entry
//vp:reach restored
func VP_C13_roundtrip() {
	vpGobBox, vpGobBoxes = nil, nil
	n := vpParam("s")
	u := NewUser()
	u.SetAuthenticated(vpBool("auth"))
	u.SetUserName(vpStringN("user", n))
	u.SetDomain(vpStringN("domain", n))
	u.SetDisplayName(vpStringN("display", n))
	u.SetEmail(vpStringN("email", n))
	at := time.Unix(int64(vpU32("authtime")), 0)
	ex := time.Unix(int64(vpU32("expiry")), 0)
	u.SetAuthTime(at)
	u.SetExpiry(ex)
	u.sessionId = vpStringN("sid", n)
	u.SetAttribute("k", vpStringN("attr", n))
	u.groupMembership["g"] = vpBool("member")
	b, err := u.Marshal()
	vpAssert(err == nil && len(b) > 0, "marshal-succeeds")
	v := NewUser()
	err = v.Unmarshal(b)
	vpAssert(err == nil, "unmarshal-succeeds")
	vpReach("restored")
	vpAssert(v.Authenticated() == u.Authenticated(), "authenticated-flag-restored")
	vpAssert(v.UserName() == u.userName, "user-name-restored")
	vpAssert(v.Domain() == u.domain, "domain-restored")
	vpAssert(v.displayName == u.displayName, "display-name-restored")
	vpAssert(v.Email() == u.email, "email-restored")
	vpAssert(v.AuthTime().Equal(at), "auth-time-restored")
	vpAssert(v.Expiry().Equal(ex), "expiry-restored")
	vpAssert(v.SessionId() == u.sessionId, "session-id-restored")
	a, _ := v.GetAttribute("k").(string)
	vpAssert(a == vpStringN("attr", n), "attributes-restored")
	vpAssert(v.groupMembership["g"] == u.groupMembership["g"], "group-membership-restored")
	vpObserveStr("user", v.UserName())
}

//vp:property C13
//vp:bounds two identities marshalled one after the other (as two requests being saved), then the FIRST encoding is decoded: it must still describe the first identity (no sharing of encoder buffers between calls)
//vp:reach decoded
func VP_C13_two_marshals() {
	vpGobBox, vpGobBoxes = nil, nil
	a, b := NewUser(), NewUser()
	a.SetUserName(vpStringN("user-a", 2))
	b.SetUserName(vpStringN("user-b", 2))
	a.SetAuthenticated(vpBool("auth-a"))
	b.SetAuthenticated(vpBool("auth-b"))
	ba, err := a.Marshal()
	vpAssert(err == nil, "marshal-a")
	_, err = b.Marshal()
	vpAssert(err == nil, "marshal-b")
	back := NewUser()
	err = back.Unmarshal(ba)
	vpAssert(err == nil, "first-encoding-still-decodes")
	vpReach("decoded")
	vpAssert(back.UserName() == a.userName && back.Authenticated() == a.authenticated, "first-encoding-still-describes-the-first-identity")
}


//vp:property C13 C12
//vp:bounds two sessions' identities are decoded one after the other in one process: first a logged-in one (authenticated, user name and access-token attribute of 2 symbolic bytes), then one that never logged in (everything at its zero value, as EnrichContext stores it for a first visit), each into an identity of its own
//vp:assume gob: zero-valued fields are not transmitted and leave the destination's fields untouched
//vp:reach decoded
func VP_C13_decode_after_decode() {
	vpGobBox, vpGobBoxes = nil, nil
	a := NewUser()
	a.SetAuthenticated(true)
	a.SetUserName(vpStringN("user", 2))
	a.SetAttribute("accessToken", vpStringN("token", 2))
	ba, err := a.Marshal()
	vpAssert(err == nil, "marshal-a")
	b := NewUser()
	b.sessionId = ""
	bb, err := b.Marshal()
	vpAssert(err == nil, "marshal-b")
	backA, backB := NewUser(), NewUser()
	backB.sessionId = ""
	vpAssert(backA.Unmarshal(ba) == nil, "logged-in-identity-decodes")
	vpAssert(backB.Unmarshal(bb) == nil, "anonymous-identity-decodes")
	vpReach("decoded")
	vpAssert(backA.Authenticated() && backA.UserName() == a.userName, "logged-in-identity-restored")
	vpAssert(!backB.Authenticated() && backB.UserName() == "", "a-session-that-never-logged-in-stays-unauthenticated-and-nameless")
	vpAssert(backB.GetAttribute("accessToken") == nil, "a-session-that-never-logged-in-has-no-access-token")
}
