package kdcproxy

// C20 — the KDC proxy relays Kerberos messages faithfully and always answers.
// C10 — no request can panic or wedge the handler.

import (
	"errors"

	"github.com/jcmturner/gofork/encoding/asn1"
	"io"
	"net"
	"net/http"
	"strconv"
	"sync"
	"time"

	krbconfig "github.com/bolkedebruin/gokrb5/v8/config"
)

//vp:all stub (*github.com/bolkedebruin/gokrb5/v8/config.Config).GetKDCs = vpGetKDCs
//vp:all stub (*github.com/bolkedebruin/gokrb5/v8/config.Config).ResolveRealm = vpResolveRealm
//vp:all stub net.Dial = vpNetDial
//vp:all model time.Since = vpmSinceAny
//vp:all stub github.com/bolkedebruin/gokrb5/v8/config.Load = vpKrbLoad
//vp:all stub github.com/jcmturner/gofork/encoding/asn1.Unmarshal = vpASN1Unmarshal
//vp:all stub github.com/jcmturner/gofork/encoding/asn1.Marshal = vpASN1Marshal

func vpItoa(i int) string { return strconv.Itoa(i) }

// ---- environment ----

type vpKConn struct {
	proto   string
	host    string
	written [][]byte
	reply   []byte // the bytes on the wire
	payload []byte // the Kerberos reply itself
	rerr    bool // silence / reset: the read fails (deadline) instead of delivering a reply
	rpos    int
	closed  bool
	werr    bool
	readDeadline bool // a read deadline is in force (SetDeadline / SetReadDeadline)
	closesAfterReply bool // TCP only: the KDC closes the connection after its reply
}

func (c *vpKConn) Read(b []byte) (int, error) {
	if c.rerr {
		// a silent KDC: the read ends only if a read deadline is in force or the connection gets closed
		for !c.readDeadline && !c.closed {
			if !vpSymbolic() {
				vpBlockForever()
			}
			vpWaitProgress()
		}
		return 0, errors.New("vp: i/o timeout")
	}
	if c.rpos == 0 && vpSlowHosts[c.host] {
		// a KDC that is slower than the others: its reply has not come by the time the connection is closed
		for !c.closed {
			vpWaitProgress()
		}
		return 0, errors.New("vp: use of closed network connection")
	}
	if c.rpos == 0 && !c.rerr {
		// a KDC that answers this request only once it has received a later one as well
		for len(vpConns) < vpKdcAnswersAfterConns && !c.closed {
			vpWaitProgress()
		}
		if c.closed {
			return 0, errors.New("vp: use of closed network connection")
		}
	}
	if c.rpos >= len(c.reply) {
		if c.closesAfterReply {
			return 0, io.EOF
		}
		// the KDC keeps a TCP connection open after its reply (MIT krb5kdc, Active Directory), and a UDP
		// socket never reports an end: a further read ends only by the deadline or by Close
		for !c.readDeadline && !c.closed {
			if !vpSymbolic() {
				vpBlockForever()
			}
			vpWaitProgress()
		}
		if c.closed {
			return 0, errors.New("vp: use of closed network connection")
		}
		return 0, errors.New("vp: i/o timeout")
	}
	avail := c.reply[c.rpos:]
	if c.proto == "tcp" && c.rpos == 0 && len(avail) > 1 && vpSplitReplies {
		// TCP is a byte stream: the first read may return any non-empty prefix of the reply
		avail = avail[:vpIntRange("first-read-of-reply-"+c.host, 1, len(avail))]
	}
	n := copy(b, avail)
	if c.proto == "udp" {
		c.rpos = len(c.reply) // one read takes the whole datagram (what does not fit is lost)
	} else {
		c.rpos += n
	}
	return n, nil
}

// vpSplitReplies: a TCP KDC's reply may arrive in two reads (set by the relay harness).
var vpSplitReplies bool

// vpKdcAnswersAfterConns: a KDC does not answer a request before this many connections have been opened to it.
var vpKdcAnswersAfterConns int
func (c *vpKConn) Write(b []byte) (int, error) {
	if c.werr {
		return 0, errors.New("vp: write failed")
	}
	d := make([]byte, len(b))
	copy(d, b)
	c.written = append(c.written, d)
	return len(b), nil
}
func (c *vpKConn) Close() error                       { c.closed = true; return nil }
func (c *vpKConn) LocalAddr() net.Addr                { return nil }
func (c *vpKConn) RemoteAddr() net.Addr               { return nil }
func (c *vpKConn) SetDeadline(t time.Time) error      { c.readDeadline = true; return nil }
func (c *vpKConn) SetReadDeadline(t time.Time) error  { c.readDeadline = true; return nil }
func (c *vpKConn) SetWriteDeadline(t time.Time) error { return nil }

var (
	vpConns     []*vpKConn
	vpDialLog   []string
	vpKdcCalls  int
	vpRealmSeen string
	vpUDPn      int
	vpTCPn      int
	vpUnknown   bool
	vpMsg       KdcProxyMsg
	vpDERok     bool
	vpRest      int
	vpMarshaled []byte
	vpMarshalN  int
	vpAllDialsFail bool
)

func vpResetK() {
	vpConns, vpDialLog, vpKdcCalls, vpRealmSeen = nil, nil, 0, ""
	vpMarshaled, vpMarshalN = nil, 0
	vpAllDialsFail = false
	vpRealmCheck, vpAlwaysReply = false, false
	vpSplitReplies = false
	vpRealDER = false
	vpKdcAnswersAfterConns = 0
	vpDownHosts, vpSlowHosts = nil, nil
}

// GetKDCs contract (gokrb5 randServOrder): error for an unknown realm, else (n, map{1..n -> host}).
func vpGetKDCs(c *krbconfig.Config, realm string, tcp bool) (int, map[int]string, error) {
	vpKMu.Lock()
	vpKdcCalls++
	vpRealmSeen = realm
	vpKMu.Unlock()
	if vpUnknown || (vpRealmCheck && !vpRealmConfigured(realm)) {
		return 0, map[int]string{}, errors.New("vp: no KDCs defined for realm")
	}
	n := vpUDPn
	p := "udp-kdc-"
	if tcp {
		n = vpTCPn
		p = "tcp-kdc-"
	}
	if n > 1 {
		// randServOrder picks the servers in random order and, while it does so, swaps entries of the list
		// it was given — which is the realm's list inside the Config, not a copy. Nothing in gokrb5
		// synchronises this: callers that share a Config have to.
		tmp := vpRealmList.first
		if !vpSymbolic() {
			time.Sleep(200 * time.Microsecond) // (native replay only: the library loops over the list here)
		}
		vpRealmList.first = vpRealmList.last
		vpRealmList.last = tmp
	}
	m := map[int]string{}
	for i := 1; i <= n; i++ {
		m[i] = p + vpItoa(i)
	}
	return n, m, nil
}

// vpLibShared stands for state inside a library value that the repository's code shares between requests
// (here: the KDC list of a realm inside gokrb5's Config). Accesses to it count for the lockset analysis.
type vpLibShared struct{ first, last string }

var vpRealmList = &vpLibShared{first: "kdc-1", last: "kdc-n"}

// vpKMu guards the harness's own bookkeeping where requests run on threads of their own.
var vpKMu sync.Mutex

// ResolveRealm contract (gokrb5): the realm mapped to a DNS domain by [domain_realm], else "".
// No mapping is configured here.
func vpResolveRealm(c *krbconfig.Config, domain string) string { return "" }

// vpRealmKnown: the configured realms. GetKDCs("") means the default realm (library behaviour).
var vpRealmCheck bool
var vpDownHosts map[string]bool // KDCs that refuse connections at the moment
var vpSlowHosts map[string]bool // KDCs whose reply comes later than the others'
var vpAlwaysReply bool

func vpRealmConfigured(realm string) bool {
	return realm == "" || realm == "DEFAULT.REALM" || realm == "BRANCH.TEST"
}

func vpNetDial(network, address string) (net.Conn, error) {
	vpKMu.Lock()
	vpDialLog = append(vpDialLog, network+"!"+address)
	k := vpItoa(len(vpDialLog))
	vpKMu.Unlock()
	if address == "" || vpAllDialsFail || vpDownHosts[address] || (!vpAlwaysReply && vpBool("dial-fails-"+k)) {
		return nil, errors.New("vp: connection refused")
	}
	c := &vpKConn{proto: network, host: address}
	if !vpAlwaysReply {
		c.werr = vpBool("write-fails-" + k)
		c.rerr = vpBool("silent-" + k)
	}
	if !c.rerr {
		c.payload = vpBytesN("reply-"+k, 3)
		if network == "tcp" {
			// a KDC's reply over TCP carries its 4-byte big-endian length (RFC 4120 7.2.2)
			c.reply = append([]byte{0, 0, 0, 3}, c.payload...)
			c.closesAfterReply = vpBool("kdc-closes-after-reply-" + k)
		} else {
			c.reply = c.payload
		}
	}
	vpConns = append(vpConns, c)
	return c, nil
}

//vp:use asn1der gocache promstub

// vpRealDER: decode with the library's rules (shared harness part asn1der; natively the real library)
// instead of the contract below.
var vpRealDER bool

// asn1 contract: total functions; DER details are not modelled.
func vpASN1Unmarshal(b []byte, val interface{}) ([]byte, error) {
	if vpRealDER {
		if vpSymbolic() {
			return vpDERUnmarshal(b, val)
		}
		return asn1.Unmarshal(b, val)
	}
	if !vpDERok {
		return nil, errors.New("vp: asn1 syntax error")
	}
	if p, ok := val.(*KdcProxyMsg); ok {
		*p = vpMsg
	}
	return make([]byte, vpRest), nil
}
func vpASN1Marshal(val interface{}) ([]byte, error) {
	vpMarshalN++
	if m, ok := val.(KdcProxyMsg); ok {
		vpMarshaled = m.Message
	}
	return append([]byte{0x30}, vpMarshaled...), nil
}

type vpBody struct {
	data []byte
	pos  int
}

func (b *vpBody) Read(p []byte) (int, error) {
	if b.pos >= len(b.data) {
		return 0, io.EOF
	}
	n := copy(p, b.data[b.pos:])
	b.pos += n
	return n, nil
}
func (b *vpBody) Close() error { return nil }

type vpRW struct {
	hdr    http.Header
	status int
	body   []byte
	writes int
}

func (w *vpRW) Header() http.Header { return w.hdr }
func (w *vpRW) WriteHeader(c int) {
	if w.status == 0 {
		w.status = c
	}
}
func (w *vpRW) Write(b []byte) (int, error) {
	if w.status == 0 {
		w.status = 200
	}
	w.writes++
	w.body = append(w.body, b...)
	return len(b), nil
}

// the proxy as main() builds it: through InitKdcProxy, with the krb5.conf loader stubbed
func vpKrbLoad(path string) (*krbconfig.Config, error) {
	cfg := &krbconfig.Config{}
	cfg.LibDefaults.DefaultRealm = "DEFAULT.REALM"
	return cfg, nil
}

func vpProxy() KerberosProxy { return InitKdcProxy("/etc/krb5.conf") }

//vp:property C20
//vp:bounds method POST or any other <= 4-byte string; declared Content-Length in {-1, 0..8, 131072, 131073}; body carrying exactly / fewer bytes than declared; DER valid or not; 0..2 trailing bytes
//vp:reach m405 m411 m413 m400 m500
func VP_C20_validate() {
	vpResetK()
	method := "POST"
	if !vpBool("is-post") {
		method = vpString("method", 4)
		vpAssume(method != "POST")
	}
	cl := []int64{-1, 0, 3, 8, 131072, 131073}[vpIntRange("cl", 0, 5)]
	have := 0
	if cl > 0 && cl <= 8 {
		have = int(cl)
		if vpBool("body-short") {
			have--
		}
	}
	if cl == 131072 {
		have = 131072
	}
	vpDERok = vpBool("der-ok")
	vpRest = vpIntRange("trailing", 0, 2)
	vpMsg = KdcProxyMsg{Message: []byte{0, 0, 0, 1, 0x6a}, Realm: "R"}
	vpUnknown = true // any accepted request stops at the realm lookup: this harness is about rejection
	r := &http.Request{Method: method, ContentLength: cl, Body: &vpBody{data: make([]byte, have)}}
	w := &vpRW{hdr: http.Header{}}
	vpProxy().Handler(w, r)
	vpObserve("status", uint64(w.status))
	valid := method == "POST" && cl >= 0 && cl <= 131072 && int64(have) == cl && vpDERok && vpRest == 0
	if !valid {
		vpAssert(len(vpDialLog) == 0 && vpKdcCalls == 0, "rejected-requests-contact-no-kdc")
	}
	switch {
	case method != "POST":
		vpReach("m405")
		vpAssert(w.status == 405, "non-post-is-405")
	case cl == -1:
		vpReach("m411")
		vpAssert(w.status == 411, "missing-length-is-411")
	case cl > 131072:
		vpReach("m413")
		vpAssert(w.status == 413, "oversize-is-413")
	case int64(have) != cl:
		vpReach("m500")
		vpAssert(w.status == 500 || w.status == 400, "short-body-is-an-error")
	case !vpDERok || vpRest != 0:
		vpReach("m400")
		vpAssert(w.status == 400, "invalid-der-or-trailing-bytes-is-400")
	default:
		vpAssert(w.status == 503, "unknown-realm-is-answered-503")
	}
}

//vp:property C20 C10
//vp:bounds 1..3 UDP and 1..3 TCP KDCs returned for the realm (independently), every KDC unreachable (so that only the list merge runs), realm given or defaulted
//vp:reach answered
func VP_C20_index() {
	vpResetK()
	vpUnknown = false
	vpUDPn = vpIntRange("udp", 1, 3)
	vpTCPn = vpIntRange("tcp", 1, 3)
	vpAllDialsFail = true
	k := vpProxy()
	realm := []string{"", "EXAMPLE.ORG"}[vpIntRange("realm", 0, 1)]
	done := false
	func() {
		defer func() {
			// net/http would recover a handler panic and drop the connection without a response
			if r := recover(); r != nil {
				if _, ok := r.(vpAssumeFalse); ok {
					panic(r)
				}
				vpAssert(false, "merging-the-kdc-lists-must-not-panic")
			}
		}()
		k.forward(realm, []byte{0, 0, 0, 1, 0x6a})
		done = true
	}()
	if done {
		vpReach("answered")
	}
	if realm == "" {
		vpAssert(vpRealmSeen == "DEFAULT.REALM", "empty-realm-means-default-realm")
	} else {
		vpAssert(vpRealmSeen == realm, "kdcs-looked-up-for-the-requested-realm")
	}
}

// vpWantReply: what the proxy must hand back for a reply received from connection c.
func vpWantReply(c *vpKConn) []byte {
	n := uint32(len(c.payload))
	return append([]byte{byte(n >> 24), byte(n >> 16), byte(n >> 8), byte(n)}, c.payload...)
}

//vp:property C20 C10
//vp:set kmax 2 3
//vp:set budget 300 900
//vp:bounds 1..kmax UDP and 1..kmax TCP KDCs, four at most in total; each KDC independently: refuses the connection / write fails / stays silent (read error) / replies 3 arbitrary bytes (over TCP behind their 4-byte length, possibly in two reads split anywhere, after which the KDC closes the connection or keeps it open; over UDP as one datagram); embedded message: 4-byte prefix + 2 symbolic bytes, or any 0..4 bytes (shorter than the prefix); POST with valid DER, realm "R"
//vp:assume every started reader eventually sends (the 5 s deadline); goroutines run when the handler blocks (no interleaving exploration)
//vp:reach replied noreply
func VP_C20_relay() {
	vpResetK()
	vpSplitReplies = true
	vpUnknown = false
	vpUDPn = vpIntRange("udp", 1, vpParam("kmax"))
	vpTCPn = vpIntRange("tcp", 1, vpParam("kmax"))
	vpAssume(vpUDPn+vpTCPn <= 4) // (thorough: 3 + 3 KDCs with all their behaviours do not finish within the budget)
	// the embedded message: normally 4-byte length prefix + Kerberos bytes, but the client controls it
	// entirely — it may be shorter than the prefix
	var msg, payload []byte
	if vpBool("well-formed-message") {
		payload = vpBytesN("krb", 2)
		msg = append([]byte{0, 0, 0, 2}, payload...)
	} else {
		msg = vpBytes("short-message", 4)
		if len(msg) > 4 {
			payload = msg[4:]
		}
	}
	vpDERok, vpRest = true, 0
	vpMsg = KdcProxyMsg{Message: msg, Realm: "R"}
	r := &http.Request{Method: "POST", ContentLength: 4, Body: &vpBody{data: make([]byte, 4)}}
	w := &vpRW{hdr: http.Header{}}
	vpProxy().Handler(w, r)
	vpRunTasks()
	vpObserve("status", uint64(w.status))
	vpAssert(w.status != 0, "every-request-is-answered")
	if len(msg) < 4 {
		vpAssert(w.status == 400 && len(vpDialLog) == 0, "message-shorter-than-its-prefix-is-400-and-contacts-no-kdc")
		return
	}

	anyReply := false
	for _, c := range vpConns {
		// exactly the embedded message goes to a TCP KDC, the message without its length prefix to a UDP KDC
		for _, wr := range c.written {
			if c.proto == "tcp" {
				vpAssert(vpEqBytes(wr, msg), "tcp-kdc-receives-exactly-the-embedded-message")
			} else {
				vpAssert(vpEqBytes(wr, payload), "udp-kdc-receives-the-message-without-length-prefix")
			}
		}
		vpAssert(len(c.written) <= 1, "message-sent-at-most-once-per-kdc")
		vpAssert(c.closed, "kdc-connection-closed-afterwards")
		if !c.werr && !c.rerr {
			anyReply = true
		}
	}
	if anyReply {
		vpReach("replied")
		vpAssert(w.status == 200, "a-replying-kdc-yields-200")
		vpAssert(vpMarshalN == 1 && w.writes == 1, "reply-wrapped-and-written-once")
		match := false
		for _, c := range vpConns {
			if !c.werr && !c.rerr && vpEqBytes(vpMarshaled, vpWantReply(c)) {
				match = true
			}
		}
		vpAssert(match, "response-wraps-exactly-a-kdc-reply")
		ct := w.hdr["Content-Type"]
		vpAssert(len(ct) == 1 && ct[0] == "application/kerberos", "content-type")
	} else {
		vpReach("noreply")
		vpAssert(w.status == 503, "no-reply-from-any-kdc-is-503")
		vpAssert(vpMarshalN == 0, "nothing-wrapped-without-a-reply")
	}
}

//vp:property C20
//vp:bounds target realm named by the client: absent, the default realm, another configured realm, the same names in lower/mixed case, an unknown realm (6 spellings); one TCP KDC per configured realm, always replying
//vp:assume gokrb5: GetKDCs("") resolves the default realm; GetKDCs fails for realms that are not configured; ResolveRealm returns "" without a [domain_realm] entry
//vp:reach served refused
func VP_C20_realm() {
	vpResetK()
	vpRealmCheck, vpAlwaysReply = true, true
	vpUnknown = false
	vpUDPn, vpTCPn = 0, 1
	realm := []string{"", "DEFAULT.REALM", "BRANCH.TEST", "branch.test", "Default.Realm", "nowhere.test"}[vpIntRange("realm", 0, 5)]
	msg := []byte{0, 0, 0, 1, 0x6a}
	vpDERok, vpRest = true, 0
	vpMsg = KdcProxyMsg{Message: msg, Realm: realm}
	r := &http.Request{Method: "POST", ContentLength: 4, Body: &vpBody{data: make([]byte, 4)}}
	w := &vpRW{hdr: http.Header{}}
	vpProxy().Handler(w, r)
	vpRunTasks()
	vpObserve("status", uint64(w.status))
	known := realm == "" || realm == "DEFAULT.REALM" || realm == "BRANCH.TEST"
	if known {
		vpReach("served")
		vpAssert(w.status == 200 && len(vpDialLog) == 1, "configured-realm-is-served-by-its-kdc")
		if realm == "" {
			vpAssert(vpRealmSeen == "DEFAULT.REALM" || vpRealmSeen == "", "no-realm-means-the-default-realm")
		} else {
			vpAssert(vpRealmSeen == realm, "kdc-looked-up-for-exactly-the-named-realm")
		}
	} else {
		vpReach("refused")
		// a realm that is not configured (case matters: realm names are case sensitive) reaches no KDC
		vpAssert(len(vpDialLog) == 0, "unknown-realm-contacts-no-kdc")
		vpAssert(w.status == 503, "unknown-realm-is-answered-503")
	}
}


func vpDERLen(n int) []byte {
	if n < 0x80 {
		return []byte{byte(n)}
	}
	return []byte{0x81, byte(n)}
}

func vpDERWrap(tag byte, content []byte) []byte {
	return append(append([]byte{tag}, vpDERLen(len(content))...), content...)
}

//vp:property C20 C10
//vp:bounds the request body is a KDC-PROXY-MESSAGE as MS-KKDCP defines it (EXPLICIT tags): SEQUENCE { [0] OCTET STRING kerb-message (4-byte prefix + 1 symbolic byte), [1] GeneralString target-domain absent / "BRANCH.TEST" / "DEFAULT.REALM" / "NOWHERE.TEST" / a name with a byte that is not UTF-8, [2] INTEGER dclocator-hint absent / one symbolic byte / 0x80000000 (five octets) }, sent as it is or damaged in one of: a trailing byte after the SEQUENCE, the last byte cut off, the outer tag not a SEQUENCE (0x31), an indefinite outer length (0x80), an outer length one too large; one TCP KDC per configured realm, always replying
//vp:assume gofork's asn1.Unmarshal as modelled by the shared harness part asn1der from its source (the real library runs natively and every path is compared); gokrb5's realm -> KDC resolution as in VP_C20_realm
//vp:reach served refused
func VP_C20_der() {
	vpResetK()
	vpRealDER = true
	vpRealmCheck, vpAlwaysReply = true, true
	vpUnknown = false
	vpUDPn, vpTCPn = 0, 1
	krb := []byte{0, 0, 0, 1, vpU8("krb")}
	realm := []string{"", "BRANCH.TEST", "DEFAULT.REALM", "NOWHERE.TEST", "N\xe9ANT.TEST"}[vpIntRange("target-domain", 0, 4)] // the last one with a Latin-1 byte: a GeneralString is 8-bit
	body := vpDERWrap(0xA0, vpDERWrap(0x04, krb))
	if realm != "" {
		body = append(body, vpDERWrap(0xA1, vpDERWrap(0x1B, []byte(realm)))...)
	}
	switch vpIntRange("dclocator-hint", 0, 2) {
	case 1:
		h := vpU8("hint")
		vpAssume(h < 0x80)
		body = append(body, vpDERWrap(0xA2, vpDERWrap(0x02, []byte{h}))...)
	case 2:
		// DsGetDcName flags use all 32 bits: DS_RETURN_FLAT_NAME is 0x80000000, a positive INTEGER of five octets
		body = append(body, vpDERWrap(0xA2, vpDERWrap(0x02, []byte{0, 0x80, 0, 0, 0}))...)
	}
	msg := vpDERWrap(0x30, body)
	damage := vpIntRange("damage", 0, 5)
	switch damage {
	case 1:
		msg = append(msg, 0)
	case 2:
		msg = msg[:len(msg)-1]
	case 3:
		msg[0] = 0x31
	case 4:
		msg[1] = 0x80
	case 5:
		msg[1]++
	}
	r := &http.Request{Method: "POST", ContentLength: int64(len(msg)), Body: &vpBody{data: msg}}
	w := &vpRW{hdr: http.Header{}}
	vpProxy().Handler(w, r)
	vpRunTasks()
	vpObserve("status", uint64(w.status))
	if damage != 0 {
		vpReach("refused")
		vpAssert(w.status == 400 && len(vpDialLog) == 0, "a-body-that-is-not-valid-der-or-has-trailing-bytes-is-400-and-contacts-no-kdc")
		return
	}
	if realm == "NOWHERE.TEST" || realm == "N\xe9ANT.TEST" {
		vpAssert(w.status == 503 && len(vpDialLog) == 0, "unknown-realm-contacts-no-kdc")
		return
	}
	vpReach("served")
	vpAssert(w.status == 200 && len(vpDialLog) == 1, "well-formed-message-is-relayed")
	want := realm
	if want == "" {
		want = "DEFAULT.REALM"
	}
	vpAssert(vpRealmSeen == want || (realm == "" && vpRealmSeen == ""), "message-goes-to-a-kdc-of-the-named-realm")
	if len(vpConns) == 1 {
		c := vpConns[0]
		vpAssert(len(c.written) == 1 && vpEqBytes(c.written[0], krb), "kdc-receives-exactly-the-embedded-message")
	}
}


//vp:property C20 C09
//vp:bounds two requests for the same realm served at the same time by ONE proxy value (as the HTTP server does): the realm has one TCP KDC, which answers the first request only after the second has reached it too, and the second after that; embedded messages and replies of 1 symbolic byte each; the KDC closes after replying or keeps the connection open
//vp:assume cooperative schedule: a request runs until it waits for its KDC
//vp:reach both-answered
func VP_C20_two_requests() {
	vpResetK()
	vpRealmCheck = true
	vpUnknown = false
	vpUDPn, vpTCPn = 0, 1
	vpKdcAnswersAfterConns = 2
	vpAlwaysReply = true
	proxy := vpProxy()
	vpDERok, vpRest = true, 0
	var ws [2]*vpRW
	done := make(chan bool, 1)
	serve := func(i int) {
		// (the contract decoder hands out vpMsg: set it right before the handler decodes)
		vpMsg = KdcProxyMsg{Message: []byte{0, 0, 0, 1, byte(0x60 + i)}, Realm: "BRANCH.TEST"}
		ws[i] = &vpRW{hdr: http.Header{}}
		proxy.Handler(ws[i], &http.Request{Method: "POST", ContentLength: 4, Body: &vpBody{data: make([]byte, 4)}})
	}
	go func() {
		serve(1)
		done <- true
	}()
	serve(0)
	<-done
	vpRunTasks()
	vpReach("both-answered")
	vpAssert(len(vpConns) == 2, "each-request-has-its-own-connection-to-the-kdc")
	for i := 0; i < 2; i++ {
		vpAssert(ws[i].status == 200, "a-request-whose-kdc-replied-is-answered-200-whatever-other-requests-do")
	}
	for _, c := range vpConns {
		vpAssert(c.closed, "kdc-connection-closed-afterwards")
	}
}


//vp:property C09 C20
//vp:flag lockset
//vp:bounds two requests for one realm with two TCP KDCs are forwarded at the same time through ONE proxy value (the HTTP server runs every request on a goroutine of its own); both KDCs refuse the connection, so each request ends after its look-ups and dial attempts
//vp:assume lockset: the realm's KDC list inside gokrb5's Config is written by every GetKDCs call (randServOrder shuffles the list it is given in place — read from the library source, modelled by the stub); two such calls from different requests without a common mutex are a race (replayed natively under the race detector)
//vp:reach done
func VP_C09_kdc_lookups() {
	vpThread("setup")
	vpResetK()
	vpRealmCheck, vpUnknown = true, false
	vpUDPn, vpTCPn = 0, 2
	vpAllDialsFail = true
	proxy := vpProxy()
	// through the handler, as the HTTP server calls it (its receiver is a VALUE: every request works on a
	// copy of the proxy, whatever the copies share is shared between requests)
	vpDERok, vpRest = true, 0
	vpMsg = KdcProxyMsg{Message: []byte{0, 0, 0, 1, 0x60}, Realm: "BRANCH.TEST"}
	var ws [2]*vpRW
	serve := func(i int) {
		ws[i] = &vpRW{hdr: http.Header{}}
		proxy.Handler(ws[i], &http.Request{Method: "POST", ContentLength: 4, Body: &vpBody{data: make([]byte, 4)}})
	}
	vpPar(func() {
		vpThread("A")
		serve(0)
	}, func() {
		vpThread("B")
		serve(1)
	})
	vpThread("setup")
	vpReach("done")
	vpAssert(ws[0].status == 503 && ws[1].status == 503, "no-kdc-reachable-is-503-for-each-request")
	vpAssert(len(vpDialLog) == 4, "each-request-tries-both-kdcs")
}


//vp:property C20
//vp:bounds a realm with two TCP KDCs and two requests one after the other: the first is answered while both KDCs are up (the first replies sooner; the proxy takes that reply and closes the other connection, whose reader ends with an error); then the first KDC goes down (refuses connections) and the second request must be answered through the other one; any time may pass between the two requests
//vp:assume KDCs reply with 3 symbolic bytes; cooperative schedule
//vp:reach second-answered
func VP_C20_failover_after_a_race() {
	vpResetK()
	vpRealmCheck, vpUnknown = true, false
	vpUDPn, vpTCPn = 0, 2
	vpAlwaysReply = true
	proxy := vpProxy()
	vpDERok, vpRest = true, 0
	vpMsg = KdcProxyMsg{Message: []byte{0, 0, 0, 1, 0x60}, Realm: "BRANCH.TEST"}
	post := func() *vpRW {
		w := &vpRW{hdr: http.Header{}}
		proxy.Handler(w, &http.Request{Method: "POST", ContentLength: 4, Body: &vpBody{data: make([]byte, 4)}})
		vpRunTasks()
		return w
	}
	vpSlowHosts = map[string]bool{"tcp-kdc-2": true} // the second KDC is up, just slower than the first
	w1 := post()
	vpAssert(w1.status == 200, "first-request-answered-while-both-kdcs-are-up")
	vpSlowHosts = nil
	vpDownHosts = map[string]bool{"tcp-kdc-1": true}
	before := len(vpDialLog)
	w2 := post()
	vpReach("second-answered")
	vpObserve("status2", uint64(w2.status))
	reachedOther := false
	for _, d := range vpDialLog[before:] {
		reachedOther = reachedOther || d == "tcp!tcp-kdc-2"
	}
	vpAssert(reachedOther, "the-reachable-kdc-of-the-realm-is-tried")
	vpAssert(w2.status == 200, "a-realm-with-a-reachable-kdc-is-answered")
}
