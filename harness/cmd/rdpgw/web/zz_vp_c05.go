package web

// C05 — the gateway endpoint needs confirmed credentials of an enabled scheme (middleware part).

import (
	"errors"
	"net/http"

	"github.com/bolkedebruin/rdpgw/cmd/rdpgw/identity"
	"github.com/bolkedebruin/rdpgw/shared/auth"
)

//vp:property C05
//vp:set s 2 4
//vp:bounds Basic scheme: header parsed or not (symbolic), user/password strings of <= s bytes, socket address empty/non-empty, session identity fresh or already authenticated (same or another user name), backend: unreachable / RPC error / answers authenticated or not
//vp:reach passed challenged error
func VP_C05_basic() {
	vpResetWeb()
	n := vpParam("s")
	vpBasicOK = vpBool("hdr-is-basic")
	vpBasicUser, vpBasicPass = vpString("user", n), vpString("pass", n)
	h := &BasicAuthHandler{SocketAddress: "", Timeout: 5}
	if vpBool("has-socket") {
		h.SocketAddress = "/tmp/sock"
	}
	if vpBool("rpc-fails") {
		vpAuthErr = errors.New("vp: rpc failed")
	} else {
		vpAuthRes = &auth.AuthResponse{Authenticated: vpBool("backend-says-authenticated")}
	}
	id := identity.NewUser()
	// the identity comes from the session cookie: it may belong to an earlier (e.g. OpenID) login
	preAuth := vpBool("session-already-authenticated")
	id.SetAuthenticated(preAuth)
	if vpBool("session-user-is-the-basic-user") {
		id.SetUserName(vpBasicUser)
	} else {
		id.SetUserName(vpString("session-user", n))
	}
	nextCalls := 0
	var seen identity.Identity
	next := func(w http.ResponseWriter, r *http.Request) {
		nextCalls++
		seen = identity.FromRequestCtx(r)
	}
	w := vpNewRW()
	h.BasicAuth(next)(w, vpRequest("RDG_OUT_DATA", http.Header{}, id))
	vpObserve("status", uint64(w.status))
	vpObserve("next", uint64(nextCalls))

	if nextCalls > 0 {
		vpReach("passed")
		vpAssert(nextCalls == 1, "handler-reached-once")
		vpAssert(vpBasicOK && vpAuthCalls == 1 && vpAuthErr == nil && vpAuthRes != nil && vpAuthRes.Authenticated, "handler-reached-only-with-credentials-the-backend-confirmed")
		vpAssert(vpAuthReqUser == vpBasicUser && vpAuthReqPass == vpBasicPass, "backend-asked-about-the-presented-credentials")
		vpAssert(seen != nil && seen.Authenticated() && seen.UserName() == vpBasicUser, "tunnel-user-is-the-confirmed-user")
		vpAssert(w.status == 0, "no-error-status-when-passed")
	} else {
		if w.status == 401 {
			vpReach("challenged")
			c := vpHeaderValues(w, "Www-Authenticate")
			vpAssert(len(c) == 1 && len(c[0]) >= 5 && c[0][:5] == "Basic", "401-carries-a-basic-challenge")
		} else {
			vpReach("error")
			vpAssert(w.status == 500, "otherwise-500")
		}
		vpAssert(id.Authenticated() == preAuth, "refused-request-does-not-change-the-identity")
	}
	// completeness: confirmed credentials do reach the handler
	if vpBasicOK && h.SocketAddress != "" && !vpBool("grpc-dial-fails") && vpAuthErr == nil && vpAuthRes != nil && vpAuthRes.Authenticated {
		vpAssert(nextCalls == 1, "confirmed-credentials-reach-the-handler")
	}
}

//vp:property C05
//vp:bounds Basic scheme, TWO requests in a row (fresh request identities, within a few seconds): user name and password of 0..2 symbolic bytes each time; the backend's verdict is arbitrary and independent per question
//vp:assume r.BasicAuth stubbed (header parsing is net/http's); a digest, if the code computes one, is a deterministic collision-free function of its input
//vp:reach second-passed second-refused
func VP_C05_basic_twice() {
	vpResetWeb()
	h := &BasicAuthHandler{SocketAddress: "/tmp/sock", Timeout: 5}
	var passed [2]bool
	var asked [2]int
	var users, passes [2]string
	for i := 0; i < 2; i++ {
		is := vpItoa(i)
		vpBasicOK = true
		users[i], passes[i] = vpString("user"+is, 2), vpString("pass"+is, 2)
		vpBasicUser, vpBasicPass = users[i], passes[i]
		vpAuthErr = nil
		vpAuthRes = &auth.AuthResponse{Authenticated: vpBool("backend-says-authenticated-" + is)}
		before := vpAuthCalls
		var seen identity.Identity
		next := func(w http.ResponseWriter, r *http.Request) {
			passed[i] = true
			seen = identity.FromRequestCtx(r)
		}
		h.BasicAuth(next)(vpNewRW(), vpRequest("RDG_OUT_DATA", http.Header{}, identity.NewUser()))
		asked[i] = vpAuthCalls - before
		if passed[i] {
			vpAssert(seen != nil && seen.UserName() == users[i], "tunnel-user-is-the-presented-user")
		}
	}
	if passed[1] {
		vpReach("second-passed")
		// the credentials of THIS request were confirmed: either the backend was asked about them now, or
		// exactly these credentials were confirmed a moment ago
		confirmedNow := asked[1] == 1 && vpAuthReqUser == users[1] && vpAuthReqPass == passes[1] && vpBool("backend-says-authenticated-1")
		confirmedBefore := passed[0] && users[0] == users[1] && passes[0] == passes[1]
		vpAssert(confirmedNow || confirmedBefore, "second-request-reaches-the-handler-only-with-credentials-the-backend-confirmed")
	} else {
		vpReach("second-refused")
	}
}

//vp:property C05 C07
//vp:bounds two users open a tunnel one after the other through the real middleware chain EnrichContext -> BasicAuth (backend confirms both; names of 1..2 symbolic bytes, different); the tunnel handler keeps the request's identity for the life of the tunnel, as protocol.Tunnel.User does for a legacy tunnel whose RDG_OUT_DATA handler has returned
//vp:reach both
func VP_C05_basic_two_tunnels() {
	vpResetWeb()
	sessionStore = vpNewStore()
	h := &BasicAuthHandler{SocketAddress: "/tmp/sock", Timeout: 5}
	var kept [2]identity.Identity
	var names [2]string
	for i := 0; i < 2; i++ {
		is := vpItoa(i)
		names[i] = vpString("user"+is, 2)
		vpAssume(len(names[i]) >= 1)
		vpBasicOK, vpBasicUser, vpBasicPass = true, names[i], "pw"
		vpAuthErr, vpAuthRes = nil, &auth.AuthResponse{Authenticated: true}
		next := func(w http.ResponseWriter, r *http.Request) { kept[i] = identity.FromRequestCtx(r) }
		r := vpRequest("RDG_OUT_DATA", http.Header{}, nil)
		r.RemoteAddr = "192.0.2." + is + ":4000"
		EnrichContext(h.BasicAuth(next)).ServeHTTP(vpNewRW(), r)
	}
	vpAssume(names[0] != names[1])
	if kept[0] == nil || kept[1] == nil {
		return
	}
	vpReach("both")
	vpAssert(kept[0].UserName() == names[0], "first-tunnels-user-is-still-the-user-the-backend-confirmed-for-it")
	vpAssert(kept[1].UserName() == names[1], "second-tunnels-user-is-the-user-the-backend-confirmed-for-it")
	a0, _ := kept[0].GetAttribute(identity.AttrClientIp).(string)
	vpAssert(a0 == "192.0.2.0", "first-tunnels-client-address-is-still-its-own")
}

//vp:property C05 C10
//vp:bounds up to seven Basic requests one after the other through one BasicAuthHandler: the first n (0..6) make the call to the authentication service fail (credentials it cannot even be asked about, e.g. bytes gRPC cannot marshal), the last one carries credentials the backend confirms
//vp:assume the authentication service is reachable; every request is answered before the next one arrives
//vp:reach last-served
func VP_C05_basic_after_failures() {
	vpResetWeb()
	sessionStore = vpNewStore()
	h := &BasicAuthHandler{SocketAddress: "/tmp/sock", Timeout: 5}
	vpAuthDB = map[string]string{"alice": "a-secret"}
	vpAssume(!vpBool("grpc-dial-fails"))
	n := vpIntRange("failing-requests-before", 0, 6)
	vpAuthFailFirst = n
	reached := 0
	mw := h.BasicAuth(func(w http.ResponseWriter, r *http.Request) { reached++ })
	mk := func(user, pass string) *http.Request {
		return vpRequest("RDG_OUT_DATA", http.Header{"X-Vp-Basic-User": {user}, "X-Vp-Basic-Pass": {pass}}, identity.NewUser())
	}
	for i := 0; i < n; i++ {
		w := vpNewRW()
		mw(w, mk("al\xffice", "x"))
		vpAssert(w.status == 500 || w.status == 401, "a-request-the-backend-cannot-be-asked-about-is-answered-with-an-error")
	}
	vpAssert(reached == 0, "failed-requests-do-not-reach-the-handler")
	w := vpNewRW()
	mw(w, mk("alice", "a-secret"))
	vpReach("last-served")
	vpAssert(reached == 1, "confirmed-credentials-reach-the-handler-whatever-failed-before")
}

//vp:property C05 C07
//vp:bounds two Basic requests in flight at once through one BasicAuthHandler: mallory with her own, correct password, whose backend call is slow, and — served while that call is pending — a request for the user name administrator with a password the backend does not confirm; both carry the same Rdg-Connection-Id (the two channels of a legacy connection do) or different ones or none
//vp:assume cooperative schedule: the second request runs while the first waits for the backend; the backend answers each call for the credentials of that call
//vp:reach both-answered
func VP_C05_basic_concurrent() {
	vpResetWeb()
	sessionStore = vpNewStore()
	h := &BasicAuthHandler{SocketAddress: "/tmp/sock", Timeout: 5}
	vpAuthDB = map[string]string{"mallory": "m-secret", "administrator": "a-secret"}
	vpAuthSlowFor = "mallory"
	vpAssume(!vpBool("grpc-dial-fails")) // the authentication service is reachable
	var reached []string
	next := func(w http.ResponseWriter, r *http.Request) {
		reached = append(reached, identity.FromRequestCtx(r).UserName())
	}
	ids := vpIntRange("connection-ids", 0, 2) // 0 the same id, 1 different ids, 2 none
	mk := func(user, pass, conn string) *http.Request {
		hdr := http.Header{"X-Vp-Basic-User": {user}, "X-Vp-Basic-Pass": {pass}}
		if ids != 2 {
			hdr["Rdg-Connection-Id"] = []string{conn}
		}
		return vpRequest("RDG_OUT_DATA", hdr, identity.NewUser())
	}
	second := "conn-1"
	if ids == 1 {
		second = "conn-2"
	}
	w1, w2 := vpNewRW(), vpNewRW()
	done := make(chan bool, 1)
	mw := h.BasicAuth(next) // one middleware value serves every request, as the router holds it
	go func() {
		mw(w2, mk("administrator", "guess", second))
		done <- true
	}()
	mw(w1, mk("mallory", "m-secret", "conn-1"))
	<-done
	vpReach("both-answered")
	vpObserve("status1", uint64(w1.status))
	vpObserve("status2", uint64(w2.status))
	vpAssert(len(reached) == 1 && reached[0] == "mallory", "only-the-request-whose-own-credentials-the-backend-confirmed-reaches-the-handler")
	vpAssert(w2.status == 401, "the-other-request-is-refused")
}

//vp:property C05
//vp:set s 2 4
//vp:bounds NTLM/Negotiate scheme, or a Basic header that parses as credentials the password backend confirms: well-formed prefix + payload of <= s bytes; backend: unreachable / RPC error / challenge message / authenticated with user name <= s bytes / not authenticated
//vp:reach passed challenge-relayed rejected
func VP_C05_ntlm() {
	vpResetWeb()
	n := vpParam("s")
	prefix := []string{"NTLM ", "Negotiate ", "Basic "}[vpIntRange("scheme", 0, 2)]
	payload := vpString("payload", n)
	if prefix == "Basic " {
		// a Basic header can reach this middleware (the route matcher looks for the keyword anywhere in the
		// value, and at any of several header lines): it parses as credentials which the PASSWORD backend
		// would confirm — that is no business of the NTLM middleware
		vpBasicOK, vpBasicUser, vpBasicPass = true, "pamuser", "pw"
		vpAuthRes = &auth.AuthResponse{Authenticated: true}
	}
	h := &NTLMAuthHandler{SocketAddress: "", Timeout: 5}
	if vpBool("has-socket") {
		h.SocketAddress = "/tmp/sock"
	}
	if vpBool("rpc-fails") {
		vpNtlmErr = errors.New("vp: rpc failed")
	} else {
		vpNtlmRes = &auth.NtlmResponse{Authenticated: vpBool("backend-says-authenticated"), Username: vpString("backend-user", n), NtlmMessage: vpString("challenge", 2)}
	}
	id := identity.NewUser()
	nextCalls := 0
	var seen identity.Identity
	next := func(w http.ResponseWriter, r *http.Request) {
		nextCalls++
		seen = identity.FromRequestCtx(r)
	}
	w := vpNewRW()
	r := vpRequest("RDG_OUT_DATA", http.Header{"Authorization": {prefix + payload}}, id)
	h.NTLMAuth(next)(w, r)
	vpObserve("status", uint64(w.status))
	vpObserve("next", uint64(nextCalls))

	if nextCalls > 0 {
		vpReach("passed")
		vpAssert(nextCalls == 1, "handler-reached-once")
		vpAssert(vpNtlmCalls == 1 && vpNtlmErr == nil && vpNtlmRes != nil && vpNtlmRes.Authenticated && vpNtlmRes.NtlmMessage == "", "handler-reached-only-when-the-backend-confirmed")
		vpAssert(vpNtlmReqMsg == payload, "backend-sees-exactly-the-presented-message")
		vpAssert(vpNtlmReqSess == r.RemoteAddr, "ntlm-session-is-keyed-by-the-connection")
		vpAssert(seen != nil && seen.Authenticated() && seen.UserName() == vpNtlmRes.Username, "tunnel-user-is-the-name-the-backend-confirmed")
	} else {
		vpAssert(!id.Authenticated(), "identity-not-marked-authenticated")
		c := vpHeaderValues(w, "Www-Authenticate")
		if w.status == 401 && vpNtlmRes != nil && vpNtlmErr == nil && vpNtlmCalls == 1 && vpNtlmRes.NtlmMessage != "" {
			vpReach("challenge-relayed")
			vpAssert(len(c) == 1 && c[0] == prefix+vpNtlmRes.NtlmMessage, "challenge-relayed-with-the-same-scheme-prefix")
		} else if w.status == 401 {
			vpReach("rejected")
			vpAssert(len(c) == 2, "401-offers-ntlm-and-negotiate")
		} else {
			vpAssert(w.status == 500 || h.SocketAddress == "", "otherwise-500")
		}
	}
	if prefix == "Basic " {
		vpAssert(nextCalls == 0 && vpAuthCalls == 0, "a-basic-header-is-refused-by-the-ntlm-middleware-and-not-shown-to-the-password-backend")
	} else if h.SocketAddress != "" && !vpBool("grpc-dial-fails") && vpNtlmErr == nil && vpNtlmRes != nil && vpNtlmRes.Authenticated && vpNtlmRes.NtlmMessage == "" {
		vpAssert(nextCalls == 1, "confirmed-credentials-reach-the-handler")
	}
}

//vp:property C05 C10
//vp:set n 12 16
//vp:bounds every Authorization header value of length 0..n (all bytes) that the route matcher can hand to the NTLM middleware (value contains "NTLM" or "Negotiate" somewhere), backend never authenticates
//vp:assume gorilla/mux HeadersRegexp matches if the header value contains a match of the (unanchored) expression
//vp:reach routed
func VP_C05_ntlm_header() {
	vpResetWeb()
	v := vpString("authz", vpParam("n"))
	// routing precondition (main.go: HeadersRegexp("Authorization", "NTLM") / "Negotiate"): contains the keyword
	has := false
	for i := 0; i+4 <= len(v); i++ {
		if v[i:i+4] == "NTLM" {
			has = true
		}
	}
	for i := 0; i+9 <= len(v); i++ {
		if v[i:i+9] == "Negotiate" {
			has = true
		}
	}
	vpAssume(has)
	vpReach("routed")
	h := &NTLMAuthHandler{SocketAddress: "/tmp/sock", Timeout: 5}
	vpNtlmRes = &auth.NtlmResponse{}
	nextCalls := 0
	next := func(w http.ResponseWriter, r *http.Request) { nextCalls++ }
	w := vpNewRW()
	h.NTLMAuth(next)(w, vpRequest("RDG_OUT_DATA", http.Header{"Authorization": {v}}, identity.NewUser()))
	vpObserve("status", uint64(w.status))
	vpAssert(nextCalls == 0, "malformed-or-unconfirmed-credentials-never-reach-the-handler")
	vpAssert(w.status == 401 || (w.status == 500 && vpBool("grpc-dial-fails")), "refused-with-401-or-500-on-backend-failure")
}

//vp:property C05
//vp:bounds 0..3 registered challenge strings; Authorization header absent / empty / any 1..3 bytes
//vp:reach no-header with-header
func VP_C05_noauthz() {
	a := NewAuthMux()
	k := vpIntRange("schemes", 0, 3)
	all := []string{"Negotiate", `Basic realm="restricted", charset="UTF-8"`, "NTLM"}
	for i := 0; i < k; i++ {
		a.Register(all[i])
	}
	hdr := http.Header{}
	present := vpBool("authz-present")
	val := ""
	if present {
		val = vpString("authz", 3)
		hdr["Authorization"] = []string{val}
	}
	r := vpRequest("RDG_OUT_DATA", hdr, identity.NewUser())
	m := NoAuthz(r, nil)
	vpAssert(m == (!present || val == ""), "noauthz-route-matches-iff-no-authorization-value")
	if m {
		vpReach("no-header")
		w := vpNewRW()
		a.SetAuthenticate(w, r)
		c := vpHeaderValues(w, "Www-Authenticate")
		vpAssert(w.status == 401, "no-credentials-get-401")
		vpAssert(len(c) == k, "one-challenge-per-enabled-scheme")
		for i := 0; i < k && i < len(c); i++ {
			vpAssert(c[i] == all[i], "challenge-is-the-registered-one")
		}
	} else {
		vpReach("with-header")
	}
}
