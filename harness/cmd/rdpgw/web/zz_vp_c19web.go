package web

// C19 — the connection file as the download endpoint produces it, with the repository's real RDP
// builder and the administrator's template (shared harness part "koanf"): settings of the template
// are kept except the ones the gateway must control.

//vp:use koanf

import (
	"context"
	"net/http"
	"net/url"

	"github.com/bolkedebruin/rdpgw/cmd/rdpgw/identity"
	"github.com/bolkedebruin/rdpgw/cmd/rdpgw/protocol"
	"github.com/bolkedebruin/rdpgw/cmd/rdpgw/security"
	rdpparser "github.com/bolkedebruin/rdpgw/cmd/rdpgw/rdp/koanf/parsers/rdp"
)

func vpCountKey(text, key string) int {
	n, start := 0, 0
	for i := 0; i+1 < len(text); i++ {
		if text[i] == '\r' && text[i+1] == '\n' {
			line := text[start:i]
			if len(line) > len(key) && line[:len(key)] == key && line[len(key)] == ':' {
				n++
			}
			start = i + 2
		}
	}
	return n
}

// vpLinesNameSettings: every CRLF-terminated line of text starts with a setting name — lower-case
// letters and blanks, as every setting of the RDP builder is named — followed by a colon.
func vpLinesNameSettings(text string) bool {
	ok := true
	start := 0
	for i := 0; i+1 < len(text); i++ {
		if text[i] == '\r' && text[i+1] == '\n' {
			line := text[start:i]
			j := 0
			for j < len(line) && line[j] != ':' {
				c := line[j]
				ok = vpAnd(ok, vpOr(c == ' ', vpAnd(c >= 'a', c <= 'z')))
				j++
			}
			ok = vpAnd(ok, j > 0 && j < len(line))
			start = i + 2
		}
	}
	return vpAnd(ok, start == len(text))
}

//vp:property C19 C12
//vp:set budget 200 1200
//vp:bounds one or two downloads in a row (same handler, different users) with the administrator's template configured or not. Template (when present): compression:i:0, audiomode:i:2, username:s:tpluser, domain:s:tpldomain, full address:s:elsewhere, gatewayhostname:s:elsewhere, gatewaycredentialssource:i:0, gatewayaccesstoken:s:old, plus symbolic presence of "alternate shell:s:sh". Users: "alice@corp" / "bob" / "carol@lab" / "jürgen" / "dave @ lab" (the last may be refused) (which one downloads first is symbolic); domain splitting and user-name suppression symbolic; host selection roundrobin over one host
//vp:assume as VP_C19_template (koanf / mapstructure models compared with the real libraries natively); fatih/structs answered from the static types
//vp:reach served second
func VP_C19_download_template() {
	vpResetWeb()
	vpRealBuilder = true
	defer func() { vpRealBuilder = false }()
	vpBuilt, vpServed, vpServedBody = nil, 0, ""
	withTpl := vpBool("template-configured")
	hasShell := vpBool("template-has-alternate-shell")
	tpl := ""
	if withTpl {
		text := "compression:i:0\r\naudiomode:i:2\r\nusername:s:tpluser\r\ndomain:s:tpldomain\r\nfull address:s:elsewhere\r\n" +
			"gatewayhostname:s:elsewhere\r\ngatewaycredentialssource:i:0\r\ngatewayaccesstoken:s:old\r\n"
		if hasShell {
			text += "alternate shell:s:sh\r\n"
		}
		tpl = vpTemplateFile(text)
		defer vpRemoveTemplate(tpl)
	}
	split, noUser := vpBool("split"), vpBool("nousername")
	h := (&Config{
		PAATokenGenerator:  func(ctx context.Context, u string, host string) (string, error) { return "PAA-" + u, nil },
		UserTokenGenerator: func(ctx context.Context, u string) (string, error) { return "USERTOKEN", nil },
		Hosts:              []string{"h1:3389"},
		HostSelection:      "roundrobin",
		GatewayAddress:     &url.URL{Host: "gw.example:443"},
		RdpOpts:            RdpOpts{SplitUserDomain: split, NoUsername: noUser},
		TemplateFile:       tpl,
	}).NewHandler()
	users := []string{"alice@corp", "bob", "carol@lab", "j\xc3\xbcrgen", "dave @ lab"} // one with a letter outside ASCII, one with blanks around the @
	ndl := vpIntRange("downloads", 1, 2)
	first := vpIntRange("first-user", 0, 4)
	for k := 0; k < ndl; k++ {
		user := users[(first+k)%5]
		id := identity.NewUser()
		id.SetUserName(user)
		id.SetAuthenticated(true)
		id.SetAttribute(identity.AttrClientIp, "198.51.100.7")
		id.SetAttribute(identity.AttrAccessToken, "AT")
		vpServedBody = ""
		w := vpNewRW()
		h.HandleDownload(w, vpRequest("GET", http.Header{}, id))
		if user == "dave @ lab" && w.status == 400 {
			// what is derived from this name may not fit on a line (a blank at the end of the user part, at the
			// start of the domain): the request may be refused — what must not happen is a file that reads
			// back as something else than the builder held
			vpAssert(vpServed == k, "a-refused-download-serves-nothing")
			return
		}
		vpAssert(w.status == 200 && vpServed == k+1, "file-served")
		if w.status != 200 {
			return
		}
		vpReach("served")
		if k == 1 {
			vpReach("second")
		}
		body := vpServedBody
		vpObserveStr("body", body)
		vpAssert(vpLinesNameSettings(body), "served-file-consists-of-crlf-terminated-lines-that-start-with-a-setting-name")
		m, err := rdpparser.Parser().Unmarshal([]byte(body))
		vpAssert(err == nil, "served-file-is-accepted-by-the-gateways-own-reader")
		if err != nil {
			return
		}
		for _, key := range []string{"username", "domain", "full address", "gatewayhostname", "gatewayaccesstoken", "gatewaycredentialssource", "compression", "audiomode", "alternate shell"} {
			vpAssert(vpCountKey(body, key) <= 1, "at-most-one-line-per-setting")
		}
		str := func(key string) (string, bool) {
			v, ok := m[key]
			if !ok {
				return "", false
			}
			s, _ := v.(string)
			return s, true
		}
		num := func(key string, def int) int {
			v, ok := m[key]
			if !ok {
				return def
			}
			i, _ := v.(int)
			return i
		}
		wantUser, wantDomain := user, ""
		if split {
			for i := 0; i < len(user); i++ {
				if user[i] == '@' {
					wantUser, wantDomain = user[:i], user[i+1:]
					break
				}
			}
		}
		// the settings the gateway must control
		fa, _ := str("full address")
		gh, _ := str("gatewayhostname")
		tok, _ := str("gatewayaccesstoken")
		vpAssert(fa == "h1:3389" && gh == "gw.example:443", "target-and-gateway-are-the-gateways-not-the-templates")
		vpAssert(tok == "PAA-"+wantUser && num("gatewaycredentialssource", 0) == 5, "token-and-credential-source-are-the-gateways")
		vpAssert(num("gatewayprofileusagemethod", 0) == 1 && num("gatewayusagemethod", 0) == 1, "gateway-usage-forced")
		// user name and domain: the caller's unless suppressed; suppressed = what the template says (or nothing)
		un, hasUn := str("username")
		dm, hasDm := str("domain")
		if !noUser {
			vpAssert(hasUn && un == wantUser, "user-name-is-the-callers")
			if wantDomain != "" {
				vpAssert(hasDm && dm == wantDomain, "domain-is-the-callers")
			} else if withTpl {
				vpAssert(hasDm && dm == "tpldomain", "template-domain-kept-when-the-caller-has-none")
			} else {
				vpAssert(!hasDm, "no-domain-line-without-a-domain")
			}
		} else if withTpl {
			vpAssert(hasUn && un == "tpluser" && hasDm && dm == "tpldomain", "suppressed-user-name-and-domain-stay-as-the-template-has-them")
		} else {
			vpAssert(!hasUn && !hasDm, "suppressed-user-name-and-domain-are-absent")
		}
		// the rest of the template is kept
		if withTpl {
			vpAssert(num("compression", 1) == 0 && num("audiomode", 0) == 2, "other-template-settings-kept")
			sh, hasSh := str("alternate shell")
			vpAssert(hasSh == hasShell && (!hasSh || sh == "sh"), "template-string-setting-kept")
		} else {
			vpAssert(num("compression", 1) == 1 && num("audiomode", 0) == 0, "defaults-without-a-template")
		}
	}
}

//vp:property C19
//vp:set s 3 8
//vp:bounds host selection "any": the host query parameter is an ARBITRARY ASCII string of 1..s bytes (CR, LF, blanks, colons included); the session's user name (from the identity provider) an arbitrary ASCII string of 1..2 bytes; no template, no domain splitting
//vp:assume ASCII; real RDP builder (fatih/structs answered from the static types); a request whose host or user name does not fit on a line may be refused (400/500) — a file that IS served must be well-formed and read back as what the builder held
//vp:reach served refused
func VP_C19_download_any_host() {
	vpResetWeb()
	vpRealBuilder = true
	defer func() { vpRealBuilder = false }()
	vpBuilt, vpServed, vpServedBody = nil, 0, ""
	host := vpString("host", vpParam("s"))
	user := vpString("user", 2)
	vpAssume(len(host) >= 1 && len(user) >= 1)
	for i := 0; i < len(host); i++ {
		vpAssume(host[i] < 0x80)
	}
	for i := 0; i < len(user); i++ {
		vpAssume(user[i] < 0x80)
	}
	vpQueryVals = url.Values{"host": {host}}
	h := (&Config{
		PAATokenGenerator:  func(ctx context.Context, u string, host string) (string, error) { return "PAATOKEN", nil },
		UserTokenGenerator: func(ctx context.Context, u string) (string, error) { return "USERTOKEN", nil },
		Hosts:              []string{"h1:3389"},
		HostSelection:      "any",
		GatewayAddress:     &url.URL{Host: "gw.example:443"},
	}).NewHandler()
	id := identity.NewUser()
	id.SetUserName(user)
	id.SetAuthenticated(true)
	id.SetAttribute(identity.AttrClientIp, "198.51.100.7")
	id.SetAttribute(identity.AttrAccessToken, "AT")
	w := vpNewRW()
	h.HandleDownload(w, vpRequest("GET", http.Header{}, id))
	vpObserve("status", uint64(w.status))
	if vpServed == 0 {
		vpReach("refused")
		vpAssert(w.status == 400 || w.status == 500, "refusal-status")
		return
	}
	vpReach("served")
	body := vpServedBody
	vpObserveStr("body", body)
	vpAssert(vpBuilt != nil, "file-built")
	if vpBuilt == nil {
		return
	}
	vpAssert(vpLinesNameSettings(body), "served-file-consists-of-crlf-terminated-lines-that-start-with-a-setting-name")
	m, err := rdpparser.Parser().Unmarshal([]byte(body))
	vpAssert(err == nil, "served-file-is-accepted-by-the-gateways-own-reader")
	if err != nil {
		return
	}
	for _, key := range []string{"username", "full address", "gatewayhostname", "gatewayaccesstoken", "gatewaycredentialssource", "gatewayusagemethod"} {
		vpAssert(vpCountKey(body, key) == 1, "exactly-one-line-per-forced-setting")
	}
	fa, _ := m["full address"].(string)
	un, _ := m["username"].(string)
	gh, _ := m["gatewayhostname"].(string)
	vpAssert(fa == vpBuilt.Settings.FullAddress && fa == host, "target-reads-back-as-the-builder-held-it")
	vpAssert(un == vpBuilt.Settings.Username && un == user, "user-name-reads-back-as-the-builder-held-it")
	vpAssert(gh == "gw.example:443", "gateway-reads-back-as-configured")
}

//vp:property C03 C12 C07
//vp:bounds the download endpoint and the tunnel's host policy share ONE host list, as main() wires them (security.Hosts and web.Config.Hosts are the same slice): one templated entry "pc-" + placeholder and one plain entry; host selection unsigned; user "al" downloads a connection file for the plain host, then the tunnel of user "bo" asks for its own machine "pc-bo" and for al's machine "pc-al"
//vp:assume real RDP builder; the policy is the security package's CheckHost, executed for real
//vp:reach downloaded
func VP_C03_hosts_shared_with_policy() {
	vpResetWeb()
	vpRealBuilder = true
	defer func() { vpRealBuilder = false }()
	vpBuilt, vpServed, vpServedBody = nil, 0, ""
	hosts := []string{"pc-{{ preferred_username }}", "shared.example"}
	saveHosts, saveSel := security.Hosts, security.HostSelection
	security.Hosts, security.HostSelection = hosts, "unsigned"
	defer func() { security.Hosts, security.HostSelection = saveHosts, saveSel }()
	h := (&Config{
		PAATokenGenerator:  func(ctx context.Context, u string, host string) (string, error) { return "PAATOKEN", nil },
		UserTokenGenerator: func(ctx context.Context, u string) (string, error) { return "USERTOKEN", nil },
		Hosts:              hosts,
		HostSelection:      "unsigned",
		GatewayAddress:     &url.URL{Host: "gw.example:443"},
	}).NewHandler()
	asked := []string{"shared.example", "pc-al"}[vpIntRange("al-downloads-a-file-for", 0, 1)]
	vpQueryVals = url.Values{"host": {asked}}
	id := identity.NewUser()
	id.SetUserName("al")
	id.SetAuthenticated(true)
	id.SetAttribute(identity.AttrClientIp, "198.51.100.7")
	id.SetAttribute(identity.AttrAccessToken, "AT")
	w := vpNewRW()
	h.HandleDownload(w, vpRequest("GET", http.Header{}, id))
	vpObserve("status", uint64(w.status))
	vpReach("downloaded")
	// the tunnel of another user is judged by the configured list, rendered for THAT user
	bo := identity.NewUser()
	bo.SetUserName("bo")
	tun := &protocol.Tunnel{User: bo}
	ctx := context.WithValue(context.Background(), protocol.CtxTunnel, tun)
	own, _ := security.CheckHost(ctx, "pc-bo")
	other, _ := security.CheckHost(ctx, "pc-al")
	shared, _ := security.CheckHost(ctx, "shared.example")
	vpAssert(own, "a-users-own-machine-stays-allowed-after-another-users-download")
	vpAssert(!other, "another-users-machine-stays-refused-after-that-users-download")
	vpAssert(shared, "the-plain-entry-stays-allowed")
	vpAssert(hosts[0] == "pc-{{ preferred_username }}" && hosts[1] == "shared.example", "the-configured-host-list-is-not-rewritten")
}
