package web

// Shared harness scaffolding for package web (overlay only).

import (
	"context"
	"errors"
	"net"
	"net/http"
	"net/url"
	"strconv"
	"time"

	"github.com/bolkedebruin/rdpgw/cmd/rdpgw/identity"
	"github.com/bolkedebruin/rdpgw/shared/auth"
	"github.com/google/uuid"
	"google.golang.org/grpc"
	"google.golang.org/grpc/credentials"
)

//vp:all model github.com/google/uuid.New = vpmUUIDNew
//vp:all stub google.golang.org/grpc.Dial = vpGrpcDial
//vp:all stub (*google.golang.org/grpc.ClientConn).Close = vpGrpcClose
//vp:all stub google.golang.org/grpc.WithTransportCredentials = vpGrpcWithCreds
//vp:all stub google.golang.org/grpc.WithContextDialer = vpGrpcWithDialer
//vp:all stub google.golang.org/grpc/credentials/insecure.NewCredentials = vpInsecureCreds
//vp:all stub github.com/bolkedebruin/rdpgw/shared/auth.NewAuthenticateClient = vpNewAuthClient
//vp:all stub (*net/http.Request).BasicAuth = vpBasicAuth
//vp:all stub time.Now = vpNow
//vp:all stub (*net/url.URL).Query = vpURLQuery

func vpmUUIDNew() uuid.UUID { return uuid.UUID{} }
func vpItoa(i int) string   { return strconv.Itoa(i) }

// ---- HTTP recorder ----

type vpRW struct {
	hdr    http.Header
	status int
	body   []byte
	nwh    int
}

func vpNewRW() *vpRW { return &vpRW{hdr: http.Header{}} }

func (w *vpRW) Header() http.Header { return w.hdr }
func (w *vpRW) WriteHeader(c int) {
	w.nwh++
	if w.status == 0 {
		w.status = c
	}
}
func (w *vpRW) Write(b []byte) (int, error) {
	if w.status == 0 {
		w.status = 200
	}
	w.body = append(w.body, b...)
	return len(b), nil
}

// vpRequest: a request carrying id in its context, with the given header map.
func vpRequest(method string, hdr http.Header, id identity.Identity) *http.Request {
	r := &http.Request{Method: method, Header: hdr, URL: &url.URL{Path: "/"}, RemoteAddr: "192.0.2.9:4242", RequestURI: "/connect"}
	if id != nil {
		r = identity.AddToRequestCtx(id, r)
	}
	return r
}

// ---- gRPC / authentication service environment ----

var (
	vpDialed      int
	vpClosed      int
	vpAuthReqUser string
	vpAuthReqPass string
	vpAuthCalls   int
	vpNtlmReqMsg  string
	vpNtlmReqSess string
	vpNtlmCalls   int
	vpAuthRes     *auth.AuthResponse
	vpAuthErr     error
	vpNtlmRes     *auth.NtlmResponse
	vpNtlmErr     error
	vpBasicUser   string
	vpBasicPass   string
	vpBasicOK     bool
	vpQueryVals   url.Values
	vpNowCalls    int
)

func vpResetWeb() {
	vpDialed, vpClosed, vpAuthCalls, vpNtlmCalls, vpNowCalls = 0, 0, 0, 0, 0
	vpAuthReqUser, vpAuthReqPass, vpNtlmReqMsg, vpNtlmReqSess = "", "", "", ""
	vpAuthRes, vpAuthErr, vpNtlmRes, vpNtlmErr = nil, nil, nil, nil
	vpBasicUser, vpBasicPass, vpBasicOK = "", "", false
	vpQueryVals = nil
}

func vpGrpcDial(target string, opts ...grpc.DialOption) (*grpc.ClientConn, error) {
	vpDialed++
	if vpBool("grpc-dial-fails") {
		return nil, errors.New("vp: cannot reach authentication provider")
	}
	return nil, nil
}
func vpGrpcClose(c *grpc.ClientConn) error { vpClosed++; return nil }
func vpGrpcWithCreds(c credentials.TransportCredentials) grpc.DialOption { return nil }
func vpGrpcWithDialer(f func(context.Context, string) (net.Conn, error)) grpc.DialOption {
	return nil
}
func vpInsecureCreds() credentials.TransportCredentials { return nil }

type vpAuthClient struct{}

func (vpAuthClient) Authenticate(ctx context.Context, in *auth.UserPass, opts ...grpc.CallOption) (*auth.AuthResponse, error) {
	vpAuthCalls++
	vpAuthReqUser, vpAuthReqPass = in.Username, in.Password
	return vpAuthRes, vpAuthErr
}
func (vpAuthClient) NTLM(ctx context.Context, in *auth.NtlmRequest, opts ...grpc.CallOption) (*auth.NtlmResponse, error) {
	vpNtlmCalls++
	vpNtlmReqMsg, vpNtlmReqSess = in.NtlmMessage, in.Session
	return vpNtlmRes, vpNtlmErr
}
func vpNewAuthClient(cc grpc.ClientConnInterface) auth.AuthenticateClient { return vpAuthClient{} }

func vpBasicAuth(r *http.Request) (string, string, bool) { return vpBasicUser, vpBasicPass, vpBasicOK }
func vpURLQuery(u *url.URL) url.Values                  { return vpQueryVals }

func vpNow() time.Time {
	vpNowCalls++
	s := int64(vpU64("now" + vpItoa(vpNowCalls)))
	vpAssume(s >= 978307200 && s <= 4102444800)
	return time.Unix(s, 0)
}

func vpHeaderValues(w *vpRW, key string) []string { return w.hdr[key] }
