package web

//vp:use promstub
//vp:all model regexp.MustCompile = vpmRegexpMustCompile
//vp:all model (*regexp.Regexp).ReplaceAllString = vpmRegexpReplaceAllString

// Shared harness scaffolding for package web (overlay only).

import (
	"context"
	"errors"
	"io"
	"net"
	"net/http"
	"net/url"
	"strconv"
	"time"

	"github.com/bolkedebruin/rdpgw/cmd/rdpgw/identity"
	"github.com/bolkedebruin/rdpgw/shared/auth"
	"github.com/google/uuid"
	"google.golang.org/grpc"
	"google.golang.org/grpc/credentials"
)

//vp:all model github.com/google/uuid.New = vpmUUIDNew
//vp:all stub google.golang.org/grpc.Dial = vpGrpcDial
//vp:all stub (*google.golang.org/grpc.ClientConn).Close = vpGrpcClose
//vp:all stub google.golang.org/grpc.WithTransportCredentials = vpGrpcWithCreds
//vp:all stub google.golang.org/grpc.WithContextDialer = vpGrpcWithDialer
//vp:all stub google.golang.org/grpc/credentials/insecure.NewCredentials = vpInsecureCreds
//vp:all stub github.com/bolkedebruin/rdpgw/shared/auth.NewAuthenticateClient = vpNewAuthClient
//vp:all stub (*net/http.Request).BasicAuth = vpBasicAuth
//vp:all stub time.Now = vpNow
//vp:all stub time.Until = vpUntil
//vp:all stub time.Since = vpSince
//vp:all stub (*net/url.URL).Query = vpURLQuery
//vp:all stub net/http.MaxBytesReader = vpMaxBytesReader
//vp:all stub (*net/http.Request).FormValue = vpFormValue
//vp:all stub (*net/http.Request).PostFormValue = vpPostFormValue

func vpmUUIDNew() uuid.UUID { return uuid.UUID{} }
func vpItoa(i int) string   { return strconv.Itoa(i) }

// ---- HTTP recorder ----

type vpRW struct {
	hdr    http.Header
	status int
	body   []byte
	nwh    int
}

func vpNewRW() *vpRW { return &vpRW{hdr: http.Header{}} }

func (w *vpRW) Header() http.Header { return w.hdr }
func (w *vpRW) WriteHeader(c int) {
	w.nwh++
	if w.status == 0 {
		w.status = c
	}
}
func (w *vpRW) Write(b []byte) (int, error) {
	if w.status == 0 {
		w.status = 200
	}
	w.body = append(w.body, b...)
	return len(b), nil
}

// vpRequest: a request carrying id in its context, with the given header map.
func vpRequest(method string, hdr http.Header, id identity.Identity) *http.Request {
	r := &http.Request{Method: method, Header: hdr, URL: &url.URL{Path: "/"}, RemoteAddr: "192.0.2.9:4242", RequestURI: "/connect"}
	if id != nil {
		// the identity as EnrichContext leaves it before any middleware runs: the peer address and the
		// client address (first X-Forwarded-For element or the peer's host) are recorded as attributes
		if id.GetAttribute(identity.AttrRemoteAddr) == nil {
			id.SetAttribute(identity.AttrRemoteAddr, r.RemoteAddr)
		}
		if id.GetAttribute(identity.AttrClientIp) == nil {
			id.SetAttribute(identity.AttrClientIp, "198.51.100.7")
		}
		r = identity.AddToRequestCtx(id, r)
	}
	return r
}

// ---- gRPC / authentication service environment ----

var (
	vpDialed      int
	vpClosed      int
	vpAuthReqUser string
	vpAuthReqPass string
	vpAuthCalls   int
	vpNtlmReqMsg  string
	vpNtlmReqSess string
	vpNtlmCalls   int
	vpAuthRes     *auth.AuthResponse
	vpAuthErr     error
	vpNtlmRes     *auth.NtlmResponse
	vpNtlmErr     error
	vpAuthDB      map[string]string
	vpAuthSlowFor string
	vpAuthFailFirst int // the first so many calls to the authentication service fail (e.g. credentials gRPC cannot marshal)
	vpBasicUser   string
	vpBasicPass   string
	vpBasicOK     bool
	vpQueryVals   url.Values
	vpNowCalls    int
)

func vpResetWeb() {
	vpDialed, vpClosed, vpAuthCalls, vpNtlmCalls, vpNowCalls = 0, 0, 0, 0, 0
	vpAuthReqUser, vpAuthReqPass, vpNtlmReqMsg, vpNtlmReqSess = "", "", "", ""
	vpAuthRes, vpAuthErr, vpNtlmRes, vpNtlmErr = nil, nil, nil, nil
	vpBasicUser, vpBasicPass, vpBasicOK = "", "", false
	vpAuthDB, vpAuthSlowFor, vpAuthFailFirst = nil, "", 0
	vpQueryVals = nil
	vpFormVals = nil
	vpMetricLabels = nil
	vpLastSec, vpLastNow = 0, time.Time{}
	vpDurKnown = false
}

func vpGrpcDial(target string, opts ...grpc.DialOption) (*grpc.ClientConn, error) {
	vpDialed++
	if vpBool("grpc-dial-fails") {
		return nil, errors.New("vp: cannot reach authentication provider")
	}
	return nil, nil
}
func vpGrpcClose(c *grpc.ClientConn) error { vpClosed++; return nil }
func vpGrpcWithCreds(c credentials.TransportCredentials) grpc.DialOption { return nil }
func vpGrpcWithDialer(f func(context.Context, string) (net.Conn, error)) grpc.DialOption {
	return nil
}
func vpInsecureCreds() credentials.TransportCredentials { return nil }

type vpAuthClient struct{}

func (vpAuthClient) Authenticate(ctx context.Context, in *auth.UserPass, opts ...grpc.CallOption) (*auth.AuthResponse, error) {
	vpAuthCalls++
	vpAuthReqUser, vpAuthReqPass = in.Username, in.Password
	if vpAuthCalls <= vpAuthFailFirst {
		return nil, errors.New("vp: rpc error: the request could not be marshalled")
	}
	if vpAuthDB != nil {
		// a backend with accounts: the verdict belongs to the credentials of THIS call; a slow account
		// (pam_faildelay, a remote directory) lets the gateway serve other requests meanwhile
		if in.Username == vpAuthSlowFor {
			vpRunTasks()
		}
		pw, known := vpAuthDB[in.Username]
		return &auth.AuthResponse{Authenticated: known && pw == in.Password}, nil
	}
	return vpAuthRes, vpAuthErr
}
func (vpAuthClient) NTLM(ctx context.Context, in *auth.NtlmRequest, opts ...grpc.CallOption) (*auth.NtlmResponse, error) {
	vpNtlmCalls++
	vpNtlmReqMsg, vpNtlmReqSess = in.NtlmMessage, in.Session
	return vpNtlmRes, vpNtlmErr
}
func vpNewAuthClient(cc grpc.ClientConnInterface) auth.AuthenticateClient { return vpAuthClient{} }

func vpBasicAuth(r *http.Request) (string, string, bool) {
	if u := r.Header["X-Vp-Basic-User"]; len(u) == 1 {
		// credentials of this very request (harnesses with several requests in flight)
		return u[0], r.Header.Get("X-Vp-Basic-Pass"), true
	}
	return vpBasicUser, vpBasicPass, vpBasicOK
}
func vpURLQuery(u *url.URL) url.Values                  { return vpQueryVals }

// a request's parameters: the query string, and — for FormValue — a posted form, which comes first
var vpFormVals url.Values

func vpFormValue(r *http.Request, key string) string {
	if vs := vpFormVals[key]; len(vs) > 0 {
		return vs[0]
	}
	return vpQueryVals.Get(key)
}
func vpPostFormValue(r *http.Request, key string) string { return vpFormVals.Get(key) }

// time.Until / time.Since on the harness clock, in whole seconds (the clock has no finer grain). The
// seconds are remembered beside the Duration so that the models which consume the Duration (go-cache
// lifetimes) need not divide a symbolic value by 1e9 — a kernel no solver here decides.
var vpDurKnown bool
var vpDurLast time.Duration
var vpDurLastSec int64

func vpMkDur(sec int64) time.Duration {
	vpDurKnown, vpDurLastSec = true, sec
	vpDurLast = time.Duration(sec) * time.Second
	return vpDurLast
}
func vpUntil(t time.Time) time.Duration { return vpMkDur(t.Unix() - vpNow().Unix()) }
func vpSince(t time.Time) time.Duration { return vpMkDur(vpNow().Unix() - t.Unix()) }

// vpDurSeconds: d in whole seconds.
func vpDurSeconds(d time.Duration) int64 {
	if vpDurKnown && d == vpDurLast {
		return vpDurLastSec
	}
	return int64(d / time.Second)
}

// time.Now: arbitrary non-decreasing instants between 2001 and 2100.
var vpLastNow time.Time
var vpLastSec int64

func vpNow() time.Time {
	vpNowCalls++
	s := int64(vpU64("now" + vpItoa(vpNowCalls)))
	vpAssume(s >= 978307200 && s <= 4102444800)
	vpAssume(s >= vpLastSec)
	vpLastSec = s
	vpLastNow = time.Unix(s, 0)
	return vpLastNow
}

func vpHeaderValues(w *vpRW, key string) []string { return w.hdr[key] }



// http.MaxBytesReader as documented: reads fail once more than n bytes have been read.
type vpMaxBytes struct {
	r    io.ReadCloser
	left int64
}

func (m *vpMaxBytes) Read(p []byte) (int, error) {
	if m.left <= 0 {
		return 0, errors.New("http: request body too large")
	}
	if int64(len(p)) > m.left {
		p = p[:m.left]
	}
	n, err := m.r.Read(p)
	m.left -= int64(n)
	return n, err
}
func (m *vpMaxBytes) Close() error { return m.r.Close() }
func vpMaxBytesReader(w http.ResponseWriter, r io.ReadCloser, n int64) io.ReadCloser {
	return &vpMaxBytes{r: r, left: n}
}

// vpSizedBody: a request body of a given size (content irrelevant).
type vpSizedBody struct{ left int }

func (b *vpSizedBody) Read(p []byte) (int, error) {
	if b.left == 0 {
		return 0, io.EOF
	}
	n := len(p)
	if n > b.left {
		n = b.left
	}
	b.left -= n
	return n, nil
}
func (b *vpSizedBody) Close() error { return nil }
