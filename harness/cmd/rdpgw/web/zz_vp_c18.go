package web

// C18 — start-up refusals in package web: no hosts, short session keys.

import (
	"net/http"

	"github.com/gorilla/sessions"
)

//vp:all stub log.Fatal = vpFatal
//vp:all stub github.com/gorilla/sessions.NewCookieStore = vpNewCookieStore
//vp:all stub github.com/gorilla/sessions.NewFilesystemStore = vpNewFSStore
//vp:all stub (*github.com/gorilla/sessions.FilesystemStore).MaxLength = vpFSMaxLength
//vp:all stub os.TempDir = vpTempDir

var vpStoreKeys [][]byte
var vpStoreKind string
var vpFSMax int

type vpGStore struct{}

func (vpGStore) Get(r *http.Request, name string) (*sessions.Session, error) { return nil, nil }
func (vpGStore) New(r *http.Request, name string) (*sessions.Session, error) { return nil, nil }
func (vpGStore) Save(r *http.Request, w http.ResponseWriter, s *sessions.Session) error {
	return nil
}

func vpNewCookieStore(keyPairs ...[]byte) *sessions.CookieStore {
	vpStoreKeys, vpStoreKind = keyPairs, "cookie"
	return &sessions.CookieStore{}
}
func vpNewFSStore(path string, keyPairs ...[]byte) *sessions.FilesystemStore {
	vpStoreKeys, vpStoreKind = keyPairs, "file"
	return &sessions.FilesystemStore{}
}
func vpFSMaxLength(s *sessions.FilesystemStore, l int) { vpFSMax = l }
func vpTempDir() string                                 { return "/tmp" }

//vp:property C18
//vp:bounds host list of 0..2 entries; the empty list either absent (nil) or present but empty (what `Hosts: []` in the configuration file decodes to)
//vp:reach refused built
func VP_C18_handler() {
	n := vpIntRange("nhosts", 0, 2)
	var hosts []string
	if n == 0 && vpBool("empty-list-is-present") {
		hosts = []string{}
	}
	for i := 0; i < n; i++ {
		hosts = append(hosts, "h"+vpItoa(i))
	}
	var h *Handler
	fatal := vpCatchFatal(func() { h = (&Config{Hosts: hosts}).NewHandler() })
	vpAssert(fatal == (n == 0), "refuses-to-start-iff-no-hosts-are-configured")
	if fatal {
		vpReach("refused")
	} else {
		vpReach("built")
		vpAssert(h != nil && len(h.hosts) == n, "handler-keeps-the-host-list")
	}
}

//vp:property C18
//vp:bounds session key and session encryption key each of every length 0..40 (symbolic content); store type cookie / file / other; max length 0 or 4096
//vp:reach refused cookie file
func VP_C18_store() {
	vpStoreKeys, vpStoreKind, vpFSMax = nil, "", -1
	k1 := vpBytes("session-key", 40)
	k2 := vpBytes("encryption-key", 40)
	st := []string{"cookie", "file", "bogus"}[vpIntRange("store", 0, 2)]
	ml := []int{0, 4096}[vpIntRange("maxlen", 0, 1)]
	fatal := vpCatchFatal(func() { InitStore(k1, k2, st, ml) })
	vpAssert(fatal == (len(k1) < 32 || len(k2) < 32), "refuses-to-start-iff-a-session-key-is-shorter-than-32-bytes")
	if fatal {
		vpReach("refused")
		vpAssert(vpStoreKind == "", "no-store-built-with-a-short-key")
		return
	}
	vpAssert(len(vpStoreKeys) == 2 && string(vpStoreKeys[0]) == string(k1) && string(vpStoreKeys[1]) == string(k2), "store-uses-the-configured-key-pair")
	if st == "file" {
		vpReach("file")
		vpAssert(vpStoreKind == "file", "file-store-selected")
		if ml == 0 {
			vpAssert(vpFSMax == 8192, "default-session-length")
		} else {
			vpAssert(vpFSMax == ml, "configured-session-length")
		}
	} else {
		vpReach("cookie")
		vpAssert(vpStoreKind == "cookie", "cookie-store-otherwise")
	}
}
