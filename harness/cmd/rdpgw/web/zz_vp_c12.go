package web

// C12 — connection files go only to logged-in sessions and bind user, host and address.
// C15 — token-info endpoint statuses.

import (
	"context"
	"errors"
	"encoding/json"
	"hash/maphash"
	"io"
	"math/rand"
	"net/http"
	"net/url"
	"time"

	"github.com/bolkedebruin/rdpgw/cmd/rdpgw/identity"
	"github.com/bolkedebruin/rdpgw/cmd/rdpgw/rdp"
	"github.com/go-jose/go-jose/v4/jwt"
)

//vp:all stub github.com/bolkedebruin/rdpgw/cmd/rdpgw/rdp.NewBuilder = vpNewBuilder
//vp:all stub github.com/bolkedebruin/rdpgw/cmd/rdpgw/rdp.NewBuilderFromFile = vpNewBuilderFromFile
//vp:all stub (*github.com/bolkedebruin/rdpgw/cmd/rdpgw/rdp.Builder).String = vpBuilderString
//vp:all stub net/http.ServeContent = vpServeContent
//vp:all stub math/rand.New = vpRandNew
//vp:all stub math/rand.NewSource = vpRandNewSource
//vp:all stub (*math/rand.Rand).Intn = vpIntn
//vp:all stub (*hash/maphash.Hash).Sum64 = vpSum64
//vp:all stub github.com/bolkedebruin/rdpgw/cmd/rdpgw/security.UserInfo = vpSecUserInfo
//vp:all stub (*encoding/json.Encoder).Encode = vpJSONEncode
//vp:all stub encoding/json.NewEncoder = vpJSONNewEncoder
//vp:all stub encoding/json.Marshal = vpJSONMarshal

var (
	vpBuilt    *rdp.Builder
	vpServed   int
	vpServedAs string
)

// vpRealBuilder: the harness runs the repository's real RDP builder (package rdp, with the shared koanf /
// mapstructure models below it) instead of the empty stand-in.
var vpRealBuilder bool
var vpServedBody string

func vpNewBuilder() *rdp.Builder {
	if vpRealBuilder {
		return rdp.NewBuilder()
	}
	return &rdp.Builder{}
}
func vpNewBuilderFromFile(f string) (*rdp.Builder, error) {
	if vpRealBuilder {
		return rdp.NewBuilderFromFile(f)
	}
	if vpBool("template-unreadable") {
		return nil, errors.New("vp: cannot load template")
	}
	return &rdp.Builder{}, nil
}
func vpBuilderString(b *rdp.Builder) string {
	vpBuilt = b
	if vpRealBuilder {
		return b.String()
	}
	return "RDPFILE"
}
func vpServeContent(w http.ResponseWriter, r *http.Request, name string, t time.Time, c io.ReadSeeker) {
	vpServed++
	vpServedAs = name
	if vpRealBuilder {
		data, _ := io.ReadAll(c)
		vpServedBody = string(data)
	}
	w.WriteHeader(200)
}
func vpRandNew(s rand.Source) *rand.Rand     { return nil }
func vpRandNewSource(seed int64) rand.Source { return nil }
func vpIntn(r *rand.Rand, n int) int         { return vpIntRange("rnd", 0, n-1) }

func vpSum64(h *maphash.Hash) uint64 { return 0 }

var (
	vpUICalls int
	vpUITok   string
)

// security.UserInfo is verified in its own package (VP_C15_verify); here it is an arbitrary verdict.
func vpSecUserInfo(ctx context.Context, token string) (jwt.Claims, error) {
	vpUICalls++
	vpUITok = token
	c := jwt.Claims{Subject: vpStringN("sub", 2), Issuer: "rdpgw"}
	if !vpBool("token-verifies") {
		return c, errors.New("vp: token refused") // like the real function: claims so far, plus the error
	}
	return c, nil
}

var vpEncoded int

// json.Marshal (an equivalent way to produce the claims body): counted like Encode
func vpJSONMarshal(v interface{}) ([]byte, error) {
	vpEncoded++
	return []byte("{}"), nil
}

var vpJSONW io.Writer

func vpJSONNewEncoder(w io.Writer) *json.Encoder { vpJSONW = w; return nil }
func vpJSONEncode(e *json.Encoder, v interface{}) error {
	vpEncoded++
	vpJSONW.Write([]byte("{}\n")) // the first body write makes the status 200, as in net/http
	return nil
}

func vpHostListW(n, affix int) []string {
	var hs []string
	for i := 0; i < n; i++ {
		is := vpItoa(i)
		pre, suf := vpString("pre"+is, affix), vpString("suf"+is, affix)
		for _, x := range []string{pre, suf} {
			for j := 0; j < len(x); j++ {
				vpAssume(vpAnd(x[j] > 0x20, x[j] < 0x7f)) // printable ASCII around the placeholder
			}
		}
		h := pre
		if vpBool("ph" + is) {
			h += "{{ preferred_username }}"
		}
		h += suf
		hs = append(hs, h)
	}
	return hs
}

func vpReplaceFirstW(s, old, new string) string {
	for i := 0; i+len(old) <= len(s); i++ {
		if s[i:i+len(old)] == old {
			return s[:i] + new + s[i+len(old):]
		}
	}
	return s
}

func vpInList(l []string, s string) bool {
	for _, x := range l {
		if x == s {
			return true
		}
	}
	return false
}

//vp:property C12
//vp:set hosts 2 3
//vp:set affix 1 1
//vp:set s 1 1
//vp:set budget 900 2400
//vp:set maxpaths 200000 1500000
//vp:bounds session authenticated or not; selection mode in {roundrobin, signed, unsigned, any, other}; 1..hosts entries prefix++[placeholder]++suffix (affixes <= affix bytes); host query parameter absent, or one or two values of <= s+1 bytes each; query-token verdict arbitrary (verified in VP_C12_queryinfo) with subject <= s+1 bytes; user name of <= s+1 bytes with or without '@' (all strings printable ASCII without blanks); domain splitting, user-name template, no-username switches; token generators succeeding/failing
//vp:reach served refused unauth
func VP_C12_download() {
	vpResetWeb()
	vpBuilt, vpServed = nil, 0
	n := vpParam("s")
	mode := []string{"roundrobin", "signed", "unsigned", "any", "bogus"}[vpIntRange("mode", 0, 4)]
	hosts := vpHostListW(vpIntRange("nhosts", 1, vpParam("hosts")), vpParam("affix"))
	user := vpString("user", n+1)
	id := identity.NewUser()
	id.SetUserName(user)
	id.SetAuthenticated(vpBool("session-authenticated"))
	id.SetAttribute(identity.AttrClientIp, "198.51.100.7")
	id.SetAttribute(identity.AttrAccessToken, "AT")

	qHost := ""
	vpQueryVals = url.Values{}
	hasQ := vpBool("has-host-param")
	if hasQ {
		qHost = vpString("qhost", n+1)
		vpQueryVals["host"] = []string{qHost}
		if (mode == "unsigned" || mode == "any") && vpBool("host-param-repeated") {
			// ?host=a&host=b: the first value is the one that counts everywhere
			vpQueryVals["host"] = append(vpQueryVals["host"], vpStringN("qhost2", n+1))
		}
	}
	qiCalls, qiTok, qiIss := 0, "", ""
	qiSubject := ""
	genCalls, genUser, genHost := 0, "", ""
	h := (&Config{
		PAATokenGenerator: func(ctx context.Context, u string, host string) (string, error) {
			genCalls++
			genUser, genHost = u, host
			if vpBool("paa-generator-fails") {
				return "", errors.New("vp: cannot mint")
			}
			return "PAATOKEN", nil
		},
		UserTokenGenerator: func(ctx context.Context, u string) (string, error) { return "USERTOKEN", nil },
		QueryInfo: func(ctx context.Context, tok string, iss string) (string, error) {
			qiCalls++
			qiTok, qiIss = tok, iss
			if !vpBool("query-token-verifies") {
				return "", errors.New("vp: query token refused")
			}
			qiSubject = vpString("qsubject", n+1)
			for i := 0; i < len(qiSubject); i++ {
				vpAssume(vpAnd(qiSubject[i] > 0x20, qiSubject[i] < 0x7f))
			}
			return qiSubject, nil
		},
		QueryTokenIssuer: "issuer-x",
		Hosts:            hosts,
		HostSelection:    mode,
		GatewayAddress:   &url.URL{Host: "gw.example:443"},
		RdpOpts:          RdpOpts{SplitUserDomain: vpBool("split"), NoUsername: vpBool("nousername")},
	}).NewHandler()
	// ASCII only (strings.TrimSpace's Unicode path is outside the bound); values that do not fit on a line
	// of a connection file (line breaks, blanks at the ends) are the subject of VP_C19_download_any_host
	for _, x := range []string{user, qHost} {
		for i := 0; i < len(x); i++ {
			vpAssume(vpAnd(x[i] > 0x20, x[i] < 0x7f))
		}
	}
	w := vpNewRW()
	h.HandleDownload(w, vpRequest("GET", http.Header{}, id))
	vpObserve("status", uint64(w.status))
	vpObserve("gen", uint64(genCalls))

	if !id.Authenticated() {
		vpReach("unauth")
		vpAssert(genCalls == 0 && vpServed == 0 && w.status != 200, "no-token-and-no-file-for-unauthenticated-sessions")
		return
	}
	if vpServed == 0 {
		vpReach("refused")
		vpAssert(w.status == 400 || w.status == 500, "refusal-status")
		return
	}
	vpReach("served")
	vpAssert(genCalls == 1 && vpServed == 1 && w.status == 200, "exactly-one-token-per-file")
	// host selected by policy
	sel := ""
	switch mode {
	case "roundrobin", "bogus":
		sel = hosts[vpIntRange("rnd", 0, len(hosts)-1)]
	case "unsigned":
		vpAssert(hasQ && vpInList(hosts, qHost), "unsigned-host-is-a-configured-entry")
		sel = qHost
	case "signed":
		vpAssert(hasQ && qiCalls == 1 && qiTok == qHost && qiIss == "issuer-x" && vpBool("query-token-verifies"), "signed-host-comes-from-a-verified-query-token")
		vpAssert(vpInList(hosts, qiSubject), "signed-host-is-a-configured-entry")
		sel = qiSubject
	case "any":
		vpAssert(hasQ, "any-host-is-the-requested-value")
		sel = qHost
	}
	wantHost := vpReplaceFirstW(sel, "{{ preferred_username }}", user)
	vpAssert(genHost == wantHost, "token-host-is-the-selected-host-with-the-user-substituted")
	// user (domain part removed when splitting)
	wantUser, wantDomain := user, ""
	if h.rdpOpts.SplitUserDomain {
		for i := 0; i < len(user); i++ {
			if user[i] == '@' {
				wantUser, wantDomain = user[:i], user[i+1:]
				break
			}
		}
	}
	vpAssert(genUser == wantUser, "token-user-is-the-session-user-without-domain-when-splitting")
	// forced settings
	vpAssert(vpBuilt != nil, "file-built")
	if vpBuilt == nil {
		return
	}
	st := vpBuilt.Settings
	vpAssert(st.FullAddress == wantHost, "file-target-is-the-token-host")
	vpAssert(st.GatewayHostname == "gw.example:443", "file-names-the-configured-gateway")
	vpAssert(st.GatewayCredentialsSource == 5 && st.GatewayCredentialMethod == 1 && st.GatewayUsageMethod == 1, "file-forces-cookie-credentials-through-the-gateway")
	vpAssert(st.GatewayAccessToken == "PAATOKEN", "file-carries-the-minted-token")
	if h.rdpOpts.NoUsername {
		vpAssert(st.Username == "" && st.Domain == "", "no-username-suppresses-user-and-domain")
	} else {
		vpAssert(st.Username == wantUser && st.Domain == wantDomain, "file-user-and-domain")
	}
}

//vp:property C15
//vp:set s 2 4
//vp:bounds method GET or any other string of <= s bytes; access_token parameter absent / empty / s symbolic bytes; verification verdict arbitrary
//vp:reach ok bad-method missing refused
func VP_C15_tokeninfo() {
	vpResetWeb()
	vpUICalls, vpEncoded = 0, 0
	n := vpParam("s")
	method := "GET"
	if !vpBool("is-get") {
		method = vpString("method", n)
		vpAssume(method != "GET")
	}
	vpQueryVals = url.Values{}
	for _, ch := range []byte(vpStringN("sub", 2)) {
		vpAssume(ch >= 0x80) // cannot coincide with fixed message text
	}
	tok := ""
	switch vpIntRange("param", 0, 2) {
	case 1:
		vpQueryVals["access_token"] = []string{""}
	case 2:
		tok = vpStringN("tok", n)
		vpQueryVals["access_token"] = []string{tok}
	}
	w := vpNewRW()
	TokenInfo(w, vpRequest(method, http.Header{}, nil))
	vpObserve("status", uint64(w.status))
	switch {
	case method != "GET":
		vpReach("bad-method")
		vpAssert(w.status == 405 && vpUICalls == 0 && vpEncoded == 0, "non-get-is-405")
	case tok == "":
		vpReach("missing")
		vpAssert(w.status == 400 && vpUICalls == 0 && vpEncoded == 0, "missing-or-empty-token-is-400")
	case !vpBool("token-verifies"):
		vpReach("refused")
		vpAssert(w.status == 403 && vpEncoded == 0, "refused-token-is-403-and-discloses-nothing")
		sub := vpStringN("sub", 2)
		leak := false
		for i := 0; i+2 <= len(w.body); i++ {
			leak = vpOr(leak, string(w.body[i:i+2]) == sub)
		}
		vpAssert(!leak, "refusal-body-does-not-carry-the-subject")
		for _, lv := range vpMetricLabels {
			for i := 0; i+2 <= len(lv); i++ {
				leak = vpOr(leak, lv[i:i+2] == sub)
			}
		}
		vpAssert(!leak, "published-metrics-do-not-carry-the-subject-of-a-refused-token")
		vpAssert(vpUICalls == 1 && vpUITok == tok, "verifier-sees-the-presented-token")
	default:
		vpReach("ok")
		vpAssert(w.status == 200 && vpEncoded == 1 && vpUICalls == 1 && vpUITok == tok, "verified-token-is-200-with-claims")
	}
}
