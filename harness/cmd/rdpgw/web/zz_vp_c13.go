package web

// C13 — a session becomes authenticated only through a verified OpenID login.

import (
	"context"
	"encoding/json"
	"errors"
	"net/http"
	"net/url"
	"time"

	"github.com/bolkedebruin/rdpgw/cmd/rdpgw/identity"
	"github.com/coreos/go-oidc/v3/oidc"
	"github.com/patrickmn/go-cache"
	"golang.org/x/oauth2"
)

//vp:all stub github.com/patrickmn/go-cache.New = vpCacheNew
//vp:all stub (*github.com/patrickmn/go-cache.Cache).Get = vpCacheGet
//vp:all stub (*github.com/patrickmn/go-cache.Cache).Set = vpCacheSet
//vp:all model (*github.com/patrickmn/go-cache.cache).Get = vpCacheGet
//vp:all model (*github.com/patrickmn/go-cache.cache).Set = vpCacheSet
//vp:all stub (*github.com/patrickmn/go-cache.Cache).GetWithExpiration = vpCacheGetX
//vp:all stub (*github.com/patrickmn/go-cache.Cache).Delete = vpCacheDelete
//vp:all model (*github.com/patrickmn/go-cache.cache).GetWithExpiration = vpCacheGetX
//vp:all model (*github.com/patrickmn/go-cache.cache).Delete = vpCacheDelete
//vp:all stub (*golang.org/x/oauth2.Config).Exchange = vpExchange
//vp:all stub (*golang.org/x/oauth2.Config).AuthCodeURL = vpAuthCodeURL
//vp:all stub (*golang.org/x/oauth2.Token).Extra = vpExtra
//vp:all stub (*github.com/coreos/go-oidc/v3/oidc.IDTokenVerifier).Verify = vpVerify
//vp:all stub (*github.com/coreos/go-oidc/v3/oidc.IDToken).Claims = vpIDClaims
//vp:all stub encoding/json.Unmarshal = vpJSONUnmarshal
//vp:all stub crypto/rand.Read = vpRandRead

var (
	vpCacheDefault time.Duration
	vpCacheItems   map[string]vpCacheItem
	vpCacheSets    int
	vpCacheLookups []vpCacheLookup
	vpExchangeCalls int
	vpExchanged    string
	vpVerified     string
	vpClaimNames   = []string{"preferred_username", "unique_name", "upn", "username"}
)

// go-cache as documented and as read (cache.go): Set(k, v, d) with d == 0 (DefaultExpiration) uses the
// cache's default lifetime; with d > 0 the item expires at now+d; with d < 0 (NoExpiration is -1, and
// the code tests "d > 0") it never expires. Get returns the latest Set unless it has expired. The
// clock is the harness clock (arbitrary, non-decreasing instants).
type vpCacheItem struct {
	v     interface{}
	never bool
	exp   int64 // unix seconds
}
type vpCacheLookup struct {
	key   string
	at    int64
	found bool
}

func vpCacheNew(def, cleanup time.Duration) *cache.Cache {
	vpCacheDefault = def
	vpCacheItems = map[string]vpCacheItem{}
	vpCacheLookups = nil
	vpExchangeCalls = 0
	return &cache.Cache{}
}

func vpCacheGetX(c *cache.Cache, k string) (interface{}, time.Time, bool) {
	now := vpNow().Unix()
	it, ok := vpCacheItems[k]
	found := ok && (it.never || now < it.exp)
	vpCacheLookups = append(vpCacheLookups, vpCacheLookup{k, now, found})
	if !found {
		return nil, time.Time{}, false
	}
	if it.never {
		return it.v, time.Time{}, true
	}
	return it.v, time.Unix(it.exp, 0), true
}
func vpCacheGet(c *cache.Cache, k string) (interface{}, bool) {
	v, _, ok := vpCacheGetX(c, k)
	return v, ok
}
func vpCacheSet(c *cache.Cache, k string, v interface{}, d time.Duration) {
	vpCacheSets++
	sec := vpDurSeconds(d)
	if sec == 0 {
		sec = vpDurSeconds(vpCacheDefault)
	}
	it := vpCacheItem{v: v}
	if sec > 0 {
		it.exp = vpNow().Unix() + sec
	} else {
		it.never = true
	}
	vpCacheItems[k] = it
}
func vpCacheDelete(c *cache.Cache, k string) { delete(vpCacheItems, k) }

func vpExchange(c *oauth2.Config, ctx context.Context, code string, opts ...oauth2.AuthCodeOption) (*oauth2.Token, error) {
	vpExchanged = code
	vpExchangeCalls++
	name := "idp-refuses-code"
	if vpExchangeCalls > 1 {
		name += "-" + vpItoa(vpExchangeCalls) // an independent verdict per exchange
	}
	if vpBool(name) {
		return nil, errors.New("vp: IdP refuses the code")
	}
	return &oauth2.Token{AccessToken: vpStringN("access-token", 2)}, nil
}
func vpAuthCodeURL(c *oauth2.Config, state string, opts ...oauth2.AuthCodeOption) string {
	return "https://idp.example/auth?state=" + state
}
func vpExtra(t *oauth2.Token, key string) interface{} {
	switch vpIntRange("id-token-kind", 0, 2) {
	case 0:
		return "raw-id-token"
	case 1:
		return nil
	}
	return 42
}
func vpVerify(v *oidc.IDTokenVerifier, ctx context.Context, raw string) (*oidc.IDToken, error) {
	vpVerified = raw
	if vpBool("id-token-fails-verification") {
		return nil, errors.New("vp: bad signature / issuer / audience / expired")
	}
	return &oidc.IDToken{}, nil
}
func vpIDClaims(t *oidc.IDToken, v interface{}) error {
	if vpBool("id-token-claims-fail") {
		return errors.New("vp: cannot decode claims")
	}
	if p, ok := v.(**json.RawMessage); ok {
		m := json.RawMessage("{}")
		*p = &m
		return nil
	}
	// any other destination: encoding/json's rules applied to its static type
	if vpBool("claims-not-json") {
		return errors.New("vp: invalid JSON")
	}
	return vpJSONDecodeObject(v, vpIDMembers())
}

// vpClaimName: the member name under which claim i appears in the ID token. The first claim may be
// spelled with another capitalisation — then it is NOT the user-name claim (JSON member names are
// case-sensitive), just another member of the payload.
func vpClaimName(i int) string {
	if i == 0 && vpBool("claim-0-in-other-capitalisation") {
		return "Preferred_Username"
	}
	return vpClaimNames[i]
}

// vpIDMembers: the ID-token payload as a JSON object (each user-name claim absent, a string, or a number).
func vpIDMembers() []vpJSONMember {
	var ms []vpJSONMember
	for i := range vpClaimNames {
		switch vpIntRange("claim-"+vpItoa(i), 0, 2) {
		case 1:
			ms = append(ms, vpJSONMember{Name: vpClaimName(i), S: vpString("claim-val-"+vpItoa(i), 2)})
		case 2:
			ms = append(ms, vpJSONMember{Name: vpClaimName(i), Kind: 1, N: 7})
		}
	}
	return ms
}

// json.Unmarshal of the ID-token payload: each user-name claim is absent, a string, or a non-string.
func vpJSONUnmarshal(data []byte, v interface{}) error {
	if vpBool("claims-not-json") {
		return errors.New("vp: invalid JSON")
	}
	p, ok := v.(*map[string]interface{})
	if !ok {
		vpUnsupported("json.Unmarshal destination")
		return nil
	}
	m := map[string]interface{}{}
	for i := range vpClaimNames {
		n := vpClaimName(i)
		switch vpIntRange("claim-"+vpItoa(i), 0, 2) {
		case 1:
			m[n] = vpString("claim-val-"+vpItoa(i), 2)
		case 2:
			m[n] = 7.0
		}
	}
	*p = m
	return nil
}

var vpRandMayFail bool

func vpRandRead(b []byte) (int, error) {
	if vpRandMayFail && vpBool("rand-fails") {
		return 0, errors.New("vp: entropy source failed")
	}
	for i := range b {
		b[i] = vpU8("rand" + vpItoa(i))
	}
	return len(b), nil
}

//vp:property C13
//vp:bounds every failure point of the callback (state unknown/expired, code refused, id_token absent/non-string, verification failure, claims undecodable, payload not JSON, each of the four user-name claims absent / string of <= 2 bytes incl. empty / non-string, the first possibly spelled in another capitalisation), session store failing or not; state and code strings of 2 symbolic bytes; the request with or without further parameters of its sender's choosing (id_token and access_token, in the query string or in a posted form)
//vp:assume go-cache, oauth2, go-oidc and encoding/json contracts of DESIGN Appendix C
//vp:reach logged-in rejected noclaim
func VP_C13_callback() {
	vpResetWeb()
	vpSnaps = nil
	st := vpNewStore()
	st.saveErr = vpBool("store-save-fails")
	sessionStore = st
	h := (&OIDCConfig{}).New()
	vpAssert(vpCacheDefault == 2*time.Minute, "issued-state-values-live-two-minutes")
	issued := vpStringN("issued-state", 2)
	var issuedAt int64
	if vpBool("state-was-issued") {
		vpCacheSet(nil, issued, "/connect", 0)
		issuedAt = vpLastSec
	}
	presented := vpStringN("presented-state", 2)
	vpQueryVals = url.Values{"state": {presented}, "code": {vpStringN("code", 2)}}
	vpFormVals = nil
	// whoever sends the callback request chooses its parameters: further ones, in the query string or in a
	// posted form, change nothing (tokens come from the identity provider's token endpoint only)
	switch vpIntRange("further-callback-parameters", 0, 2) {
	case 1:
		vpQueryVals["id_token"] = []string{"raw-id-token"}
		vpQueryVals["access_token"] = []string{"at"}
	case 2:
		vpFormVals = url.Values{"id_token": {"raw-id-token"}, "access_token": {"at"}}
	}
	id := identity.NewUser()
	w := vpNewRW()
	h.HandleCallback(w, vpRequest("GET", http.Header{}, id))
	vpObserve("status", uint64(w.status))

	saved := st.savedIdentity()
	authed := st.saves > 0 && saved != nil && saved.Authenticated() // only what the store accepted persists
	vpObserveBool("authed", authed)
	if authed {
		vpReach("logged-in")
		vpAssert(vpBool("state-was-issued") && presented == issued, "state-was-issued-by-the-gateway")
		vpAssert(len(vpCacheLookups) >= 1 && vpCacheLookups[0].key == presented && vpCacheLookups[0].at < issuedAt+120, "state-was-issued-within-the-last-two-minutes")
		vpAssert(!vpBool("idp-refuses-code") && vpExchanged == vpQueryVals.Get("code"), "idp-exchanged-the-presented-code")
		vpAssert(vpIntRange("id-token-kind", 0, 2) == 0 && vpVerified == "raw-id-token", "id-token-present-and-handed-to-the-verifier")
		vpAssert(!vpBool("id-token-fails-verification"), "id-token-verified")
		vpAssert(!vpBool("id-token-claims-fail") && !vpBool("claims-not-json"), "claims-decoded")
		vpAssert(saved.UserName() != "", "authenticated-session-has-a-user-name-claim")
		// the session's user name is one of the token's user-name claims
		match := false
		for i := range vpClaimNames {
			if vpIntRange("claim-"+vpItoa(i), 0, 2) == 1 && vpClaimName(i) == vpClaimNames[i] && saved.UserName() == vpString("claim-val-"+vpItoa(i), 2) {
				match = true
			}
		}
		vpAssert(match, "session-user-name-is-a-user-name-claim-of-the-id-token")
		vpAssert(w.status == 302, "successful-login-redirects")
	} else {
		vpReach("rejected")
	}
	noClaim := true
	for i := range vpClaimNames {
		if vpIntRange("claim-"+vpItoa(i), 0, 2) == 1 {
			noClaim = false
		}
	}
	if noClaim && vpCacheSets > 0 && w.status != 0 {
		vpReach("noclaim")
	}
	// the identity object of a failing callback must not be left authenticated either (file store keeps it)
	vpAssert(!id.Authenticated() || authed || st.saveErr, "failing-callback-leaves-the-identity-unauthenticated")
}

//vp:property C13
//vp:bounds two callbacks carrying the same gateway-issued state value: the first is refused by the identity provider (after any delay), the second — at any later instant, with a code the provider may now accept and any ID-token outcome — is handled by the same handler; clock instants arbitrary and non-decreasing
//vp:assume go-cache as read (a negative lifetime means no expiry; zero means the cache default); oauth2/go-oidc contracts as VP_C13_callback
//vp:reach retry-accepted retry-refused
func VP_C13_callback_retry() {
	vpResetWeb()
	vpSnaps = nil
	st := vpNewStore()
	sessionStore = st
	h := (&OIDCConfig{}).New()
	vpCacheSet(nil, "s1", "/connect", 0)
	issuedAt := vpLastSec
	vpQueryVals = url.Values{"state": {"s1"}, "code": {"c1"}}
	vpAssume(vpBool("idp-refuses-code")) // the first attempt fails at the code exchange
	h.HandleCallback(vpNewRW(), vpRequest("GET", http.Header{}, identity.NewUser()))
	vpAssert(st.saves == 0 || !st.savedIdentity().Authenticated(), "refused-code-does-not-authenticate")
	n1 := len(vpCacheLookups)
	// the retry
	w := vpNewRW()
	h.HandleCallback(w, vpRequest("GET", http.Header{}, identity.NewUser()))
	saved := st.savedIdentity()
	if st.saves > 0 && saved != nil && saved.Authenticated() {
		vpReach("retry-accepted")
		vpAssert(len(vpCacheLookups) > n1 && vpCacheLookups[n1].at < issuedAt+120, "retried-state-was-issued-within-the-last-two-minutes")
	} else {
		vpReach("retry-refused")
	}
}

//vp:property C13 C12
//vp:bounds session authenticated or not; entropy source failing or not
//vp:reach redirected passed
func VP_C13_authenticated_mw() {
	vpResetWeb()
	vpRandMayFail = true
	defer func() { vpRandMayFail = false }()
	h := (&OIDCConfig{}).New()
	id := identity.NewUser()
	id.SetAuthenticated(vpBool("session-authenticated"))
	nextCalls := 0
	next := http.HandlerFunc(func(w http.ResponseWriter, r *http.Request) { nextCalls++ })
	w := vpNewRW()
	h.Authenticated(next).ServeHTTP(w, vpRequest("GET", http.Header{}, id))
	vpObserve("status", uint64(w.status))
	if id.Authenticated() {
		vpReach("passed")
		vpAssert(nextCalls == 1 && w.status == 0, "authenticated-session-reaches-the-handler")
	} else {
		vpAssert(nextCalls == 0, "unauthenticated-session-never-reaches-the-handler")
		if w.status == 302 {
			vpReach("redirected")
			loc := vpHeaderValues(w, "Location")
			vpAssert(len(loc) == 1 && len(loc[0]) > 31 && loc[0][:31] == "https://idp.example/auth?state=", "redirected-to-the-identity-provider")
			vpAssert(vpCacheSets == 1, "a-fresh-state-value-is-recorded")
		} else {
			vpAssert(w.status == 500, "otherwise-500")
		}
	}
}

//vp:property C13 C07
//vp:bounds one browser session under the cookie store: a cookie C1 issued before the login (anonymous identity) is presented, the login completes with it (the identity it was handed is named and marked authenticated, the session is saved: cookie C2), then C1 — which the browser has replaced, but which anybody who saw it before the login still holds — is presented again
//vp:assume the session store authenticates payloads and hands back what the presented cookie carries; gob contract of the identity package; go-cache contract for code that starts to remember things
//vp:reach old-cookie-judged
func VP_C13_old_cookie_after_login() {
	vpResetWeb()
	vpSnaps = nil
	st := vpNewStore()
	sessionStore = st
	r := vpRequest("GET", http.Header{}, nil)
	// C1: what the gateway hands to a browser it has not seen before
	vpAssert(SaveSessionIdentity(r, vpNewRW(), identity.NewUser()) == nil, "anonymous-identity-saved")
	c1, _ := st.sess.Values[identityKey].([]byte)
	c1 = append([]byte{}, c1...)
	// a request with C1, then the login completes on the identity that request was handed
	id1, _ := GetSessionIdentity(r)
	vpAssert(id1 != nil && !id1.Authenticated(), "identity-of-a-pre-login-cookie-is-unauthenticated")
	if id1 == nil {
		return
	}
	id1.SetUserName("alice")
	id1.SetAuthenticated(true)
	vpAssert(SaveSessionIdentity(r, vpNewRW(), id1) == nil, "logged-in-identity-saved")
	// C1 again
	st.sess.Values[identityKey] = c1
	id3, _ := GetSessionIdentity(vpRequest("GET", http.Header{}, nil))
	vpReach("old-cookie-judged")
	vpAssert(id3 != nil && !id3.Authenticated() && id3.UserName() == "", "a-cookie-issued-before-the-login-stays-unauthenticated")
}
