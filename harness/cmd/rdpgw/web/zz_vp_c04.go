package web

// C04 — the client address is the first X-Forwarded-For element, else the TCP peer host.

import (
	"crypto/tls"
	"io"
	"net/http"

	"github.com/bolkedebruin/rdpgw/cmd/rdpgw/identity"
)

// vpFirstXFF: trimmed text before the first comma (oracle loops, independent of strings.Split).
func vpFirstXFF(h string) string {
	end := len(h)
	for i := 0; i < len(h); i++ {
		if h[i] == ',' {
			end = i
			break
		}
	}
	s := h[:end]
	for len(s) > 0 && vpIsSpace(s[0]) {
		s = s[1:]
	}
	for len(s) > 0 && vpIsSpace(s[len(s)-1]) {
		s = s[:len(s)-1]
	}
	return s
}

func vpIsSpace(c byte) bool {
	return vpOr(vpOr(c == ' ', c == '\t'), vpOr(vpOr(c == '\n', c == '\v'), vpOr(c == '\f', c == '\r')))
}

//vp:property C04
//vp:set x 4 6
//vp:set budget 300 900
//vp:bounds X-Forwarded-For absent or any ASCII string of <= x bytes (4 quick, 6 thorough) (commas, blanks, empty elements); peer address one of {"192.0.2.9:4242", "[2001:db8::1]:80", "nohostport", ""}; new or existing session; the request arrives over plain HTTP or over the gateway's own TLS listener
//vp:assume header bytes are ASCII (< 0x80): strings.TrimSpace's Unicode path is outside the bound
//vp:reach xff peer
func VP_C04_enrich() {
	vpResetWeb()
	st := vpNewStore()
	sessionStore = st
	hdr := http.Header{}
	xff := ""
	if vpBool("has-xff") {
		xff = vpString("xff", vpParam("x"))
		for i := 0; i < len(xff); i++ {
			vpAssume(xff[i] < 0x80)
		}
		hdr["X-Forwarded-For"] = []string{xff}
	}
	peer := []string{"192.0.2.9:4242", "[2001:db8::1]:80", "nohostport", ""}[vpIntRange("peer", 0, 3)]
	peerHost := []string{"192.0.2.9", "2001:db8::1", "", ""}[vpIntRange("peer", 0, 3)]
	var seen identity.Identity
	next := http.HandlerFunc(func(w http.ResponseWriter, r *http.Request) { seen = identity.FromRequestCtx(r) })
	r := vpRequest("GET", hdr, nil)
	r.RemoteAddr = peer
	if vpBool("request-arrived-over-the-gateways-own-tls-listener") {
		// a proxy that re-encrypts towards the gateway: the header counts all the same
		r.TLS = &tls.ConnectionState{}
	}
	w := vpNewRW()
	EnrichContext(next).ServeHTTP(w, r)
	vpAssert(seen != nil, "next-handler-reached-with-an-identity")
	if seen == nil {
		return
	}
	got, _ := seen.GetAttribute(identity.AttrClientIp).(string)
	vpObserveStr("clientIp", got)
	if xff != "" {
		vpReach("xff")
		vpAssert(got == vpFirstXFF(xff), "client-address-is-the-first-forwarded-for-element")
	} else {
		vpReach("peer")
		vpAssert(got == peerHost, "client-address-is-the-tcp-peer-host")
	}
	ra, _ := seen.GetAttribute(identity.AttrRemoteAddr).(string)
	vpAssert(ra == peer, "remote-address-attribute-is-the-tcp-peer")
}

//vp:property C04
//vp:bounds X-Forwarded-For made of address literals: the first element one of {10.1.2.d, 127.0.0.d, 169.254.1.d, 192.168.0.d, 172.16.0.d, 100.64.0.d, fc00::d, ::1, fe80::d, 203.0.113.d, 2001:db8::d, "unknown"} with d a symbolic decimal digit, followed by 0..2 further elements (203.0.113.7, 10.0.0.1), separated by "," or ", "
//vp:reach literal
func VP_C04_enrich_literals() {
	vpResetWeb()
	sessionStore = vpNewStore()
	d := vpU8("digit")
	vpAssume(vpAnd(d >= '0', d <= '9'))
	ds := string([]byte{d})
	first := []string{"10.1.2." + ds, "127.0.0." + ds, "169.254.1." + ds, "192.168.0." + ds, "172.16.0." + ds, "100.64.0." + ds,
		"fc00::" + ds, "::1", "fe80::" + ds, "203.0.113." + ds, "2001:db8::" + ds, "unknown"}[vpIntRange("first-element", 0, 11)]
	sep := []string{",", ", "}[vpIntRange("separator", 0, 1)]
	xff := first
	switch vpIntRange("further-elements", 0, 2) {
	case 1:
		xff += sep + "203.0.113.7"
	case 2:
		xff += sep + "203.0.113.7" + sep + "10.0.0.1"
	}
	var seen identity.Identity
	next := http.HandlerFunc(func(w http.ResponseWriter, r *http.Request) { seen = identity.FromRequestCtx(r) })
	r := vpRequest("GET", http.Header{"X-Forwarded-For": {xff}}, nil)
	r.RemoteAddr = "192.0.2.9:4242"
	EnrichContext(next).ServeHTTP(vpNewRW(), r)
	vpAssert(seen != nil, "next-handler-reached-with-an-identity")
	if seen == nil {
		return
	}
	vpReach("literal")
	got, _ := seen.GetAttribute(identity.AttrClientIp).(string)
	vpObserveStr("clientIp", got)
	vpAssert(got == first, "client-address-is-the-first-forwarded-for-element-whatever-kind-of-address-it-is")
}

//vp:property C04 C12
//vp:bounds one browser session, two requests: the first from peer address A (no X-Forwarded-For) after which the identity is saved into the session as the login callback does; the second from peer B, with or without an X-Forwarded-For value of <= 3 ASCII bytes
//vp:reach second
func VP_C04_enrich_twice() {
	vpResetWeb()
	vpSnaps = nil
	st := vpNewStore()
	sessionStore = st
	var seen identity.Identity
	next := http.HandlerFunc(func(w http.ResponseWriter, r *http.Request) { seen = identity.FromRequestCtx(r) })
	r1 := vpRequest("GET", http.Header{}, nil)
	r1.RemoteAddr = "192.0.2.10:4000"
	EnrichContext(next).ServeHTTP(vpNewRW(), r1)
	vpAssert(seen != nil, "first-request-handled")
	if seen == nil {
		return
	}
	// the login callback persists the identity, attributes included
	seen.SetAuthenticated(true)
	vpAssert(SaveSessionIdentity(r1, vpNewRW(), seen) == nil, "identity-saved")
	hdr := http.Header{}
	xff := ""
	if vpBool("second-has-xff") {
		xff = vpString("xff", 3)
		for i := 0; i < len(xff); i++ {
			vpAssume(xff[i] < 0x80)
		}
		hdr["X-Forwarded-For"] = []string{xff}
	}
	r2 := vpRequest("GET", hdr, nil)
	r2.RemoteAddr = "198.51.100.7:5000"
	seen = nil
	EnrichContext(next).ServeHTTP(vpNewRW(), r2)
	vpReach("second")
	vpAssert(seen != nil, "second-request-handled")
	if seen == nil {
		return
	}
	got, _ := seen.GetAttribute(identity.AttrClientIp).(string)
	vpObserveStr("clientIp", got)
	if xff != "" {
		vpAssert(got == vpFirstXFF(xff), "client-address-is-the-current-requests-forwarded-address")
	} else {
		vpAssert(got == "198.51.100.7", "client-address-is-the-current-requests-peer-not-the-login-address")
	}
}


//vp:property C07 C04
//vp:bounds one browser session whose identity was saved at login (user "alice"); then two gateway requests with that session cookie from different peers (each with or without an X-Forwarded-For value of <= 2 ASCII bytes). The identity handed to the first request is kept (a tunnel keeps it as Tunnel.User) while the second request is served and its identity is renamed, as an accepted access cookie does
//vp:reach both
func VP_C07_session_identities() {
	vpResetWeb()
	vpSnaps = nil
	sessionStore = vpNewStore()
	var seen identity.Identity
	next := http.HandlerFunc(func(w http.ResponseWriter, r *http.Request) { seen = identity.FromRequestCtx(r) })
	r1 := vpRequest("GET", http.Header{}, nil)
	r1.RemoteAddr = "192.0.2.10:4000"
	EnrichContext(next).ServeHTTP(vpNewRW(), r1)
	if seen == nil {
		return
	}
	seen.SetUserName("alice")
	seen.SetAuthenticated(true)
	vpAssert(SaveSessionIdentity(r1, vpNewRW(), seen) == nil, "identity-saved")
	mk := func(peer, tag string) (identity.Identity, string) {
		hdr := http.Header{}
		want := peer
		if vpBool("xff-" + tag) {
			x := vpString("xffv-"+tag, 2)
			for i := 0; i < len(x); i++ {
				vpAssume(x[i] < 0x80)
			}
			hdr["X-Forwarded-For"] = []string{x}
			if x != "" {
				want = vpFirstXFF(x)
			}
		}
		r := vpRequest("GET", hdr, nil)
		r.RemoteAddr = peer + ":5000"
		seen = nil
		EnrichContext(next).ServeHTTP(vpNewRW(), r)
		return seen, want
	}
	idA, wantA := mk("198.51.100.7", "a")
	idB, wantB := mk("203.0.113.9", "b")
	if idA == nil || idB == nil {
		return
	}
	vpReach("both")
	idB.SetUserName("bob") // the second tunnel's access cookie names another user
	gotA, _ := idA.GetAttribute(identity.AttrClientIp).(string)
	gotB, _ := idB.GetAttribute(identity.AttrClientIp).(string)
	vpAssert(gotA == wantA, "first-requests-identity-keeps-its-own-client-address")
	vpAssert(gotB == wantB, "second-requests-identity-has-its-own-client-address")
	vpAssert(idA.UserName() == "alice", "first-requests-identity-keeps-its-user-name")
	raA, _ := idA.GetAttribute(identity.AttrRemoteAddr).(string)
	vpAssert(raA == "198.51.100.7:5000", "first-requests-identity-keeps-its-peer-address")
}


//vp:property C20 C10
//vp:bounds a POST whose body has 1 KiB, 64 KiB + 1 or 128 KiB (what the KDC proxy accepts) passes the router's middleware (EnrichContext, installed in front of every route) and is then read in full by its handler, 32 KiB at a time
//vp:assume new session
//vp:reach read
func VP_C20_body_through_the_middleware() {
	vpResetWeb()
	sessionStore = vpNewStore()
	size := []int{1024, 64*1024 + 1, 128 * 1024}[vpIntRange("body-size", 0, 2)]
	got, failed := 0, false
	next := http.HandlerFunc(func(w http.ResponseWriter, r *http.Request) {
		buf := make([]byte, 32*1024)
		for {
			n, err := r.Body.Read(buf)
			got += n
			if err != nil {
				failed = err != io.EOF
				return
			}
		}
	})
	r := vpRequest("POST", http.Header{}, nil)
	r.RemoteAddr = "192.0.2.9:4242"
	r.Body = &vpSizedBody{left: size}
	EnrichContext(next).ServeHTTP(vpNewRW(), r)
	vpReach("read")
	vpAssert(!failed && got == size, "the-handler-behind-the-middleware-reads-the-whole-body")
}
