package web

// C04 — the client address is the first X-Forwarded-For element, else the TCP peer host.

import (
	"net/http"

	"github.com/bolkedebruin/rdpgw/cmd/rdpgw/identity"
)

// vpFirstXFF: trimmed text before the first comma (oracle loops, independent of strings.Split).
func vpFirstXFF(h string) string {
	end := len(h)
	for i := 0; i < len(h); i++ {
		if h[i] == ',' {
			end = i
			break
		}
	}
	s := h[:end]
	for len(s) > 0 && vpIsSpace(s[0]) {
		s = s[1:]
	}
	for len(s) > 0 && vpIsSpace(s[len(s)-1]) {
		s = s[:len(s)-1]
	}
	return s
}

func vpIsSpace(c byte) bool {
	return vpOr(vpOr(c == ' ', c == '\t'), vpOr(vpOr(c == '\n', c == '\v'), vpOr(c == '\f', c == '\r')))
}

//vp:property C04
//vp:set x 4 6
//vp:set budget 60 600
//vp:bounds X-Forwarded-For absent or any ASCII string of <= x bytes (4 quick, 6 thorough) (commas, blanks, empty elements); peer address one of {"192.0.2.9:4242", "[2001:db8::1]:80", "nohostport", ""}; new or existing session
//vp:assume header bytes are ASCII (< 0x80): strings.TrimSpace's Unicode path is outside the bound
//vp:reach xff peer
func VP_C04_enrich() {
	vpResetWeb()
	st := vpNewStore()
	sessionStore = st
	hdr := http.Header{}
	xff := ""
	if vpBool("has-xff") {
		xff = vpString("xff", vpParam("x"))
		for i := 0; i < len(xff); i++ {
			vpAssume(xff[i] < 0x80)
		}
		hdr["X-Forwarded-For"] = []string{xff}
	}
	peer := []string{"192.0.2.9:4242", "[2001:db8::1]:80", "nohostport", ""}[vpIntRange("peer", 0, 3)]
	peerHost := []string{"192.0.2.9", "2001:db8::1", "", ""}[vpIntRange("peer", 0, 3)]
	var seen identity.Identity
	next := http.HandlerFunc(func(w http.ResponseWriter, r *http.Request) { seen = identity.FromRequestCtx(r) })
	r := vpRequest("GET", hdr, nil)
	r.RemoteAddr = peer
	w := vpNewRW()
	EnrichContext(next).ServeHTTP(w, r)
	vpAssert(seen != nil, "next-handler-reached-with-an-identity")
	if seen == nil {
		return
	}
	got, _ := seen.GetAttribute(identity.AttrClientIp).(string)
	vpObserveStr("clientIp", got)
	if xff != "" {
		vpReach("xff")
		vpAssert(got == vpFirstXFF(xff), "client-address-is-the-first-forwarded-for-element")
	} else {
		vpReach("peer")
		vpAssert(got == peerHost, "client-address-is-the-tcp-peer-host")
	}
	ra, _ := seen.GetAttribute(identity.AttrRemoteAddr).(string)
	vpAssert(ra == peer, "remote-address-attribute-is-the-tcp-peer")
}
