package web

// Session-store and identity (de)serialisation stand-ins shared by the web harnesses.

import (
	"errors"
	"net/http"
	"time"

	"github.com/bolkedebruin/rdpgw/cmd/rdpgw/identity"
	"github.com/gorilla/sessions"
)

//vp:all model (*github.com/bolkedebruin/rdpgw/cmd/rdpgw/identity.User).Marshal = vpmMarshal
//vp:all model (*github.com/bolkedebruin/rdpgw/cmd/rdpgw/identity.User).Unmarshal = vpmUnmarshal

// vpStore implements sessions.Store with one in-memory session.
type vpStore struct {
	sess    *sessions.Session
	saves   int
	getErr  bool
	saveErr bool
}

func vpNewStore() *vpStore {
	return &vpStore{sess: &sessions.Session{Values: map[interface{}]interface{}{}, Options: &sessions.Options{}}}
}

func (s *vpStore) Get(r *http.Request, name string) (*sessions.Session, error) {
	if s.getErr {
		return nil, errors.New("vp: session store failure")
	}
	return s.sess, nil
}
func (s *vpStore) New(r *http.Request, name string) (*sessions.Session, error) { return s.Get(r, name) }
func (s *vpStore) Save(r *http.Request, w http.ResponseWriter, x *sessions.Session) error {
	if s.saveErr {
		return errors.New("vp: session store failure")
	}
	s.saves++
	return nil
}

// savedIdentity decodes what is in the session, as a later request would.
func (s *vpStore) savedIdentity() *identity.User {
	b, ok := s.sess.Values[identityKey].([]byte)
	if !ok {
		return nil
	}
	u := identity.NewUser()
	u.Unmarshal(b)
	return u
}

// gob stand-in (symbolic side only): Marshal stores a snapshot taken through the exported
// getters and returns its index; Unmarshal restores it through the setters.
type vpSnap struct {
	auth                         bool
	user, domain, display, email string
	authTime, expiry             time.Time
	attrs                        map[string]interface{}
}

var vpSnaps []vpSnap

func vpmMarshal(u *identity.User) ([]byte, error) {
	at := map[string]interface{}{}
	for k, v := range u.Attributes() {
		at[k] = v
	}
	dn := u.DisplayName()
	if dn == u.UserName() {
		dn = ""
	}
	vpSnaps = append(vpSnaps, vpSnap{u.Authenticated(), u.UserName(), u.Domain(), dn, u.Email(), u.AuthTime(), u.Expiry(), at})
	return []byte{byte(len(vpSnaps) - 1)}, nil
}

func vpmUnmarshal(u *identity.User, b []byte) error {
	if len(b) != 1 || int(b[0]) >= len(vpSnaps) {
		return errors.New("vp: bad identity blob")
	}
	s := vpSnaps[b[0]]
	u.SetAuthenticated(s.auth)
	u.SetUserName(s.user)
	u.SetDomain(s.domain)
	u.SetDisplayName(s.display)
	u.SetEmail(s.email)
	u.SetAuthTime(s.authTime)
	u.SetExpiry(s.expiry)
	for k := range u.Attributes() {
		u.DelAttribute(k)
	}
	for k, v := range s.attrs {
		u.SetAttribute(k, v)
	}
	return nil
}
