// Hand-kept end-to-end reproduction (real go-ntlm cryptography) of finding 18 (C14): place in
// cmd/auth/ntlm/ of a tree WITHOUT commit "fix: NTLM verifier drops the session context after every
// authenticate message" and run: go test -vet=off -count=1 -run TestProbeKeyCache ./cmd/auth/ntlm/
// It fails there ("mallory authenticated as alice") and passes on the repaired tree.
package ntlm

import (
	"encoding/base64"
	"testing"

	"github.com/bolkedebruin/rdpgw/cmd/auth/config"
	"github.com/bolkedebruin/rdpgw/cmd/auth/database"
	"github.com/bolkedebruin/rdpgw/shared/auth"
	"github.com/m7913d/go-ntlm/ntlm"
)

func TestProbeKeyCache(t *testing.T) {
	db := database.NewConfig([]config.UserConfig{{Username: "mallory", Password: "pw-mallory"}, {Username: "alice", Password: "pw-alice"}})
	server := NewNTLMAuth(db)
	send := func(b []byte) *auth.NtlmResponse {
		r, _ := server.Authenticate(&auth.NtlmRequest{Session: "X", NtlmMessage: base64.StdEncoding.EncodeToString(b)})
		return r
	}
	client := ntlm.V2ClientSession{}
	client.SetUserInfo("mallory", "pw-mallory", "")
	neg, _ := client.GenerateNegotiateMessage()
	r := send(neg.Bytes())
	chb, _ := base64.StdEncoding.DecodeString(r.NtlmMessage)
	ch, _ := ntlm.ParseChallengeMessage(chb)
	client.ProcessChallengeMessage(ch)
	am, _ := client.GenerateAuthenticateMessage()
	bad := append([]byte{}, am.Bytes()...)
	bad[int(am.NtChallengeResponseFields.Offset)] ^= 0xFF // a failing attempt as mallory caches mallory's key
	if r = send(bad); r.Authenticated {
		t.Fatal("corrupted proof accepted")
	}
	client2 := ntlm.V2ClientSession{}
	client2.SetUserInfo("mallory", "pw-mallory", "")
	client2.GenerateNegotiateMessage()
	client2.ProcessChallengeMessage(ch)
	am2, _ := client2.GenerateAuthenticateMessage()
	am2.UserName, _ = ntlm.CreateStringPayload("alice") // proof made from mallory's password, name says alice
	if r = send(am2.Bytes()); r != nil && r.Authenticated {
		t.Fatalf("mallory authenticated as %q knowing only her own password", r.Username)
	}
}
