// reproduction for cmd/rdpgw/protocol (UNCHANGED tree): a second RDG_OUT_DATA request with the Rdg-Connection-Id of a running
// legacy tunnel replaces Tunnel.transportOut without synchronisation; fails as is, and reports a DATA RACE with -race
package protocol

import (
	"bufio"
	"bytes"
	"fmt"
	"io"
	"net"
	"net/http"
	"net/http/httptest"
	"sync"
	"testing"
	"strconv"
	"time"

	"github.com/bolkedebruin/rdpgw/cmd/rdpgw/identity"
)

// scriptedConn is the hijacked connection of one legacy channel. Every Read hands out
// the next scripted chunk and blocks once the script is exhausted until the connection
// is closed. Writes are recorded; the first Write can be held up by the test (a write
// that is slow to complete), and the connection notices when a second Write is started
// while another one is still in progress.
type scriptedConn struct {
	mu       sync.Mutex
	reads    [][]byte
	written  bytes.Buffer
	writes   int
	inside   int
	overlaps int

	holdFirstWrite bool
	writeStarted   chan int      // call number of every Write that is started
	release        chan struct{} // closed by the test to let the first Write complete
	closed         chan struct{}
	closeOnce      sync.Once
}

func newScriptedConn(hold bool, reads ...[]byte) *scriptedConn {
	return &scriptedConn{
		reads:          reads,
		holdFirstWrite: hold,
		writeStarted:   make(chan int, 100000),
		release:        make(chan struct{}),
		closed:         make(chan struct{}),
	}
}

func (c *scriptedConn) Read(p []byte) (int, error) {
	c.mu.Lock()
	if len(c.reads) > 0 {
		n := copy(p, c.reads[0])
		c.reads = c.reads[1:]
		c.mu.Unlock()
		return n, nil
	}
	c.mu.Unlock()
	<-c.closed
	return 0, io.EOF
}

func (c *scriptedConn) Write(p []byte) (int, error) {
	c.mu.Lock()
	c.writes++
	call := c.writes
	c.inside++
	if c.inside > 1 {
		c.overlaps++
	}
	c.mu.Unlock()

	c.writeStarted <- call
	if call == 1 && c.holdFirstWrite {
		<-c.release
	}

	c.mu.Lock()
	c.written.Write(p)
	c.inside--
	c.mu.Unlock()
	return len(p), nil
}

func (c *scriptedConn) Close() error {
	c.closeOnce.Do(func() { close(c.closed) })
	return nil
}

func (c *scriptedConn) LocalAddr() net.Addr                { return &net.TCPAddr{IP: net.IPv4(127, 0, 0, 1), Port: 443} }
func (c *scriptedConn) RemoteAddr() net.Addr               { return &net.TCPAddr{IP: net.IPv4(192, 0, 2, 7), Port: 50000} }
func (c *scriptedConn) SetDeadline(t time.Time) error      { return nil }
func (c *scriptedConn) SetReadDeadline(t time.Time) error  { return nil }
func (c *scriptedConn) SetWriteDeadline(t time.Time) error { return nil }

func (c *scriptedConn) snapshot() (written []byte, overlaps int) {
	c.mu.Lock()
	defer c.mu.Unlock()
	return append([]byte(nil), c.written.Bytes()...), c.overlaps
}

// hijackableWriter is the http.ResponseWriter of a request whose connection can be hijacked
type hijackableWriter struct {
	*httptest.ResponseRecorder
	conn *scriptedConn
}

func (w *hijackableWriter) Hijack() (net.Conn, *bufio.ReadWriter, error) {
	return w.conn, bufio.NewReadWriter(bufio.NewReader(w.conn), bufio.NewWriter(w.conn)), nil
}

func legacyRequest(method string, connId string) *http.Request {
	r := httptest.NewRequest(method, "/remoteDesktopGateway/", nil)
	r.Header.Set(rdgConnectionIdKey, connId)
	id := identity.NewUser()
	id.SetUserName("alice")
	id.SetAuthenticated(true)
	id.SetAttribute(identity.AttrRemoteAddr, "192.0.2.7:50000")
	id.SetAttribute(identity.AttrClientIp, "192.0.2.7")
	return identity.AddToRequestCtx(id, r)
}

func chunk(b []byte) []byte {
	return append(append([]byte(fmt.Sprintf("%x\r\n", len(b))), b...), '\r', '\n')
}


func TestExistingOutReplace(t *testing.T) {
	ln, err := net.Listen("tcp", "127.0.0.1:0")
	if err != nil { t.Fatal(err) }
	defer ln.Close()
	stop := make(chan struct{})
	go func() {
		c, err := ln.Accept()
		if err != nil { return }
		defer c.Close()
		for i := 0; ; i++ {
			select { case <-stop: return; default: }
			c.Write([]byte("host-data-" + strconv.Itoa(i)))
			time.Sleep(20 * time.Millisecond)
		}
	}()
	_, portS, _ := net.SplitHostPort(ln.Addr().String())
	port, _ := strconv.Atoi(portS)

	gw := &Gateway{}
	connId := "{existing-out-replace}"
	client := ClientConfig{Server: "127.0.0.1", Port: port, Name: "pc"}

	out1 := newScriptedConn(false)
	gw.HandleGatewayProtocol(&hijackableWriter{ResponseRecorder: httptest.NewRecorder(), conn: out1}, legacyRequest(MethodRDGOUT, connId))

	in := newScriptedConn(false, []byte("0123456789"), chunk(client.handshakeRequest()), chunk(client.tunnelRequest()),
		chunk(client.tunnelAuthRequest()), chunk(client.channelRequest()))
	inDone := make(chan struct{})
	go func() {
		defer close(inDone)
		gw.HandleGatewayProtocol(&hijackableWriter{ResponseRecorder: httptest.NewRecorder(), conn: in}, legacyRequest(MethodRDGIN, connId))
	}()
	time.Sleep(500 * time.Millisecond)
	w1, _ := out1.snapshot()
	if !bytes.Contains(w1, []byte("host-data-")) { t.Fatalf("relay not running: %q", w1) }

	// somebody else presents the same Rdg-Connection-Id on a new RDG_OUT_DATA request
	out2 := newScriptedConn(false)
	gw.HandleGatewayProtocol(&hijackableWriter{ResponseRecorder: httptest.NewRecorder(), conn: out2}, legacyRequest(MethodRDGOUT, connId))
	time.Sleep(500 * time.Millisecond)
	close(stop)
	in.Close()
	<-inDone
	w2, _ := out2.snapshot()
	if bytes.Contains(w2, []byte("host-data-")) {
		t.Fatalf("host data of the running tunnel went to the second RDG_OUT_DATA connection: %q", w2[:200])
	}
}
