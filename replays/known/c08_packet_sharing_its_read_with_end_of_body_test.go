// reproduction for cmd/rdpgw/protocol (UNCHANGED tree): a packet that shares its read with the end of the
// chunked body (or with a chunk-framing error) is dropped, the same packet in a read of its own is processed
package protocol

import (
	"bufio"
	"context"
	"encoding/binary"
	"fmt"
	"net"
	"net/http/httputil"
	"testing"
	"time"

	"github.com/bolkedebruin/rdpgw/cmd/rdpgw/identity"
	"github.com/bolkedebruin/rdpgw/cmd/rdpgw/transport"
)

type reproOut struct{ out chan []byte }

func (c *reproOut) ReadPacket() (int, []byte, error) { select {} }
func (c *reproOut) WritePacket(b []byte) (int, error) {
	c.out <- append([]byte(nil), b...)
	return len(b), nil
}
func (c *reproOut) Close() error { return nil }

func reproChunk(b []byte) []byte {
	return append(append([]byte(fmt.Sprintf("%x\r\n", len(b))), b...), '\r', '\n')
}

// session sends handshake and tunnel request followed by the terminating chunk; coalesce says whether
// the tunnel request and the terminating chunk travel in one segment. It returns the response types seen
func reproSession(t *testing.T, coalesce bool) []uint16 {
	client, server := net.Pipe() // every Write is one segment for the reader
	defer client.Close()
	in := &transport.LegacyPKT{Conn: server, ChunkedReader: httputil.NewChunkedReader(bufio.NewReader(server))}
	out := &reproOut{out: make(chan []byte, 16)}
	u := identity.NewUser()
	u.SetAttribute(identity.AttrClientIp, "127.0.0.1")
	done := make(chan error, 1)
	go func() {
		done <- NewProcessor(&Gateway{}, &Tunnel{transportIn: in, transportOut: out, User: u}).Process(context.Background())
		server.Close()
	}()

	cl := &ClientConfig{}
	last := "0\r\n\r\n"
	client.Write(reproChunk(cl.handshakeRequest()))
	if coalesce {
		client.Write(append(reproChunk(cl.tunnelRequest()), last...))
	} else {
		client.Write(reproChunk(cl.tunnelRequest()))
		client.Write([]byte(last))
	}
	select {
	case <-done:
	case <-time.After(5 * time.Second):
		t.Fatal("packet loop did not end")
	}
	var types []uint16
	for len(out.out) > 0 {
		types = append(types, binary.LittleEndian.Uint16(<-out.out))
	}
	return types
}

func TestPacketSharingItsReadWithEndOfBody(t *testing.T) {
	separate := reproSession(t, false)
	together := reproSession(t, true)
	t.Logf("terminating chunk in its own segment: responses %v", separate)
	t.Logf("terminating chunk in the segment of the last packet: responses %v", together)
	if fmt.Sprint(separate) != fmt.Sprint(together) {
		t.Fatalf("same byte stream, different packets processed: %v vs %v", separate, together)
	}
}
