// Finding 21 (C14), real cryptography: two authenticate messages of ONE NTLM session handled concurrently.
// Written by the round-9 C14 seeding sub-agent against the tree before fix d478715; kept as the concrete
// reproduction next to the solver's model (VP_C14_concurrent). Copy into cmd/auth/ntlm and run
//   go test -vet=off -count=1 -run TestProbeRace ./cmd/auth/ntlm/
// Before the fix: FAIL "authenticated as admin with mallory's key". After the fix the forged request holds
// the context while it waits for the database, the honest request waits for it (and is then refused, the
// exchange being over) — the test releases the database after a second so that both complete.
package ntlm

import (
	"encoding/base64"
	"sync"
	"testing"
	"time"

	"github.com/bolkedebruin/rdpgw/cmd/auth/config"
	"github.com/bolkedebruin/rdpgw/cmd/auth/database"
	"github.com/bolkedebruin/rdpgw/shared/auth"
	"github.com/m7913d/go-ntlm/ntlm"
)

type blockingDB struct {
	inner   database.Database
	blockOn string
	reached chan struct{}
	release chan struct{}
	once    sync.Once
}

func (b *blockingDB) GetPassword(u string) string {
	if u == b.blockOn {
		b.once.Do(func() { close(b.reached) })
		<-b.release
	}
	return b.inner.GetPassword(u)
}

func probeNegotiate(t *testing.T, s *NTLMAuth, session string, client *ntlm.V2ClientSession) {
	nm, _ := client.GenerateNegotiateMessage()
	r, err := s.Authenticate(&auth.NtlmRequest{Session: session, NtlmMessage: base64.StdEncoding.EncodeToString(nm.Bytes())})
	if err != nil {
		t.Fatal(err)
	}
	raw, _ := base64.StdEncoding.DecodeString(r.NtlmMessage)
	cm, err := ntlm.ParseChallengeMessage(raw)
	if err != nil {
		t.Fatal(err)
	}
	client.ProcessChallengeMessage(cm)
}

func TestProbeRace(t *testing.T) {
	users := []config.UserConfig{{Username: "mallory", Password: "mallorypw"}, {Username: "admin", Password: "S3cret-admin"}}
	db := &blockingDB{inner: database.NewConfig(users), blockOn: "admin", reached: make(chan struct{}), release: make(chan struct{})}
	s := NewNTLMAuth(db)

	client := &ntlm.V2ClientSession{}
	client.SetUserInfo("mallory", "mallorypw", "")
	probeNegotiate(t, s, "S", client)
	am, err := client.GenerateAuthenticateMessage()
	if err != nil {
		t.Fatal(err)
	}
	good := am.Bytes()

	// forged: same proof but user name "admin": needs key of MALLORY... key depends on user name, so
	// compute with a client whose key is mallory's but names admin: do it by hand below
	forged := forgeFor(t, client, "admin")

	var wg sync.WaitGroup
	var rb *auth.NtlmResponse
	wg.Add(1)
	go func() {
		defer wg.Done()
		rb, _ = s.Authenticate(&auth.NtlmRequest{Session: "S", NtlmMessage: base64.StdEncoding.EncodeToString(forged)})
	}()
	<-db.reached
	go func() { time.Sleep(time.Second); close(db.release) }()
	ra, err := s.Authenticate(&auth.NtlmRequest{Session: "S", NtlmMessage: base64.StdEncoding.EncodeToString(good)})
	_ = ra
	_ = err
	wg.Wait()
	if rb != nil && rb.Authenticated {
		t.Fatalf("BASELINE RACE: authenticated as %q with mallory's key", rb.Username)
	}
}

// forgeFor builds an authenticate message naming another user while the proof is computed with
// the response key of the client's own account.
func forgeFor(t *testing.T, client *ntlm.V2ClientSession, name string) []byte {
	am, err := client.GenerateAuthenticateMessage()
	if err != nil {
		t.Fatal(err)
	}
	am.UserName, _ = ntlm.CreateStringPayload(name)
	return am.Bytes()
}

